"""C16 (image builder layout laws) and C09 (destination receives the image)."""
import json
import os
from . import core, util


def c16(ck):
    quick = ck.tier == "quick"
    # 1. design level: the cell-level transcription of mem_writer.rs satisfies the laws, all histories
    mc = core.mc_or_die("MC_ImageBuilder", "MC_ImageBuilder" if quick else "MC_ImageBuilder_thorough", workers=4 if quick else 8,
                        coverage=True, timeout=1500)
    util.vacuity(ck, mc, "ImageBuilder", ["Alloc", "AllocVal", "SetValue", "AllocArray", "AllocFrom", "SetAt", "Bytes", "String"])
    ck.add_mc(mc, "all operation histories up to MaxOps over symbolic element sizes; action properties LocationIsEndOffset, AppendOnly, SlotFillLocal, ArrayStride, ValuePresent")
    hists = mc["printed"].get("REPLAY", [])
    if not hists:
        raise core.ToolError("MC_ImageBuilder exported no histories")
    # 2. spec -> impl: replay every history on the real code (element types rotate over all record types)
    inp = os.path.join(ck.work, "imgops.in")
    out = os.path.join(ck.work, "imgops.ndjson")
    core.export_lines(hists, inp)
    core.drive("imgops", out, inp=inp, seed=ck.seed, random=400 if quick else 6000,
               extra=["--strings", "2000" if quick else "20000"])
    # 3. impl -> spec: the laws evaluated by TLC on the recorded values of every call
    def describe(hist, tag):
        last = hist[-1]
        return ({"tag": tag, "op": last.get("op"), "ty": last.get("ty", "")},
                f"image builder law broken by `{last.get('op')}` on {last.get('ty', 'bytes')}: observed {json.dumps(last.get('obs'))}")
    v = util.judge_batch(ck, "Trace_ImageBuilder", out, "replayed TLC histories + random histories + random Unicode strings", "ImageBuilder", describe)
    ck.cov["distinct_nontrivial"] = len(hists) + (400 if quick else 6000) + (100 if quick else 1000)
    ck.cov["rule"] = ("one case = one operation history on a fresh Buffer (TLC-enumerated: all histories of MaxOps operations; random: 1..30 operations "
                      "over all 20 element types; string histories of 20 strings); all are distinct by construction, non-trivial = at least one operation")
    ck.cov["exhaustive"] = True
    ck.cov["decided_by"] = {"layout laws (offsets, sizes, touched ranges)": "spec", "slot content equals the written value / UTF-16 round trip": "comparator"}
    ck.sample({"tlc_history": hists[len(hists) // 2]})
    ck.sample({"recorded_event": core.read_ndjson(out)[5]})
    ck.assumptions += ["TLC bounds: see mc_runs", "set_value_at with index >= len is out of contract and not generated",
                       "byte-pattern round trip relies on scroll's Pread for constructing values"]


def c09(ck):
    quick = ck.tier == "quick"
    # 1. design level: step model with every destination call separate (also serves C10)
    ds = core.mc_or_die("DirSection", "MC_DirSection_C09", workers=4, coverage=True, timeout=900)
    util.vacuity(ck, ds, "DirSection", ["WriteTail", "WriteStream", "WriteBlob", "DirentMem", "StreamPos", "SeekSlot", "WriteSlot", "SeekBack", "Crash"])
    ck.add_mc(ds, "destination-call-level model, crash between any two calls; invariants C09_FlushedPrefixEqual, C09_QuiescentEqual, C09_NothingOutsideImage")
    mc = core.mc_or_die("MC_DirOps", "MC_DirOps" if quick else "MC_DirOps_thorough", workers=4 if quick else 8, coverage=True, timeout=1500)
    util.vacuity(ck, mc, "DirOps", ["Grow", "FlushNone", "FlushEntry"])
    ck.add_mc(mc, "API-level model: all histories of grow / flush / flush-with-entry; invariant C09")
    hists = mc["printed"].get("REPLAY", [])
    if not hists:
        raise core.ToolError("MC_DirOps exported no histories")
    inp = os.path.join(ck.work, "dirops.in")
    out = os.path.join(ck.work, "dirops.ndjson")
    core.export_lines(hists, inp)
    core.drive("dirops", out, inp=inp, seed=ck.seed, random=300 if quick else 5000)
    def describe(hist, tag):
        last = hist[-1]
        ops = [e.get("ev") + ("+entry" if e.get("entry") else "") for e in hist[1:]]
        return ({"tag": tag, "op": last.get("ev"), "entry": bool(last.get("entry"))},
                f"destination differs from the image after `{ops[-1]}` (history {ops}): observed {json.dumps(last.get('obs'))[:400]}")
    util.judge_batch(ck, "Trace_DirOps", out, "replayed TLC histories + random histories on DirSection over a recording destination (start offsets 0..65537, pre-existing content)", "DirOps", describe)
    # impl -> spec on real dumps: every write_to_file of full dumps of shaped targets, at non-zero start offsets
    from . import dumps, p_dump
    runs = dumps.run_scenarios(ck, p_dump._combo_scenarios(quick), "c09_dumps")
    devs = []
    for r in runs:
        for d in r["dumps"]:
            if d["outcome"] != "ok":
                raise core.ToolError(f"C09: dump of scenario {r['id']} did not succeed: {d.get('error')}")
            devs += dumps.dirops_events(d, r["id"])
    dout = os.path.join(ck.work, "dirops_dumps.ndjson")
    core.export_lines(devs, dout)
    util.judge_batch(ck, "Trace_DirOps", dout, "every write_to_file of real dumps (18 streams each) as DirOps actions; destination compared with the image at every flush", "DirOps", describe)
    ck.cov["distinct_nontrivial"] = len(hists) + (300 if quick else 5000) + len(runs)
    ck.cov["rule"] = "one case = one history of DirSection calls on a fresh recording destination; distinct by construction (TLC enumerates all; random ones are seeded)"
    ck.cov["exhaustive"] = True
    ck.cov["decided_by"] = {"call protocol, positions, extents, prefix lengths": "spec", "byte equality destination vs image (longest common prefix)": "comparator"}
    ck.sample({"tlc_history": hists[len(hists) // 3]})
    ck.sample({"recorded_event": core.read_ndjson(out)[4]})
