"""./check selftest: the binding is real — corrupt one recorded field of a known-good trace of several trace
specifications and require that each rejects it (and accepts the uncorrupted trace)."""
import copy
import json
import os
from . import core


def _first(evs, pred):
    return next(i for i, e in enumerate(evs) if pred(e))


def run():
    core.build_harness()
    wd = os.path.join(core.WORK, "selftest")
    os.makedirs(wd, exist_ok=True)
    failures = []

    def expect(name, spec, evs, mutate, want_viol=True):
        fn = name.replace("/", "_")
        good = os.path.join(wd, f"{fn}.good.ndjson")
        bad = os.path.join(wd, f"{fn}.bad.ndjson")
        core.export_lines(evs, good)
        v0 = core.validate_trace(spec, good)
        e2 = copy.deepcopy(evs)
        mutate(e2)
        core.export_lines(e2, bad)
        v1 = core.validate_trace(spec, bad)
        ok = (not v0["viol"]) and bool(v1["viol"] if want_viol else v1["drift"])
        print(f"selftest {name}: good trace viol={len(v0['viol'])}, corrupted trace viol={len(v1['viol'])} drift={len(v1['drift'])} -> {'ok' if ok else 'FAILED'}")
        if not ok:
            failures.append(name)

    # ImageBuilder: a returned location shifted by one
    out = os.path.join(wd, "img.ndjson")
    core.drive("imgops", out, seed=3, random=20)
    evs = core.read_ndjson(out)
    def m_img(e):
        i = _first(e, lambda x: x.get("ev") == "op" and x.get("op") == "allocval")
        e[i]["obs"]["loc_off"] += 1
    expect("ImageBuilder/location", "Trace_ImageBuilder", evs, m_img)
    def m_img2(e):
        i = _first(e, lambda x: x.get("ev") == "op" and x.get("op") == "string")
        e[i]["obs"]["hdr"] += 2
    expect("ImageBuilder/string-header", "Trace_ImageBuilder", evs, m_img2)
    # DirOps: the destination is three bytes short of the image after a flush; and a hook-less trace (a dropped call)
    out = os.path.join(wd, "dir.ndjson")
    core.drive("dirops", out, seed=3, random=30)
    evs = core.read_ndjson(out)
    def m_dir(e):
        i = _first(e, lambda x: x.get("ev") == "flush" and x["obs"]["lcp"] > 10)
        e[i]["obs"]["lcp"] -= 3
    expect("DirOps/lcp", "Trace_DirOps", evs, m_dir)
    def m_dir2(e):
        i = _first(e, lambda x: x.get("ev") == "flush" and x.get("entry") and len(x["obs"]["calls"]) >= 4)
        del e[i]["obs"]["calls"][-1]          # the seek back to the saved position is missing
    expect("DirOps/dropped-call", "Trace_DirOps", evs, m_dir2, want_viol=False)
    # MapsAggregate: two lines with a gap reported as one mapping
    out = os.path.join(wd, "agg.ndjson")
    core.drive("aggregate", out, seed=3, random=50)
    evs = core.read_ndjson(out)
    def m_agg(e):
        i = _first(e, lambda x: len(x.get("out", [])) >= 2)
        o = e[i]["out"]
        o[0]["size"] = o[1]["start"] + o[1]["size"] - o[0]["start"]
        del o[1]
    expect("MapsAggregate/merged-across", "Trace_MapsAggregate", evs, m_agg)
    # Sanitize: a defaced word reported as kept
    out = os.path.join(wd, "san.ndjson")
    core.drive("sanitize", out, seed=3, random=200)
    evs = core.read_ndjson(out)
    def m_san(e):
        i = _first(e, lambda x: "d" in x.get("out", []))
        e[i]["out"][e[i]["out"].index("d")] = "k"
    expect("Sanitize/kept-word", "Trace_Sanitize", evs, m_san)
    # MemReader: a read across the end claims the full length
    out = os.path.join(wd, "mem.ndjson")
    core.drive("memread", out, seed=3, random=300, extra=["--workdir", wd])
    evs = core.read_ndjson(out)
    def m_mem(e):
        i = _first(e, lambda x: x.get("ev") == "mem" and x.get("res") == "ok" and x["got"] < x["n"])
        e[i]["got"] = e[i]["n"]
    expect("MemReader/fabricated-length", "Trace_MemReader", evs, m_mem)
    # AuxvFile: the second instead of the first occurrence of a key was used; a truncated vector not reported
    evs = core.read_ndjson(os.path.join(core.ROOT, "spec", "selftest_auxv.ndjson"))
    def m_aux(e):
        i = _first(e, lambda x: x["obs"]["gate"] in ("a", "b"))
        e[i]["obs"]["gate"] = "b" if e[i]["obs"]["gate"] == "a" else "a"
    expect("AuxvFile/first-occurrence", "Trace_AuxvFile", evs, m_aux)
    def m_aux2(e):
        i = _first(e, lambda x: x["obs"]["softErr"])
        e[i]["obs"]["softErr"] = False
    expect("AuxvFile/truncation-reported", "Trace_AuxvFile", evs, m_aux2)
    # CpuInfo: the recorded processor count off by one; a missing-field case reported without its soft error
    evs = core.read_ndjson(os.path.join(core.ROOT, "spec", "selftest_cpuinfo.ndjson"))
    def m_cpu(e):
        i = _first(e, lambda x: not x["softErr"])
        e[i]["got"]["nproc"] += 1
    expect("CpuInfo/processor-count", "Trace_CpuInfo", evs, m_cpu)
    def m_cpu2(e):
        i = _first(e, lambda x: x["softErr"])
        e[i]["softErr"] = False
    expect("CpuInfo/soft-error", "Trace_CpuInfo", evs, m_cpu2)

    # Ptrace sequence validation: a recorded dump is accepted; the same trace with one detach (or the SIGCONT) removed is not
    def seq(evs, name):
        tf = os.path.join(wd, f"{name}.ndjson")
        core.export_lines(evs, tf)
        res = core.run_tlc("Trace_PtraceSeq", "Trace_PtraceSeq", workers=1, timeout=300, env={"TRACE": tf}, tag=name, jvm="-Xss1g -Dtlc2.tool.queue.IStateQueue=StateDeque")
        v = (res["printed"].get("VERDICT") or [{"reached": -1, "events": 0}])[-1]
        return v["reached"] == v["events"], v
    good = core.read_ndjson(os.path.join(core.SPEC, "selftest_ptrace_seq.ndjson"))
    ok0, _ = seq(good, "seq_good")
    i = _first(good, lambda x: x.get("ev") == "Detach" and x.get("t") == 3)
    ok1, v1 = seq(good[:i] + good[i + 1:], "seq_no_detach")
    j = _first(good, lambda x: x.get("ev") == "SigCont")
    ok2, v2 = seq(good[:j] + good[j + 1:], "seq_no_sigcont")
    obs = copy.deepcopy(good)
    obs[-1]["delivered"][1] = 0
    ok3, v3 = seq(obs, "seq_lost_signal")
    ok = ok0 and not ok1 and not ok2 and not ok3
    print(f"selftest PtraceSeq: recorded trace accepted={ok0}; without one detach accepted={ok1} (stops at {v1['firstUnmatched']}); without SIGCONT accepted={ok2}; with a lost signal in the observation accepted={ok3} -> {'ok' if ok else 'FAILED'}")
    if not ok:
        failures.append("PtraceSeq")
    if failures:
        print("SELFTEST FAILED:", failures)
        return 2
    print("selftest ok")
    return 0
