"""Shared machinery of /verif/check: TLC drivers, harness build, evidence, verdicts.

Exit codes of a check: 0 = property held on everything explored (possibly with KNOWN-FINDING
lines), 1 = at least one unlisted violation (a `VIOLATION property=<id> replay=<path>` line each),
2 = tool error / timeout / vacuous run (never a VIOLATION line).
"""
import fcntl
import json
import os
import re
import shutil
import subprocess
import sys
import time

ROOT = os.path.dirname(os.path.dirname(os.path.abspath(__file__)))
SPEC = os.path.join(ROOT, "spec")
HARNESS = os.path.join(ROOT, "harness")
WORK = os.path.join(ROOT, "work")
EVID = os.path.join(ROOT, "evidence")
REPLAYS = os.path.join(ROOT, "replays")
DRIVE = os.path.join(HARNESS, "target", "debug", "mdw-drive")
TARGET = os.path.join(HARNESS, "target", "debug", "mdw-target")
REPO = "/repo"
JAR = "/opt/veriftools/tla/tla2tools.jar"


class ToolError(Exception):
    pass


def log(*a):
    print(*a, flush=True)


def sh(cmd, timeout=None, env=None, cwd=None, check=True, capture=True):
    e = dict(os.environ)
    if env:
        e.update(env)
    try:
        p = subprocess.run(cmd, cwd=cwd, env=e, timeout=timeout, stdout=subprocess.PIPE if capture else None,
                           stderr=subprocess.STDOUT if capture else None, text=True, errors="replace")
    except subprocess.TimeoutExpired as ex:
        raise ToolError(f"timeout after {timeout}s: {' '.join(map(str, cmd))[:200]}") from ex
    if check and p.returncode != 0:
        raise ToolError(f"command failed ({p.returncode}): {' '.join(map(str, cmd))[:300]}\n{(p.stdout or '')[-3000:]}")
    return p


# --------------------------------------------------------------------------- harness build
def build_harness():
    """Rebuild the harness against /repo's current working tree (hooks on). Serialised by a lock."""
    os.makedirs(WORK, exist_ok=True)
    lock = open(os.path.join(WORK, ".build.lock"), "w")
    fcntl.flock(lock, fcntl.LOCK_EX)
    try:
        lockfile = os.path.join(HARNESS, "Cargo.lock")
        if not os.path.exists(lockfile):
            shutil.copy(os.path.join(REPO, "Cargo.lock"), lockfile)
        t0 = time.time()
        env = {"CARGO_NET_OFFLINE": "true"}
        p = sh(["cargo", "build", "--offline", "--bins"], cwd=HARNESS, env=env, timeout=1800, check=False)
        if p.returncode != 0:
            raise ToolError("harness build failed:\n" + p.stdout[-4000:])
        return time.time() - t0
    finally:
        fcntl.flock(lock, fcntl.LOCK_UN)
        lock.close()


# --------------------------------------------------------------------------- TLC
_replay_re = re.compile(r'^<<"(REPLAY|VERDICT|CASE)", (".*")>>\s*$')


def _tlc_cmd(module, cfg, workers, metadir, extra):
    # (TLC unpacks its standard modules into java.io.tmpdir: kept inside the run's own directory, which is removed afterwards)
    return ["java", "-XX:+UseParallelGC", "-Xmx8g", f"-Djava.io.tmpdir={metadir}", "-cp", JAR, "tlc2.TLC", "-workers", str(workers),
            "-metadir", metadir, "-cleanup", "-noGenerateSpecTE", "-config", cfg] + extra + [module]


def run_tlc(module, cfg=None, workers=4, timeout=900, env=None, coverage=False, tag=None, extra=None, jvm=None):
    """Run TLC on spec/<module>.tla with spec/<cfg>. Returns a dict with counts, printed tuples,
    the violated invariant/property (if any) and per-action coverage."""
    modpath = module if module.endswith(".tla") else os.path.join(SPEC, module + ".tla")
    cfgpath = cfg if (cfg and cfg.endswith(".cfg") and os.path.isabs(cfg)) else os.path.join(SPEC, (cfg or module) + ("" if (cfg or module).endswith(".cfg") else ".cfg"))
    tag = tag or os.path.basename(cfgpath).replace(".cfg", "")
    metadir = os.path.join(WORK, "tlc", f"{tag}.{os.getpid()}")
    os.makedirs(metadir, exist_ok=True)
    ex = list(extra or [])
    if coverage:
        ex += ["-coverage", "1"]
    e = {"JAVA_TOOL_OPTIONS": jvm or "-Xss512m"}
    if env:
        e.update(env)
    t0 = time.time()
    try:
        p = sh(_tlc_cmd(modpath, cfgpath, workers, metadir, ex), timeout=timeout, env=e, cwd=metadir, check=False)
    finally:
        shutil.rmtree(metadir, ignore_errors=True)
    out = p.stdout or ""
    res = {"module": module, "cfg": os.path.basename(cfgpath), "wall_s": round(time.time() - t0, 2), "printed": {}, "raw_tail": out[-2500:],
           "generated": 0, "distinct": 0, "depth": 0, "violated": None, "error": None, "coverage": {}, "linecov": {}, "rc": p.returncode}
    for line in out.splitlines():
        m = _replay_re.match(line)
        if m:
            try:
                res["printed"].setdefault(m.group(1), []).append(json.loads(json.loads(m.group(2))))
            except Exception as exn:  # malformed line: tool error
                res["error"] = f"cannot parse printed line: {exn}: {line[:200]}"
            continue
        m = re.match(r"^(\d+) states generated, (\d+) distinct states found", line)
        if m:
            res["generated"], res["distinct"] = int(m.group(1)), int(m.group(2))
        m = re.match(r"^The depth of the complete state graph search is (\d+)", line)
        if m:
            res["depth"] = int(m.group(1))
        m = re.match(r"^Error: Invariant (\S+) is violated", line)
        if m:
            res["violated"] = m.group(1)
        m = re.match(r"^Error: Action property (\S+) is violated", line)
        if m:
            res["violated"] = m.group(1)
        m = re.match(r"^Error: Temporal property (\S+) was violated", line)
        if m:
            res["violated"] = res["violated"] or m.group(1)
        if line.startswith("Error: Temporal properties were violated"):
            res["violated"] = res["violated"] or "temporal"
        if line.startswith("Error: The postcondition") or "Postcondition" in line and "violated" in line:
            res["violated"] = res["violated"] or "postcondition"
        m = re.match(r"^\s*\|*line (\d+), col \d+ to line (\d+), col \d+ of module (\w+): (\d+)", line)
        if m:
            for ln in range(int(m.group(1)), int(m.group(2)) + 1):
                key = f"{m.group(3)}:{ln}"
                res["linecov"][key] = max(res["linecov"].get(key, 0), int(m.group(4)))
    if res["violated"] is None and p.returncode != 0 and res["error"] is None:
        m = re.search(r"(?m)^Error: (.*)$", out)
        res["error"] = (m.group(1) if m else f"TLC exit {p.returncode}") + "\n" + out[-1500:]
    if "Parsing or semantic analysis failed" in out or "Semantic errors" in out:
        res["error"] = "parse error:\n" + out[-2000:]
    return res


def action_coverage(res, module, names):
    """Per-definition coverage from TLC's line statistics: for each definition `Name == ...` of
    spec/<module>.tla, the largest evaluation count of any line of its body."""
    src = open(os.path.join(SPEC, module + ".tla")).read().splitlines()
    starts = [(i + 1, m.group(1)) for i, l in enumerate(src) for m in [re.match(r"^(\w+)(\([^)]*\))?\s*==", l)] if m]
    out = {}
    for k, (ln, name) in enumerate(starts):
        if name not in names:
            continue
        end = starts[k + 1][0] - 1 if k + 1 < len(starts) else len(src)
        out[name] = max([res["linecov"].get(f"{module}:{x}", 0) for x in range(ln, end + 1)] or [0])
    for n in names:
        out.setdefault(n, 0)
    res["coverage"].update(out)
    return out


def mc_or_die(module, cfg=None, expect_violation=None, **kw):
    """Model-check; anything but a clean pass (or the expected violation) is a tool/model error."""
    r = run_tlc(module, cfg, **kw)
    if r["error"]:
        raise ToolError(f"TLC failed on {module}/{cfg}: {r['error']}")
    if expect_violation is None and r["violated"]:
        raise ToolError(f"design-level model {module}/{cfg} violates {r['violated']} - the model no longer satisfies the property it is meant to establish\n{r['raw_tail']}")
    if expect_violation is not None and r["violated"] != expect_violation:
        raise ToolError(f"{module}/{cfg}: expected violation of {expect_violation}, got {r['violated']}")
    return r


def validate_trace(trace_module, trace_file, cfg=None, timeout=900, env=None):
    """Feed one ndjson trace to a Trace_* specification. Returns the printed verdict dict plus TLC counts."""
    e = {"TRACE": trace_file}
    if env:
        e.update(env)
    r = run_tlc(trace_module, cfg, workers=1, timeout=timeout, env=e, tag=os.path.basename(trace_file),
                jvm="-Xss1g -Dtlc2.tool.queue.IStateQueue=StateDeque")
    if r["error"]:
        raise ToolError(f"trace validation failed ({trace_module} on {trace_file}): {r['error']}")
    verdicts = r["printed"].get("VERDICT", [])
    if not verdicts:
        raise ToolError(f"{trace_module} produced no verdict for {trace_file} (trace not consumed to the end)\n{r['raw_tail']}")
    v = verdicts[-1]
    v["_tlc"] = {"generated": r["generated"], "distinct": r["distinct"], "wall_s": r["wall_s"], "violated": r["violated"]}
    if r["violated"] == "postcondition":
        raise ToolError(f"{trace_module}: trace {trace_file} not fully consumed (postcondition)\n{r['raw_tail']}")
    return v


def export_lines(items, path):
    with open(path, "w") as f:
        for it in items:
            f.write(json.dumps(it, separators=(",", ":")) + "\n")


def read_ndjson(path):
    with open(path) as f:
        return [json.loads(l) for l in f if l.strip()]


def drive(sub, out, inp=None, seed=1, random=0, extra=None, timeout=1800):
    cmd = [DRIVE, sub, "--out", out, "--seed", str(seed)]
    if inp:
        cmd += ["--in", inp]
    if random:
        cmd += ["--random", str(random)]
    cmd += list(extra or [])
    p = sh(cmd, timeout=timeout, check=False)
    if p.returncode != 0:
        raise ToolError(f"mdw-drive {sub} failed ({p.returncode}):\n{(p.stdout or '')[-3000:]}")
    return p.stdout


# --------------------------------------------------------------------------- known findings / verdict
def load_known():
    p = os.path.join(ROOT, "known_findings.json")
    if not os.path.exists(p):
        return []
    return json.load(open(p)).get("findings", [])


def sig_matches(entry_sig, sig):
    return all(sig.get(k) == v for k, v in entry_sig.items())


class Check:
    """Accumulates what one check run covered, its violations, and writes the evidence file."""

    def __init__(self, prop, tier, seed, level="model_checking"):
        self.prop, self.tier, self.seed, self.level = prop, tier, seed, level
        self.t0 = time.time()
        self.work = os.path.join(WORK, prop)
        shutil.rmtree(self.work, ignore_errors=True)
        os.makedirs(self.work, exist_ok=True)
        self.cov = {"states": 0, "transitions": 0, "traces_validated_against_impl": 0, "samples": [],
                    "evaluations": 0, "distinct_nontrivial": 0, "rule": "", "mc_runs": [], "trace_runs": [],
                    "model_conformance": True, "decided_by": {}, "exhaustive": False}
        self.assumptions = []
        self.violations = []      # (signature dict, description, replay object)
        self.known_hits = []
        self.drifts = []

    # -- coverage bookkeeping
    def add_mc(self, r, what):
        self.cov["states"] += r["distinct"]
        self.cov["transitions"] += r["generated"]
        self.cov["mc_runs"].append({"module": r["module"], "cfg": r["cfg"], "what": what, "distinct_states": r["distinct"],
                                    "states_generated": r["generated"], "depth": r["depth"], "wall_s": r["wall_s"],
                                    "violated": r["violated"],
                                    "action_counts": dict(r["coverage"])})

    def add_trace_run(self, module, verdict, traces, what):
        self.cov["traces_validated_against_impl"] += traces
        self.cov["evaluations"] += verdict.get("checked", verdict.get("events", 0))
        self.cov["trace_runs"].append({"trace_spec": module, "what": what, "traces": traces, "events": verdict.get("events"),
                                       "checked": verdict.get("checked"), "viol": len(verdict.get("viol", [])),
                                       "drift": len(verdict.get("drift", [])), "tlc": verdict.get("_tlc")})

    def sample(self, s):
        if len(self.cov["samples"]) < 8:
            self.cov["samples"].append(s)

    # -- verdicts
    def violation(self, sig, desc, replay):
        self.violations.append((sig, desc, replay))

    def drift(self, desc):
        self.drifts.append(desc)
        self.cov["model_conformance"] = False

    def finish(self):
        os.makedirs(EVID, exist_ok=True)
        known = [k for k in load_known() if k.get("property") == self.prop and k.get("status") == "known"]
        unlisted = []
        rdir = os.path.join(REPLAYS, self.prop)
        for sig, desc, replay in self.violations:
            hit = next((k for k in known if sig_matches(k.get("signature", {}), sig)), None)
            if hit is not None:
                self.known_hits.append((hit, desc))
            else:
                unlisted.append((sig, desc, replay))
        lines = []
        seen_known = set()
        for hit, desc in self.known_hits:
            key = json.dumps(hit.get("signature", {}), sort_keys=True)
            if key in seen_known:
                continue
            seen_known.add(key)
            lines.append(f"KNOWN-FINDING: property={self.prop} {hit.get('what', desc)}")
        if unlisted:
            shutil.rmtree(rdir, ignore_errors=True)
            os.makedirs(rdir, exist_ok=True)
        seen = set()
        n = 0
        for sig, desc, replay in unlisted:
            key = json.dumps(sig, sort_keys=True)
            if key in seen or n >= 8:
                continue
            seen.add(key)
            n += 1
            path = os.path.join(rdir, f"{n}.json")
            json.dump({"property": self.prop, "signature": sig, "what": desc, "replay": replay}, open(path, "w"), indent=1)
            lines.append(f"VIOLATION property={self.prop} replay={path}")
            lines.append(f"  {desc}")
        for d in self.drifts[:3]:
            lines.append(f"MODEL-DRIFT property={self.prop} {d}")
        cov = self.cov
        if not cov["distinct_nontrivial"]:
            cov["distinct_nontrivial"] = cov["evaluations"]
        if not cov["samples"]:
            cov["samples"] = ["(no sample recorded)"]
        ev = {"property_id": self.prop, "tier": self.tier, "seed": self.seed, "level": self.level, "coverage": cov,
              "assumptions": self.assumptions, "wall_s": round(time.time() - self.t0, 2),
              "violations": len(unlisted), "known_findings_hit": len(seen_known), "model_drift": len(self.drifts)}
        json.dump(ev, open(os.path.join(EVID, f"{self.prop}.json"), "w"), indent=1)
        for ln in lines:
            log(ln)
        log(f"[{self.prop}] tier={self.tier} seed={self.seed} states={cov['states']} traces={cov['traces_validated_against_impl']} "
            f"evaluations={cov['evaluations']} violations={len(unlisted)} known={len(seen_known)} drift={len(self.drifts)} "
            f"wall={ev['wall_s']}s")
        return 1 if unlisted else 0
