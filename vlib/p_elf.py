"""C14: ELF identification."""
import json
import os
from . import core, util


def c14(ck):
    quick = ck.tier == "quick"
    mc = util.mc_design(ck, "MC_ElfReader", "MC_ElfReader", "every abstract ELF (presence / readability of each table and range the reader follows, terminated or unterminated dynamic array, identity or shifted virtual addresses, 64- and 32-bit) through the strategy steps; invariants Total, StepsAreFunction, SonameIsTheImages", workers=4, coverage=True, timeout=900)
    util.vacuity(ck, mc, "ElfReader", ["TryPhNote", "TrySecNote", "TryText", "TryPhSoname", "TrySecSoname"])
    exp = core.run_tlc("MC_ElfReader", "MC_ElfReader_export", workers=4, timeout=900)
    cases = exp["printed"].get("REPLAY", [])
    if not cases:
        raise core.ToolError("MC_ElfReader exported no cases")
    inp = os.path.join(ck.work, "elf.in")
    out = os.path.join(ck.work, "elf.ndjson")
    core.export_lines([cases], inp)
    core.drive("elf", out, inp=inp, seed=ck.seed, random=150 if quick else 4000, extra=["--workdir", ck.work, "--sysfiles", "200" if quick else "5000"], timeout=3000)

    def describe(hist, tag):
        e = hist[-1]
        if e["ev"] == "fuzz":
            return ({"tag": tag, "site": "soname" if e["so"] == "panic" else "build-id"}, f"reader panicked on a {e['kind']} case: {e['what']} (build id: {e['bid']}, soname: {e['so']})")
        return ({"tag": tag}, f"{tag}: {json.dumps(e)[:400]}")
    v = util.judge_parallel(ck, "Trace_ElfReader", out, "BuildId / SoName readers on generated images for every model path (slice and file), every header field at boundary values (64- and 32-bit), field pairs/triples, random bytes and byte flips, the machine's ELF files vs the independent reader, live mappings memory vs file",
                            "ElfReader", describe, jobs=4)
    c = v["counts"]
    # (the driver stops early once three readers have failed to return: then the violations are the result)
    if (c["elf"] == 0 or c["fuzz"] == 0 or c["sys"] == 0 or c["live"] == 0) and not ck.violations:
        raise core.ToolError(f"vacuous: {c}")
    ck.cov["distinct_nontrivial"] = c["elf"] + c["fuzz"] + c["sys"] + c["live"]
    ck.cov["traces_validated_against_impl"] = v["checked"]
    ck.cov["by_kind"] = c
    ck.cov["rule"] = "one case = one input image (or file / live mapping) given to both readers; generated cases are distinct by construction (model path, or field x value), random ones seeded"
    ck.cov["decided_by"] = {"strategy order and outcome per abstract image, totality verdicts": "spec", "independent build-id / SONAME values": "harness ELF reader (elfgen.rs)",
                            "random bytes / byte flips": "fuzzing with TLC as a trivial judge (outcome is not a panic)"}
    ck.sample({"model_case": cases[len(cases) // 2]})
    ck.assumptions += ["little-endian images; the independent reader follows the same three-strategy definition of the build id that the statement gives"]
