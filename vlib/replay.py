"""./check <Cxx> --replay <file>: re-validate the recorded history of a violation through its trace specification
(or re-run TLC for a design-level counterexample)."""
import json
import os
from . import core


def run(prop, path):
    r = json.load(open(path))
    print(f"replay of {path}: property {r.get('property')} signature {r.get('signature')}")
    print("  " + r.get("what", ""))
    rep = r.get("replay", {})
    if "tlc" in rep:
        t = rep["tlc"]
        res = core.run_tlc(t["module"], t["cfg"], workers=4, timeout=1500)
        print(f"  TLC on {t['module']} / {t['cfg']}: violated = {res['violated']} ({res['distinct']} distinct states)")
        return 1 if res["violated"] else 0
    if "history" in rep and "trace_spec" in rep:
        os.makedirs(os.path.join(core.WORK, "replay"), exist_ok=True)
        tf = os.path.join(core.WORK, "replay", f"{prop}.ndjson")
        core.export_lines(rep["history"], tf)
        v = core.validate_trace(rep["trace_spec"], tf)
        print(f"  {rep['trace_spec']} on the recorded history ({len(rep['history'])} events): viol = {v.get('viol')} drift = {v.get('drift')}")
        print("  (the history holds what the code did when the violation was recorded; to see whether the current tree still does it, run the check)")
        return 1 if v.get("viol") else 0
    print("  nothing replayable in this file")
    return 2
