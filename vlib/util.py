"""Helpers shared by the per-property pipelines."""
import json
import os
from . import core


def history_of(events, line):
    """The events of the trace (1-based line number `line`) back to the preceding reset."""
    i = line - 1
    j = i
    while j > 0 and events[j].get("ev") != "reset":
        j -= 1
    return events[j:i + 1]


def judge_batch(ck, trace_module, trace_file, what, module_name, describe, cfg=None, traces=None, max_report=40):
    """Validate one ndjson batch; turn the verdict's viol/drift lists into violations/drifts."""
    v = core.validate_trace(trace_module, trace_file, cfg=cfg)
    events = None
    ntr = traces
    if ntr is None:
        events = core.read_ndjson(trace_file)
        ntr = sum(1 for e in events if e.get("ev") == "reset")
    ck.add_trace_run(trace_module, v, ntr, what)
    if v.get("viol") or v.get("drift"):
        events = events or core.read_ndjson(trace_file)
    for (line, tag) in v.get("viol", [])[:max_report]:
        hist = history_of(events, line)
        sig, desc = describe(hist, tag)
        sig = dict(sig, module=module_name)
        ck.violation(sig, desc, {"trace_spec": trace_module, "tag": tag, "history": hist})
    for (line, tag) in v.get("drift", [])[:10]:
        hist = history_of(events, line)
        ck.drift(f"{trace_module}: event {line} ({tag}) deviates from the model's prediction: {json.dumps(hist[-1])[:300]}")
    return v


def vacuity(ck, mc, module, must_take):
    """Every listed action must have been taken in the MC run (else the run proves nothing)."""
    cov = core.action_coverage(mc, module, must_take)
    missing = [a for a in must_take if cov.get(a, 0) == 0]
    if missing:
        raise core.ToolError(f"vacuous model-checking run of {mc['module']}: actions never taken: {missing}")
