"""Helpers shared by the per-property pipelines."""
import json
import os
from . import core


def history_of(events, line):
    """The events of the trace (1-based line number `line`) back to the preceding reset."""
    i = line - 1
    j = i
    while j > 0 and events[j].get("ev") != "reset":
        j -= 1
    return events[j:i + 1]


def judge_batch(ck, trace_module, trace_file, what, module_name, describe, cfg=None, traces=None, max_report=40):
    """Validate one ndjson batch; turn the verdict's viol/drift lists into violations/drifts."""
    v = core.validate_trace(trace_module, trace_file, cfg=cfg)
    events = None
    ntr = traces
    if ntr is None:
        events = core.read_ndjson(trace_file)
        ntr = sum(1 for e in events if e.get("ev") == "reset")
    ck.add_trace_run(trace_module, v, ntr, what)
    if v.get("viol") or v.get("drift"):
        events = events or core.read_ndjson(trace_file)
    for (line, tag) in v.get("viol", [])[:max_report]:
        hist = history_of(events, line)
        sig, desc = describe(hist, tag)
        sig = dict(sig, module=module_name)
        ck.violation(sig, desc, {"trace_spec": trace_module, "tag": tag, "history": hist})
    for (line, tag) in v.get("drift", [])[:10]:
        hist = history_of(events, line)
        ck.drift(f"{trace_module}: event {line} ({tag}) deviates from the model's prediction: {json.dumps(hist[-1])[:300]}")
    return v


def vacuity(ck, mc, module, must_take):
    """Every listed action must have been taken in the MC run (else the run proves nothing)."""
    cov = core.action_coverage(mc, module, must_take)
    missing = [a for a in must_take if cov.get(a, 0) == 0]
    if missing:
        raise core.ToolError(f"vacuous model-checking run of {mc['module']}: actions never taken: {missing}")


def split_trace(path, nchunks, boundary=lambda e: e.get("ev") in ("reset", "case", "scenario")):
    """Split an ndjson batch into <= nchunks files at trace boundaries. Returns the chunk paths."""
    lines = open(path).read().splitlines()
    if nchunks <= 1 or len(lines) < 2000:
        return [path]
    target = len(lines) // nchunks + 1
    chunks, cur = [], []
    for ln in lines:
        if len(cur) >= target and boundary(json.loads(ln)):
            chunks.append(cur)
            cur = []
        cur.append(ln)
    if cur:
        chunks.append(cur)
    out = []
    for i, c in enumerate(chunks):
        cp = f"{path}.part{i}"
        open(cp, "w").write("\n".join(c) + "\n")
        out.append(cp)
    return out


def judge_parallel(ck, trace_module, trace_file, what, module_name, describe, cfg=None, jobs=6, traces=None):
    """judge_batch over chunks of one big batch, validated by concurrent TLC processes."""
    from concurrent.futures import ThreadPoolExecutor
    parts = split_trace(trace_file, jobs)
    if len(parts) == 1:
        return judge_batch(ck, trace_module, trace_file, what, module_name, describe, cfg=cfg, traces=traces)
    with ThreadPoolExecutor(max_workers=jobs) as ex:
        verdicts = list(ex.map(lambda p: core.validate_trace(trace_module, p, cfg=cfg), parts))
    total = {"events": 0, "checked": 0, "viol": [], "drift": [], "_tlc": {"generated": 0, "distinct": 0, "wall_s": 0}}
    for part, v in zip(parts, verdicts):
        events = None
        total["events"] += v.get("events", 0)
        total["checked"] += v.get("checked", 0)
        for k in ("generated", "distinct"):
            total["_tlc"][k] += v["_tlc"][k]
        total["_tlc"]["wall_s"] = max(total["_tlc"]["wall_s"], v["_tlc"]["wall_s"])
        if v.get("viol") or v.get("drift"):
            events = core.read_ndjson(part)
        for (line, tag) in v.get("viol", [])[:40]:
            hist = history_of(events, line)
            sig, desc = describe(hist, tag)
            ck.violation(dict(sig, module=module_name), desc, {"trace_spec": trace_module, "tag": tag, "history": hist})
            total["viol"].append([line, tag])
        for (line, tag) in v.get("drift", [])[:10]:
            hist = history_of(events, line)
            ck.drift(f"{trace_module}: event {line} ({tag}) deviates from the model's prediction: {json.dumps(hist[-1])[:300]}")
            total["drift"].append([line, tag])
        for k in v:
            if k not in total and isinstance(v[k], int):
                total[k] = total.get(k, 0) + v[k]
    ntr = traces if traces is not None else total["events"]
    ck.add_trace_run(trace_module, total, ntr, what + f" ({len(parts)} parallel TLC runs)")
    for p in parts:
        os.remove(p)
    return total


def mc_design(ck, module, cfg, what, workers=4, timeout=1500, coverage=False, extra=None):
    """Model-check a design-level model that mirrors the current tree.  A violated invariant is a
    design-level counterexample of the property (reported as a violation with the TLC trace), any
    other failure is a tool error."""
    r = core.run_tlc(module, cfg, workers=workers, timeout=timeout, coverage=coverage, extra=extra)
    if r["error"]:
        raise core.ToolError(f"TLC failed on {module}/{cfg}: {r['error']}")
    ck.add_mc(r, what)
    if r["violated"]:
        tail = [l for l in r["raw_tail"].splitlines() if l.startswith("State ") or l.startswith("/\\ pc")]
        ck.violation({"module": module.replace("MC_", ""), "tag": "design:" + r["violated"], "cfg": cfg},
                     f"the TLA+ model of the current tree ({module}, {cfg}) violates {r['violated']}: counterexample of {r['depth'] or len(tail)} states",
                     {"tlc": {"module": module, "cfg": cfg}, "counterexample_tail": r["raw_tail"][-1800:]})
    return r


def apalache_inductive(ck, module, what, indinv="IndInv", props=(), timeout=900, obligations=None, cinit="ConstInit"):
    """Unbounded check of a small model with Apalache: Init => IndInv (length 0), IndInv /\\ Next => IndInv' (length 1 from
    IndInit), IndInv => each property (length 0 from IndInit).  A failed obligation is a design-level counterexample (the model
    mirrors the tree), anything else a tool error."""
    import shutil
    import subprocess
    import time
    path = os.path.join(core.SPEC, "ap", module + ".tla")
    out = os.path.join(core.WORK, "apalache", f"{module}.{os.getpid()}")
    # `obligations` (a list of (Init predicate, invariant, length)) replaces the inductive scheme, e.g. for a one-step function
    obligations = obligations or ([("Init", indinv, 0), ("IndInit", indinv, 1)] + [("IndInit", p, 0) for p in props])
    t0 = time.time()
    res = []
    os.makedirs(out, exist_ok=True)
    try:
        for init, inv, length in obligations:
            p = subprocess.run(["timeout", str(timeout), "apalache-mc", "check", f"--cinit={cinit}", f"--init={init}", f"--inv={inv}", f"--length={length}", f"--out-dir={out}", path],
                               stdout=subprocess.PIPE, stderr=subprocess.STDOUT, text=True, cwd=os.path.dirname(path),
                               env=dict(os.environ, JAVA_IO_TMPDIR=out, TMPDIR=out))   # (SANY's temporary copies stay in the run's directory)
            o = p.stdout or ""
            if "The outcome is: NoError" in o and p.returncode == 0:
                res.append({"init": init, "inv": inv, "length": length, "outcome": "NoError"})
            elif "The outcome is: Error" in o:
                res.append({"init": init, "inv": inv, "length": length, "outcome": "Error"})
                ck.violation({"module": module, "tag": f"design:{inv}", "cfg": f"apalache {init} length {length}"},
                             f"Apalache refutes the obligation {init} => {inv} (length {length}) of {module}: the model of the current tree does not keep {inv}",
                             {"apalache": {"module": module, "init": init, "inv": inv, "length": length}, "output_tail": o[-1500:]})
            else:
                raise core.ToolError(f"apalache-mc failed on {module} ({init}, {inv}, {length}): rc={p.returncode}\n{o[-1500:]}")
    finally:
        shutil.rmtree(out, ignore_errors=True)
    ck.cov.setdefault("apalache_runs", []).append({"module": module, "what": what, "obligations": res, "wall_s": round(time.time() - t0, 2)})
    return res
