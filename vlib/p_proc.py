"""C18: OS and process information streams."""
import json
import os
from . import core, util, dumps
from . import threads as th


def _cpuinfo():
    fam = mod = step = None
    vendor = ""
    nproc = 0
    last = -1
    for l in open("/proc/cpuinfo"):
        if ":" not in l:
            continue
        k, v = [x.strip() for x in l.split(":", 1)]
        if k == "processor":
            last = int(v)
        elif k == "cpu family" and fam is None:
            fam = int(v)
        elif k == "model" and mod is None:
            mod = int(v)
        elif k == "stepping" and step is None:
            step = int(v)
        elif k == "vendor_id" and v:
            vendor = v
    return {"level": fam, "revision": ((mod << 8) | step) & 0xffff, "nproc": (last + 1) & 0xff, "vendor": vendor[:12]}


def events(run, d):
    if d.get("outcome") != "ok":
        return [{"ev": "failed", "origin": run["id"]}]
    evs = []
    o = d["oracle"]
    st = d["streams"]
    for name in ("cmdline", "environ", "auxv", "limits", "maps"):
        r = o["raw"][name]
        evs.append({"ev": "raw", "origin": run["id"], "name": name, "present": bool(r.get("present")), "len": r.get("len", -1), "fileLen": r.get("file_len", -2), "mismatch": r.get("mismatch", 0)})
    # memory info vs maps lines (addresses as ranks of the line boundaries)
    maps = th.parse_maps(o["maps"])
    addrs = sorted({m["s"] for m in maps} | {m["e"] for m in maps})
    rank = {a: i + 1 for i, a in enumerate(addrs)}
    lines = [{"s": rank[m["s"]], "e": rank[m["e"]], "r": m["perms"][0] == "r", "w": m["perms"][1] == "w", "x": m["perms"][2] == "x", "p": m["perms"][3] == "p",
              "plain": not (m["perms"][1] == "w" and m["perms"][0] != "r")} for m in maps]
    mi = st.get("meminfo", {})
    ents = []
    for e in mi.get("entries", []):
        b, z = e["base"], e["size"]
        ents.append({"base": rank.get(b, 900000), "size": rank.get(b + z, 900001) - rank.get(b, 900000), "prot": e["prot"], "type": e["type"], "state": e["state"],
                     "allocBase": rank.get(e["alloc_base"], 900002), "allocProt": e["alloc_prot"]})
    evs.append({"ev": "meminfo", "origin": run["id"], "lines": lines, "entries": ents, "sizeOk": bool(mi.get("size_ok"))})
    # handles
    hd = st.get("handles", {})
    evs.append({"ev": "handles", "origin": run["id"], "present": "handles" in st, "sizeOk": bool(hd.get("size_ok")),
                "fds": [{"fd": f["fd"], "link": f["link"] or "", "mode": f["mode"] or 0} for f in o["fds"] if f["link"] is not None and f["mode"] is not None],
                "descs": [{"fd": h["handle"], "name": h.get("name", ""), "attr": h["attributes"]} for h in hd.get("handles", [])]})
    # system info
    si = st.get("sysinfo", {})
    u = os.uname()
    want = dict(_cpuinfo(), platform=0x8201, arch=9, csd=f"{u.sysname} {u.release} {u.version} {u.machine}")
    got = {"level": si.get("level"), "revision": si.get("revision"), "nproc": si.get("nproc"), "vendor": (si.get("vendor") or "").rstrip("\x00"), "platform": si.get("platform"),
           "arch": si.get("arch"), "csd": si.get("csd")}
    evs.append({"ev": "sysinfo", "origin": run["id"], "got": got, "want": want})
    # linker debug list
    lc = run["report"].get("linker_chain")
    da = d["writer"].get("direct_auxv") or {}
    ds = st.get("dsodebug")
    direct = {"phnum": 1 if da.get("phnum") else 0, "phdr": 1 if da.get("phdr") else 0, "gate": 1 if da.get("gate") else 0, "entry": 1 if da.get("entry") else 0}
    proc = {"phnum": 1, "phdr": 1, "gate": 1, "entry": 1}
    if lc and da.get("phdr") == lc["phdr"]:
        want = [[e["addr"], bytes.fromhex(e["name_hex"]).decode("utf-8", "replace"), e["ld"]] for e in lc["entries"]]
        got = [[m["addr"], m.get("name", ""), m["ld"]] for m in (ds or {}).get("link_maps", [])]
        expect = not run["scn"]["target"]["linker_chain"].get("no_debug")
        evs.append({"ev": "dso", "origin": run["id"], "direct": direct, "proc": proc, "expectStream": expect, "present": ds is not None, "got": got, "want": want,
                    "brkOk": ds is not None and ds["brk"] == lc["brk"] and ds["ldbase"] == lc["ldbase"] and ds["dynamic"] == lc["dynamic"],
                    "countOk": ds is not None and ds["count"] == len(want), "usedDirect": ds is None or ds["dynamic"] == lc["dynamic"]})
    else:
        # the kernel's auxv leads to the real linker list: every named object must be a mapped file of the target
        # every object of the list must be a mapped file of the target loaded at the recorded address
        base_of = {}
        for m in maps:
            if m["name"]:
                base_of[m["name"]] = min(base_of.get(m["name"], m["s"]), m["s"])
        exe = run["report"].get("exe") or os.path.realpath(core.TARGET)
        ok = ds is not None and ds["count"] == len(ds["link_maps"]) and ds["count"] >= 1
        for m in (ds or {}).get("link_maps", []):
            n = m.get("name", "")
            key = exe if n == "" else ("[vdso]" if n.startswith("linux-vdso") else os.path.realpath(n))
            ok = ok and base_of.get(key) == m["addr"]
        evs.append({"ev": "dso", "origin": run["id"], "direct": direct, "proc": proc, "expectStream": True, "present": ds is not None, "got": [ok], "want": [True],
                    "brkOk": True, "countOk": True, "usedDirect": False if not da.get("phdr") else True})
    return evs


def _scenarios(quick, seed):
    import random
    rnd = random.Random(seed)
    scns = []
    for k in range(10 if quick else 200):
        tgt = dumps.base_target(rnd.randrange(0, 4), regions=[{"name": f"r{j}", "len": 4096 * rnd.randrange(1, 4), "exec": rnd.random() < 0.4, "above": rnd.choice(["guard", "hole", "mapped"])} for j in range(rnd.randrange(0, 4))],
                                pipes=rnd.randrange(0, 4), sockets=rnd.randrange(0, 3))
        tgt["argv"] = [rnd.choice(["", "plain", "with space", "ünï", "x" * 300, "--flag=1"]) for _ in range(rnd.randrange(0, 5))]
        tgt["env"] = {f"MDW_VAR{j}": rnd.choice(["", "v", "a=b=c", "línea\tx", "y" * 500]) for j in range(rnd.randrange(0, 4))}
        tgt["open_files"] = [f"/tmp/mdw_c18_{os.getpid()}_{k}_{j} näme" for j in range(rnd.randrange(0, 3))]
        w = {"blamed": "main"}
        mode = k % 4
        if mode == 0:
            tgt["linker_chain"] = {"names": ["", "/lib/libalpha.so.1", "/opt/ü/libβ.so", "libgamma.so"][: rnd.randrange(1, 5)]}
            w["direct_auxv"] = "linker_chain"
        elif mode == 1:
            tgt["linker_chain"] = {"names": ["/only.so"]}
            w["direct_auxv"] = {"entry": "0x1234"}             # PHDR / PHNUM are not supplied: they come from /proc/<pid>/auxv (the real program)
        elif mode == 2:
            tgt["linker_chain"] = {"names": []}
            w["direct_auxv"] = "linker_chain"
        scns.append({"id": f"proc/{k}", "target": tgt, "writer": w, "cleanup": tgt["open_files"]})
    return scns


def c18(ck):
    quick = ck.tier == "quick"
    mc = core.mc_or_die("ProcStreams", "MC_ProcStreams", workers=4, coverage=True, timeout=900)
    util.vacuity(ck, mc, "ProcStreams", ["AuxvResolve", "MemInfo", "Handles", "DsoWalk"])
    ck.add_mc(mc, "auxv resolution for every direct/proc combination of the four fields, memory-info list for every list of <= 2 lines over all 16 permission sets, handle sets, linker chain lengths with/without DT_DEBUG; invariants DirectFirst, OneEntryPerLine, HandlesBijective")
    scns = _scenarios(quick, ck.seed)
    try:
        runs = dumps.run_scenarios(ck, scns, "c18")
    finally:
        for s in scns:
            for f in s.get("cleanup", []):
                if os.path.exists(f):
                    os.remove(f)
    evs = [e for r in runs for d in r["dumps"] for e in events(r, d)]
    evs += [{"ev": "failed", "origin": r["id"]} for r in runs if not r["dumps"]]
    out = os.path.join(ck.work, "c18.ndjson")
    core.export_lines(evs, out)

    def describe(hist, tag):
        e = hist[-1]
        brief = {k: v for k, v in e.items() if k not in ("lines", "entries")}
        return ({"tag": tag}, f"{tag} in {e.get('origin')}: {json.dumps(brief)[:600]}")
    v = util.judge_batch(ck, "Trace_ProcStreams", out, "raw Linux streams, memory-info list, handle stream, system information and linker debug stream of dumps of targets with generated argv/environment/descriptors/mappings/linker chains vs /proc read by the harness",
                         "ProcStreams", describe, traces=len(evs))
    c = v["counts"]
    if min(c.values()) == 0:
        raise core.ToolError(f"vacuous: {c}")
    ck.cov["distinct_nontrivial"] = v["checked"]
    ck.cov["by_kind"] = c
    ck.cov["rule"] = "one case = one stream of one dump of a generated target; seeded"
    ck.cov["decided_by"] = {"memory-info table, handle bijection, system-info fields, linker list, auxv precedence": "spec",
                            "raw copies (cmdline, environ, auxv, limits, maps): byte comparison": "comparator (translation-validation-like: TLC only judges the comparator's result)"}
    ck.sample({"handles": next(e for e in evs if e["ev"] == "handles")})
    ck.assumptions += ["/proc files of a blocked target are stable between the dump and the oracle read (status and cpuinfo are not compared: they change)",
                       "number_of_processors is a u8 in the format (16 cores here)"]
    return runs
