"""C18: OS and process information streams."""
import json
import os
from . import core, util, dumps
from . import threads as th


def _cpuinfo():
    fam = mod = step = None
    vendor = ""
    nproc = 0
    last = -1
    for l in open("/proc/cpuinfo"):
        if ":" not in l:
            continue
        k, v = [x.strip() for x in l.split(":", 1)]
        if k == "processor":
            last = int(v)
        elif k == "cpu family" and fam is None:
            fam = int(v)
        elif k == "model" and mod is None:
            mod = int(v)
        elif k == "stepping" and step is None:
            step = int(v)
        elif k == "vendor_id" and v:
            vendor = v
    return {"level": fam, "revision": ((mod << 8) | step) & 0xffff, "nproc": (last + 1) & 0xff, "vendor": vendor[:12]}


def events(run, d):
    if d.get("outcome") != "ok":
        return [{"ev": "failed", "origin": run["id"], "outcome": d.get("outcome", "none"), "error": d.get("error", "")[:300]}]
    evs = []
    o = d["oracle"]
    st = d["streams"]
    for name in ("cmdline", "environ", "auxv", "limits", "maps"):
        r = o["raw"][name]
        evs.append({"ev": "raw", "origin": run["id"], "name": name, "present": bool(r.get("present")), "len": r.get("len", -1), "fileLen": r.get("file_len", -2), "mismatch": r.get("mismatch", 0)})
    # memory info vs maps lines (addresses as ranks of the line boundaries)
    maps = th.parse_maps(o["maps"])
    addrs = sorted({m["s"] for m in maps} | {m["e"] for m in maps})
    rank = {a: i + 1 for i, a in enumerate(addrs)}
    lines = [{"s": rank[m["s"]], "e": rank[m["e"]], "r": m["perms"][0] == "r", "w": m["perms"][1] == "w", "x": m["perms"][2] == "x", "p": m["perms"][3] == "p",
              "plain": not (m["perms"][1] == "w" and m["perms"][0] != "r")} for m in maps]
    mi = st.get("meminfo", {})
    ents = []
    for e in mi.get("entries", []):
        b, z = e["base"], e["size"]
        ents.append({"base": rank.get(b, 900000), "size": rank.get(b + z, 900001) - rank.get(b, 900000), "prot": e["prot"], "type": e["type"], "state": e["state"],
                     "allocBase": rank.get(e["alloc_base"], 900002), "allocProt": e["alloc_prot"]})
    evs.append({"ev": "meminfo", "origin": run["id"], "lines": lines, "entries": ents, "sizeOk": bool(mi.get("size_ok"))})
    # handles
    hd = st.get("handles", {})
    evs.append({"ev": "handles", "origin": run["id"], "present": "handles" in st, "sizeOk": bool(hd.get("size_ok")),
                "fds": [{"fd": f["fd"], "link": f["link"] or "", "mode": f["mode"] or 0} for f in o["fds"] if f["link"] is not None and f["mode"] is not None],
                "descs": [{"fd": h["handle"], "name": h.get("name", ""), "attr": h["attributes"]} for h in hd.get("handles", [])]})
    # system info
    si = st.get("sysinfo", {})
    u = os.uname()
    want = dict(_cpuinfo(), platform=0x8201, arch=9, csd=f"{u.sysname} {u.release} {u.version} {u.machine}")
    got = {"level": si.get("level"), "revision": si.get("revision"), "nproc": si.get("nproc"), "vendor": (si.get("vendor") or "").rstrip("\x00"), "platform": si.get("platform"),
           "arch": si.get("arch"), "csd": si.get("csd")}
    evs.append({"ev": "sysinfo", "origin": run["id"], "got": got, "want": want})
    # linker debug list
    lc = run["report"].get("linker_chain")
    da = d["writer"].get("direct_auxv") or {}
    ds = st.get("dsodebug")
    direct = {"phnum": 1 if da.get("phnum") else 0, "phdr": 1 if da.get("phdr") else 0, "gate": 1 if da.get("gate") else 0, "entry": 1 if da.get("entry") else 0}
    proc = {"phnum": 1, "phdr": 1, "gate": 1, "entry": 1}
    if lc and da.get("phdr") == lc["phdr"]:
        want = [[e["addr"], bytes.fromhex(e["name_hex"]).decode("utf-8", "replace"), e["ld"]] for e in lc["entries"]]
        got = [[m["addr"], m.get("name", ""), m["ld"]] for m in (ds or {}).get("link_maps", [])]
        expect = not run["scn"]["target"]["linker_chain"].get("no_debug")
        evs.append({"ev": "dso", "origin": run["id"], "direct": direct, "proc": proc, "expectStream": expect, "present": ds is not None, "got": got, "want": want,
                    "brkOk": ds is not None and ds["brk"] == lc["brk"] and ds["ldbase"] == lc["ldbase"] and ds["dynamic"] == lc["dynamic"],
                    "countOk": ds is not None and ds["count"] == len(want), "usedDirect": ds is None or ds["dynamic"] == lc["dynamic"]})
    else:
        # the kernel's auxv leads to the real linker list: every named object must be a mapped file of the target
        # every object of the list must be a mapped file of the target loaded at the recorded address
        base_of = {}
        for m in maps:
            if m["name"]:
                base_of[m["name"]] = min(base_of.get(m["name"], m["s"]), m["s"])
        exe = run["report"].get("exe") or os.path.realpath(core.TARGET)
        ok = ds is not None and ds["count"] == len(ds["link_maps"]) and ds["count"] >= 1
        for m in (ds or {}).get("link_maps", []):
            n = m.get("name", "")
            key = exe if n == "" else ("[vdso]" if n.startswith("linux-vdso") else os.path.realpath(n))
            ok = ok and base_of.get(key) == m["addr"]
        evs.append({"ev": "dso", "origin": run["id"], "direct": direct, "proc": proc, "expectStream": True, "present": ds is not None, "got": [ok], "want": [True],
                    "brkOk": True, "countOk": True, "usedDirect": False if not da.get("phdr") else True})
    return evs


def _scenarios(quick, seed, workdir="/tmp"):
    import random
    rnd = random.Random(seed)
    scns = []
    for k in range(10 if quick else 200):
        tgt = dumps.base_target(rnd.randrange(0, 4), regions=[{"name": f"r{j}", "len": 4096 * rnd.randrange(1, 4), "exec": rnd.random() < 0.4, "above": rnd.choice(["guard", "hole", "mapped"])} for j in range(rnd.randrange(0, 4))],
                                pipes=rnd.randrange(0, 4), sockets=rnd.randrange(0, 3))
        tgt["argv"] = [rnd.choice(["", "plain", "with space", "ünï", "x" * 300, "--flag=1"]) for _ in range(rnd.randrange(0, 5))]
        tgt["env"] = {f"MDW_VAR{j}": rnd.choice(["", "v", "a=b=c", "línea\tx", "y" * 500]) for j in range(rnd.randrange(0, 4))}
        if k % 5 == 4:
            tgt["env_clear"], tgt["env"] = True, {}            # an empty /proc/<pid>/environ
        tgt["open_files"] = [f"/tmp/mdw_c18_{os.getpid()}_{k}_{j} näme" for j in range(rnd.randrange(0, 3))]
        w = {"blamed": "main"}
        mode = k % 4
        if mode == 0:
            tgt["linker_chain"] = {"names": ["", "/lib/libalpha.so.1", "/opt/ü/libβ.so", "libgamma.so"][: rnd.randrange(1, 5)], "name_cross_page": k % 8 == 0}
            w["direct_auxv"] = "linker_chain"
        elif mode == 1:
            tgt["linker_chain"] = {"names": ["/only.so"]}
            w["direct_auxv"] = {"entry": "0x1234"}             # PHDR / PHNUM are not supplied: they come from /proc/<pid>/auxv (the real program)
        elif mode == 2:
            tgt["linker_chain"] = {"names": []}
            w["direct_auxv"] = "linker_chain"
        if k % 3 == 1 and tgt["threads"]:
            # the blamed thread has a descriptor table of its own: the handle stream is about the process' descriptors
            tgt["threads"][0]["unshare_files"] = True
            w["blamed"] = {"slot": 0}
        scns.append({"id": f"proc/{k}", "target": tgt, "writer": w, "cleanup": tgt["open_files"]})
    # mapped files whose names are not UTF-8 (file names are byte strings): the memory map, and with it the memory-info list, the
    # raw copy and the module list, must still be produced
    from . import p_total
    for k, raw in enumerate([b"lib\xff\xfe.so", b"caf\xe9 latin1.so.1"]):
        d = os.path.join(workdir, "nonutf8")
        os.makedirs(d, exist_ok=True)
        path = os.path.join(d, f"{k}_").encode() + raw
        p_total.mkelf(os.path.join(d, "tmp.so"), "elf", idseed=77 + k)
        os.replace(os.path.join(d, "tmp.so"), path)
        scns.append({"id": f"proc/non-utf8-mapped-name/{k}", "target": dumps.base_target(1, file_maps=[{"path_hex": path.hex(), "off": 0, "len": 0x3000, "exec": True}]), "writer": {"blamed": "main"}, "cleanup": []})
    return scns


def _cpuinfo_text(lines, k):
    """Concretise abstract cpuinfo lines; the separator layout varies with the case number."""
    out = []
    for j, ln in enumerate(lines):
        v = (k + j) % 4
        if ln["kind"] == "blank":
            out.append(["", "   ", "\t", " \t "][v])
        elif ln["kind"] == "nocolon":
            out.append(ln["field"] + ["", " ", "\t", "  "][v])
        else:
            f, val = ln["field"], ln["value"]
            out.append([f"{f}\t: {val}", f"{f}:{val}", f"{f}   :   {val}  ", f"{f}\t: {val} : trailing: 9"][v if val != "" or v != 3 else 0])
    return ("\n".join(out) + "\n").encode()


def cpuinfo_part(ck, quick):
    """System information from generated /proc/cpuinfo contents (worker in a private mount namespace)."""
    util.mc_design(ck, "MC_CpuInfo", "MC_CpuInfo" if quick else "MC_CpuInfo_thorough",
                   "the cpuinfo scan transcribed (line loop, table loop, found flags) over every file of <= MaxFree lines and every file with <= MaxAround lines around a complete block; "
                   "invariants LoopIsParse (loop = declarative reading), OnlyProcessorIsUpdated; liveness Terminates (quick)", workers=8, coverage=True, timeout=2400, extra=["-maxSetSize", "4000000"])
    exp = core.run_tlc("MC_CpuInfo", "MC_CpuInfo_export", workers=4, timeout=900)
    cases = exp["printed"].get("REPLAY", [])
    if not cases:
        raise core.ToolError("MC_CpuInfo exported no cases")
    import random
    rnd = random.Random(ck.seed)
    good = [c for c in cases if c["want"]["ok"]]
    bad = [c for c in cases if not c["want"]["ok"]]
    n = 150 if quick else 1500
    chosen = rnd.sample(good, min(n, len(good))) + rnd.sample(bad, min(n, len(bad)))
    scns = []
    per = 100
    for b in range(0, len(chosen), per):
        hist = []
        for k, c in enumerate(chosen[b:b + per]):
            hist += [{"op": "fake", "path": "/proc/cpuinfo", "content_hex": _cpuinfo_text(c["lines"], b + k).hex()}, {"op": "dump"}]
        scns.append({"id": f"cpuinfo/{b // per}", "target": dumps.base_target(1), "writer": {"blamed": "main"}, "history": hist, "no_oracles": True, "timeout_ms": 120000,
                     "cases": chosen[b:b + per]})
    try:
        runs = dumps.run_scenarios(ck, scns, "c18_cpuinfo", timeout=3000)
    finally:
        import glob
        for f in glob.glob("/dev/shm/mdw_fake_*"):
            try:
                os.remove(f)
            except OSError:
                pass
    evs, unavailable = [], 0
    for r in runs:
        if any(x.get("ev") == "fake_unavailable" for x in r.get("other", [])):
            unavailable += 1
            continue
        for c, d in zip(r["scn"]["cases"], r["dumps"]):
            si = d.get("streams", {}).get("sysinfo", {})
            _, paths = dumps.flatten_soft_errors(d.get("soft_errors_raw", "")) if d.get("outcome") == "ok" else (False, [])
            evs.append({"ev": "cpuinfo", "origin": f"{r['id']}#{d.get('dump_no')}", "lines": c["lines"], "outcome": d.get("outcome", "none"),
                        "softErr": any("WriteCpuInformationFailed" in p for p in paths),
                        "got": {"nproc": si.get("nproc", -1), "level": si.get("level", -1), "revision": si.get("revision", -1), "vendor": (si.get("vendor") or "").rstrip("\x00")}})
    ck.cov["cpuinfo_substitution_unavailable"] = unavailable
    if not evs:
        # no privilege for a private mount namespace here: the model result stands, the binding to the code is not exercised
        ck.assumptions.append("cpuinfo substitution (unshare + bind mount) was not permitted in this environment: CpuInfo is model-checked only")
        return
    out = os.path.join(ck.work, "c18_cpuinfo.ndjson")
    core.export_lines(evs, out)

    def describe(hist, tag):
        e = hist[-1]
        return ({"tag": tag}, f"{tag} ({e['origin']}): cpuinfo lines {json.dumps(e['lines'])[:500]} -> outcome {e['outcome']}, soft error {e['softErr']}, system information {e['got']}")
    v = util.judge_batch(ck, "Trace_CpuInfo", out, "system-information stream and soft-error list of dumps taken while /proc/cpuinfo shows generated contents (every TLC-exported file class, four separator layouts)", "CpuInfo", describe, traces=len(evs))
    if v["counts"]["ok"] == 0 or v["counts"]["missing"] == 0:
        raise core.ToolError(f"vacuous cpuinfo part: {v['counts']}")
    ck.cov["cpuinfo_cases"] = v["counts"]


_AUX_KEY = {"phnum": 5, "phdr": 3, "gate": 33, "entry": 9, "null": 0, "other": 6}
_AUX_VAL = {"phdr": {"a": {"auxv": 3}, "b": {"auxv": 3, "off": 0x1000}}, "phnum": {"a": {"auxv": 5}, "b": 1},
            "gate": {"a": {"region": "ga"}, "b": {"region": "gb"}}, "entry": {"a": {"module": "libc.so.6", "off": 0x100}, "b": {"module": "ld-linux-x86-64.so.2", "off": 0x100}},
            "null": {"a": 0, "b": 7}, "other": {"a": 4096, "b": 4097}}
_AUX_DIRECT = {"phdr": {"chain": "phdr"}, "phnum": {"chain": "phnum"}, "gate": {"region": "gd"}, "entry": {"module": "libgcc_s.so.1", "off": 0x100}}


def auxv_part(ck, quick):
    """Completion of the auxiliary-vector values from a generated /proc/<pid>/auxv (worker in a private mount namespace)."""
    from . import p_total
    util.mc_design(ck, "MC_AuxvFile", "MC_AuxvFile", "ProcfsAuxvIter and try_filling_missing_info transcribed, over every caller-supplied subset of the four values and every file of <= 3 pairs "
                   "(keys phnum/phdr/gate/entry/null/other, two values) with or without a truncated pair at its end; invariants C18_DirectFirstThenFirstPair, C11_TruncationIsSoft; liveness Terminates",
                   workers=8, coverage=True, timeout=1500)
    exp = core.run_tlc("MC_AuxvFile", "MC_AuxvFile_export", workers=4, timeout=900)
    cases = exp["printed"].get("REPLAY", [])
    if not cases:
        raise core.ToolError("MC_AuxvFile exported no cases")
    import random
    rnd = random.Random(ck.seed)
    # strata: caller supplied everything / file well-formed / file truncated; files with repeated keys first
    def stratum(c):
        if all(v != "unset" for v in c["direct"].values()):
            return "complete"
        return "truncated" if c["softErr"] else "wellformed"
    by = {}
    for c in cases:
        by.setdefault(stratum(c), []).append(c)
    n = {"complete": 10, "wellformed": 120, "truncated": 120} if quick else {"complete": 100, "wellformed": 1500, "truncated": 1500}
    chosen = []
    for k, lst in sorted(by.items()):
        rep = [c for c in lst if len({p["key"] for p in c["pairs"]}) < len(c["pairs"])]      # a key occurs twice
        chosen += rnd.sample(rep, min(n[k] // 2, len(rep))) + rnd.sample(lst, min(n[k] - n[k] // 2, len(lst)))
    ids = {}
    imgdir = os.path.join(ck.work, "gate")
    for nm, seed in (("ga", 201), ("gb", 202), ("gd", 203)):
        ids[nm] = p_total.mkelf(os.path.join(imgdir, nm + ".img"), "elf_nosoname", soname="", idseed=seed)["oracle_id"]
    regions = [{"name": nm, "len": 0x3000, "image": os.path.join(imgdir, nm + ".img")} for nm in ("ga", "gb", "gd")]
    scns, per = [], 80
    for b in range(0, len(chosen), per):
        hist = []
        for c in chosen[b:b + per]:
            da = {k: _AUX_DIRECT[k] for k, v in c["direct"].items() if v == "d"}
            hist += [{"op": "set", "writer": {"direct_auxv": da}},
                     {"op": "fake", "path": "/proc/{pid}/auxv", "pairs": [[_AUX_KEY[p["key"]], _AUX_VAL[p["key"]][p["val"]]] for p in c["pairs"]], "extra": 5 if c["ending"] == "partial" else 0},
                     {"op": "dump"}]
        scns.append({"id": f"auxv/{b // per}", "target": dumps.base_target(1, regions=regions, linker_chain={"names": ["", "/lib/libfirst.so", "/lib/libsecond.so.2"]}),
                     "writer": {"blamed": "main"}, "history": hist, "no_oracles": True, "timeout_ms": 120000, "cases": chosen[b:b + per]})
    try:
        runs = dumps.run_scenarios(ck, scns, "c18_auxv", timeout=3000)
    finally:
        import glob
        for f in glob.glob("/dev/shm/mdw_fake_*"):
            try:
                os.remove(f)
            except OSError:
                pass
    evs, unavailable = [], 0
    for r in runs:
        if any(x.get("ev") == "fake_unavailable" for x in r.get("other", [])):
            unavailable += 1
            continue
        for c, d in zip(r["scn"]["cases"], r["dumps"]):
            obs = {"gate": "?", "entry": "?", "dso": "?", "softErr": False}
            if d.get("outcome") == "ok":
                mods = d["streams"]["modules"]["modules"]
                gates = [m for m in mods if m.get("name") == "linux-gate.so"]
                obs["gate"] = "unset" if not gates else next((k[1] for k in ("ga", "gb", "gd") if len(gates) == 1 and gates[0].get("cv_id") == ids[k]), "other")
                first = mods[0].get("name", "") if mods else ""
                obs["entry"] = "a" if "libc.so.6" in first else "b" if "ld-linux" in first else "d" if "libgcc_s" in first else "unset" if "mdw-target" in first else "other"
                ds = d["streams"].get("dsodebug")
                names = [m.get("name", "") for m in (ds or {}).get("link_maps", [])]
                obs["dso"] = "none" if ds is None else "synthetic" if "/lib/libfirst.so" in names else "real" if any("libc.so" in x for x in names) else "other"
                obs["softErr"] = "InvalidFormat" in d.get("soft_errors_raw", "")
            evs.append({"ev": "auxv", "origin": f"{r['id']}#{d.get('dump_no')}", "direct": c["direct"], "pairs": c["pairs"], "ending": c["ending"], "outcome": d.get("outcome", "none"), "obs": obs})
    ck.cov["auxv_substitution_unavailable"] = unavailable
    if not evs:
        ck.assumptions.append("auxv substitution (unshare + bind mount) was not permitted in this environment: AuxvFile is model-checked only")
        return
    out = os.path.join(ck.work, "c18_auxv.ndjson")
    core.export_lines(evs, out)

    def describe(hist, tag):
        e = hist[-1]
        return ({"tag": tag}, f"{tag} ({e['origin']}): caller supplied {e['direct']}, auxv file {[(p['key'], p['val']) for p in e['pairs']]} ending {e['ending']} -> outcome {e['outcome']}, observed {e['obs']}")
    v = util.judge_batch(ck, "Trace_AuxvFile", out, "dumps taken while /proc/<pid>/auxv of the target shows a generated vector (first/second occurrence of each key distinguishable, AT_NULL early/late/absent, truncated pair); which value was used is read off the module list and the linker stream", "AuxvFile", describe, traces=len(evs))
    if v["counts"]["wellformed"] == 0 or v["counts"]["truncated"] == 0:
        raise core.ToolError(f"vacuous auxv part: {v['counts']}")
    ck.cov["auxv_cases"] = v["counts"]


def c18(ck):
    quick = ck.tier == "quick"
    mc = core.mc_or_die("ProcStreams", "MC_ProcStreams", workers=4, coverage=True, timeout=900)
    util.vacuity(ck, mc, "ProcStreams", ["AuxvResolve", "MemInfo", "Handles", "DsoWalk"])
    ck.add_mc(mc, "auxv resolution for every direct/proc combination of the four fields, memory-info list for every list of <= 2 lines over all 16 permission sets, handle sets, linker chain lengths with/without DT_DEBUG; invariants DirectFirst, OneEntryPerLine, HandlesBijective")
    scns = _scenarios(quick, ck.seed, ck.work)
    cross = dumps.cross_scenarios(quick, ck.seed)
    try:
        runs = dumps.run_scenarios(ck, scns + cross, "c18")
    finally:
        for s in scns:
            for f in s.get("cleanup", []):
                if os.path.exists(f):
                    os.remove(f)
    evs = [e for r in runs for d in r["dumps"] for e in events(r, d)]
    evs += [{"ev": "failed", "origin": r["id"]} for r in runs if not r["dumps"]]
    out = os.path.join(ck.work, "c18.ndjson")
    core.export_lines(evs, out)

    def describe(hist, tag):
        e = hist[-1]
        brief = {k: v for k, v in e.items() if k not in ("lines", "entries")}
        return ({"tag": tag}, f"{tag} in {e.get('origin')}: {json.dumps(brief)[:600]}")
    v = util.judge_batch(ck, "Trace_ProcStreams", out, "raw Linux streams, memory-info list, handle stream, system information and linker debug stream of dumps of targets with generated argv/environment/descriptors/mappings/linker chains vs /proc read by the harness",
                         "ProcStreams", describe, traces=len(evs))
    c = v["counts"]
    if min(c.values()) == 0:
        raise core.ToolError(f"vacuous: {c}")
    cpuinfo_part(ck, quick)
    auxv_part(ck, quick)
    ck.cov["distinct_nontrivial"] = v["checked"] + sum(ck.cov.get("cpuinfo_cases", {}).values()) + sum(ck.cov.get("auxv_cases", {}).values())
    ck.cov["by_kind"] = c
    ck.cov["rule"] = "one case = one stream of one dump of a generated target (seeded), or one dump under one generated /proc/cpuinfo (TLC-exported, sampled)"
    ck.cov["decided_by"] = {"memory-info table, handle bijection, system-info fields, linker list, auxv precedence": "spec",
                            "raw copies (cmdline, environ, auxv, limits, maps): byte comparison": "comparator (translation-validation-like: TLC only judges the comparator's result)"}
    ck.sample({"handles": next(e for e in evs if e["ev"] == "handles")})
    ck.assumptions += ["/proc files of a blocked target are stable between the dump and the oracle read (status and cpuinfo are not compared: they change)",
                       "number_of_processors is a u8 in the format (16 cores here)"]
    return runs
