"""Properties decided on full dumps of shaped targets: C10 (prefix consistency), C09 on real dumps, ..."""
import itertools
import json
import os
from . import core, util, dumps


def _combo_scenarios(quick):
    combos = [
        {"crash_context": None, "sanitize": False, "skip": False, "size_limit": None},
        {"crash_context": {"sp": {"thread_sp": 0}, "ip": {"region": "code", "off": 300}}, "sanitize": True, "skip": False, "size_limit": None},
    ]
    if not quick:
        for cc, san, skip, lim in itertools.product([False, True], [False, True], [False, True], [None, 150000]):
            combos.append({"crash_context": {"sp": {"thread_sp": 1}, "ip": {"region": "code", "off": 100}} if cc else None,
                           "sanitize": san, "skip": skip, "size_limit": lim, **({"principal": {"region": "code", "off": 64}} if skip else {})})
    scns = []
    for i, c in enumerate(combos):
        tgt = dumps.base_target(3, regions=[{"name": "app0", "len": 3000, "lead": 5, "above": "hole"}, {"name": "code", "len": 8192, "exec": True}])
        w = {"blamed": {"slot": 0} if c["crash_context"] else "main", "app_memory": [{"addr": {"region": "app0"}, "len": 3000}], **c}
        scns.append({"id": f"combo{i}", "target": tgt, "writer": w, "faults": {"start": 5 + 3 * i, "pre_len": 400000 if i % 2 else 0}})
    return scns


def c10(ck):
    quick = ck.tier == "quick"
    util.mc_design(ck, "DirSection", "MC_DirSection_C10", "destination-call-level model of the stream sequence, crash / I/O error between any two calls; invariant C10_PrefixConsistent", coverage=True)
    base = _combo_scenarios(quick)
    # 1. fault-free dumps, the destination decoded after EVERY call
    runs = dumps.run_scenarios(ck, [dict(s, prefixes="all") for s in base], "c10_all")
    out = os.path.join(ck.work, "c10_prefix.ndjson")
    evs, ncalls = [], []
    for r in runs:
        d = r["dumps"][0] if r["dumps"] else None
        if d is None or d["outcome"] != "ok":
            raise core.ToolError(f"C10: fault-free dump of scenario {r['id']} did not succeed: {d and d.get('outcome')} {d and d.get('error')}")
        ncalls.append(d["ncalls"])
        evs += dumps.prefix_events(d, r["id"])
    # 2. one dump per destination call index with that call failing
    faulted = []
    for s, n in zip(base, ncalls):
        ks = range(n) if not quick or n <= 120 else range(0, n)
        for k in ks:
            f = dict(s.get("faults", {}), dest_fail_at=k)
            faulted.append(dict(s, id=f"{s['id']}/fail@{k}", faults=f, prefixes="last", observe=True))
    fr = dumps.run_scenarios(ck, faulted, "c10_fault")
    for r in fr:
        if not r["dumps"]:
            evs.append({"ev": "reset", "origin": r["id"], "outcome": r["end"]["worker"], "injected": True})
            continue
        d = r["dumps"][0]
        e = dumps.prefix_events(d, r["id"])
        e[0]["injected"] = True
        evs += e
    core.export_lines(evs, out)

    def describe(hist, tag):
        e = hist[-1]
        if e["ev"] == "reset":
            return ({"tag": tag}, f"dump with an injected destination failure ({e.get('origin')}) ended with outcome {e.get('outcome')} instead of an error")
        bad = [x for x in e["entries"] if x[0] != 0 and (x[1] + x[2] > e["fileLen"] or x[3] > e["fileLen"])]
        return ({"tag": tag}, f"after destination call #{e['call']} ({e['kind']}) of {hist[0].get('origin')} the destination holds {e['fileLen']} bytes but directory entries {bad[:2]} (type, rva, size, end of referenced data) point beyond them")
    util.judge_parallel(ck, "Trace_Prefix", out, "prefix of the destination after every call of fault-free dumps + final prefix of dumps aborted by an injected failure at each call index", "DirSection", describe, jobs=4)
    ck.cov["distinct_nontrivial"] = sum(ncalls) + len(faulted)
    ck.cov["rule"] = "one case = one boundary between two destination calls of one dump (fault-free: all boundaries decoded; faulted: the call at that index fails); distinct by (option combination, call index)"
    ck.cov["exhaustive"] = True
    ck.cov["decided_by"] = {"presence of header/directory, extents of streams and of what they reference vs. bytes present": "spec", "decoding of the truncated image": "mdparse (independent decoder)"}
    ck.sample({"prefix_event": evs[min(40, len(evs) - 1)]})
    ck.assumptions += ["granularity = the calls the writer makes on the destination (write_all of one slice is one step)", "Linux/x86-64 stream sequence only"]
    return runs, fr
