"""Properties decided on full dumps of shaped targets: C10 (prefix consistency), C09 on real dumps, ..."""
import itertools
import json
import os
from . import core, util, dumps


def _combo_scenarios(quick):
    combos = [
        {"crash_context": None, "sanitize": False, "skip": False, "size_limit": None},
        {"crash_context": {"sp": {"thread_sp": 0}, "ip": {"region": "code", "off": 300}}, "sanitize": True, "skip": False, "size_limit": None},
    ]
    if not quick:
        for cc, san, skip, lim in itertools.product([False, True], [False, True], [False, True], [None, 150000]):
            combos.append({"crash_context": {"sp": {"thread_sp": 1}, "ip": {"region": "code", "off": 100}} if cc else None,
                           "sanitize": san, "skip": skip, "size_limit": lim, **({"principal": {"region": "code", "off": 64}} if skip else {})})
    scns = []
    for i, c in enumerate(combos):
        tgt = dumps.base_target(3, regions=[{"name": "app0", "len": 3000, "lead": 5, "above": "hole"}, {"name": "code", "len": 8192, "exec": True}])
        w = {"blamed": {"slot": 0} if c["crash_context"] else "main", "app_memory": [{"addr": {"region": "app0"}, "len": 3000}], **c}
        scns.append({"id": f"combo{i}", "target": tgt, "writer": w, "faults": {"start": 5 + 3 * i, "pre_len": 400000 if i % 2 else 0}})
    return scns


def c10(ck):
    quick = ck.tier == "quick"
    util.mc_design(ck, "DirSection", "MC_DirSection_C10", "destination-call-level model of the stream sequence, crash / I/O error between any two calls; invariant C10_PrefixConsistent", coverage=True)
    base = _combo_scenarios(quick)
    # 1. fault-free dumps, the destination decoded after EVERY call
    runs = dumps.run_scenarios(ck, [dict(s, prefixes="all") for s in base], "c10_all")
    out = os.path.join(ck.work, "c10_prefix.ndjson")
    evs, ncalls = [], []
    for r in runs:
        d = r["dumps"][0] if r["dumps"] else None
        if d is None or d["outcome"] != "ok":
            raise core.ToolError(f"C10: fault-free dump of scenario {r['id']} did not succeed: {d and d.get('outcome')} {d and d.get('error')}")
        ncalls.append(d["ncalls"])
        evs += dumps.prefix_events(d, r["id"])
    # 2. one dump per destination call index with that call failing
    faulted = []
    for s, n in zip(base, ncalls):
        ks = range(n) if not quick or n <= 120 else range(0, n)
        for k in ks:
            f = dict(s.get("faults", {}), dest_fail_at=k)
            faulted.append(dict(s, id=f"{s['id']}/fail@{k}", faults=f, prefixes="last", observe=True))
    fr = dumps.run_scenarios(ck, faulted, "c10_fault")
    for r in fr:
        if not r["dumps"]:
            evs.append({"ev": "reset", "origin": r["id"], "outcome": r["end"]["worker"], "injected": True})
            continue
        d = r["dumps"][0]
        e = dumps.prefix_events(d, r["id"])
        e[0]["injected"] = True
        evs += e
    core.export_lines(evs, out)

    def describe(hist, tag):
        e = hist[-1]
        if e["ev"] == "reset":
            return ({"tag": tag}, f"dump with an injected destination failure ({e.get('origin')}) ended with outcome {e.get('outcome')} instead of an error")
        bad = [x for x in e["entries"] if x[0] != 0 and (x[1] + x[2] > e["fileLen"] or x[3] > e["fileLen"])]
        return ({"tag": tag}, f"after destination call #{e['call']} ({e['kind']}) of {hist[0].get('origin')} the destination holds {e['fileLen']} bytes but directory entries {bad[:2]} (type, rva, size, end of referenced data) point beyond them")
    util.judge_parallel(ck, "Trace_Prefix", out, "prefix of the destination after every call of fault-free dumps + final prefix of dumps aborted by an injected failure at each call index", "DirSection", describe, jobs=4)
    ck.cov["distinct_nontrivial"] = sum(ncalls) + len(faulted)
    ck.cov["rule"] = "one case = one boundary between two destination calls of one dump (fault-free: all boundaries decoded; faulted: the call at that index fails); distinct by (option combination, call index)"
    ck.cov["exhaustive"] = True
    ck.cov["decided_by"] = {"presence of header/directory, extents of streams and of what they reference vs. bytes present": "spec", "decoding of the truncated image": "mdparse (independent decoder)"}
    ck.sample({"prefix_event": evs[min(40, len(evs) - 1)]})
    ck.assumptions += ["granularity = the calls the writer makes on the destination (write_all of one slice is one step)", "Linux/x86-64 stream sequence only"]
    return runs, fr


# ------------------------------------------------------------------------------------------ C15
_NAMES = [b"", b"a", b"worker", b"0123456789abcde", "café".encode(), "线程-7".encode(), b"two words", b" lead", b"trail ", b"tab\there",
          "\U0001f600x".encode(), b"\xff\xfe bad", b"\xc3(", b"Web Content"]


def _names_scenarios(quick, seed):
    import random
    rnd = random.Random(seed)
    scns = []
    # every subset of unnamed threads for 1..N listed threads (main thread included in the subset space)
    maxn = 4 if quick else 5
    for n in range(1, maxn + 1):
        for mask in range(1 << n):
            threads = [{"mode": "pause", "stack_pages": 1, "sp_off": 512, "name_hex": _NAMES[(i + mask) % 11].hex()} for i in range(n - 1)]
            fail = [("main" if i == 0 else {"slot": i - 1}) for i in range(n) if mask >> i & 1]
            scns.append({"id": f"names/n{n}/m{mask}", "target": {"threads": threads, "main_name_hex": _NAMES[(mask + 3) % 11].hex()},
                         "writer": {"blamed": "main"}, "faults": {"name_fail": fail}})
    # larger lists, random subsets, all name shapes incl. non-UTF-8 (with a crash context blaming that thread, so that its status file is not parsed)
    for k in range(6 if quick else 60):
        n = rnd.choice([8, 13, 21, 32])
        threads = [{"mode": "pause", "stack_pages": 1, "sp_off": 256, "name_hex": rnd.choice(_NAMES[:11]).hex()} for _ in range(n)]
        fail = [{"slot": i} for i in range(n) if rnd.random() < 0.4]
        scns.append({"id": f"names/rand{k}", "target": {"threads": threads}, "writer": {"blamed": "main"}, "faults": {"name_fail": fail}})
    for k, bad in enumerate(_NAMES[11:13]):
        threads = [{"mode": "pause", "stack_pages": 1, "sp_off": 256, "name_hex": (bad if i == 0 else _NAMES[i % 11]).hex()} for i in range(3)]
        scns.append({"id": f"names/nonutf8-{k}", "target": {"threads": threads, "regions": [{"name": "code", "len": 4096, "exec": True}]},
                     "writer": {"blamed": {"slot": 0}, "crash_context": {"sp": {"thread_sp": 0}, "ip": {"region": "code", "off": 64}}}})
    return scns


def c15(ck):
    quick = ck.tier == "quick"
    util.mc_design(ck, "ThreadNames", "MC_ThreadNames", "thread-name stream placement for every list of <= MaxThreads threads, every named/unnamed subset, name lengths {0,2}; invariant C15", coverage=True)
    scns = _names_scenarios(quick, ck.seed)
    runs = dumps.run_scenarios(ck, scns, "c15")
    evs = [dumps.names_event(r, d) for r in runs for d in r["dumps"]]
    for r in runs:
        if not r["dumps"]:
            evs.append({"ev": "failed", "origin": r["id"], "outcome": r["end"]["worker"] if r["end"] else "?"})
    out = os.path.join(ck.work, "c15_names.ndjson")
    core.export_lines(evs, out)

    def describe(hist, tag):
        e = hist[-1]
        pat = "".join("N" if t["readable"] else "u" for t in e["listed"])
        sig = {"tag": tag}
        if tag == "C15-name-text-differs":
            exp = {t["tid"]: t["name"] for t in e["listed"] if t["readable"]}
            diff = [(bytes.fromhex(exp[n["tid"]]), bytes.fromhex(n["name"])) for n in e["names"] if exp.get(n["tid"]) != n["name"]]
            kind = "trailing-whitespace-trimmed" if diff and all(a.rstrip() == b for a, b in diff) else "other"
            sig["kind"] = kind
            return (sig, f"thread name text differs from the kernel's ({e['origin']}): {diff[:3]}")
        return (sig, f"thread-name stream wrong for thread list pattern {pat} (N = name readable, u = unreadable) in {e['origin']}: entries {json.dumps(e['names'])[:300]}, count {e['count']}")
    v = util.judge_batch(ck, "Trace_ThreadNames", out, "thread-name stream of real dumps vs /proc/<pid>/task/<tid>/comm: every subset of unreadable names for 1..N threads, random subsets for 8..32 threads, names of length 0..15 incl. non-ASCII/whitespace/non-UTF-8",
                         "ThreadNames", describe, traces=len(evs))
    if v.get("mixed", 0) == 0:
        raise core.ToolError("vacuous: no dump had a mix of readable and unreadable names")
    ck.cov["distinct_nontrivial"] = v.get("mixed", 0)
    ck.cov["rule"] = "one case = one dump of a target with a chosen thread list and chosen subset of unreadable names; non-trivial = at least one unreadable name in the list; distinct by (thread count, subset, names)"
    ck.cov["exhaustive"] = True
    ck.cov["decided_by"] = {"set of (tid, name) pairs, uniqueness, slot order": "spec", "UTF-16 decoding of the name strings": "mdparse"}
    ck.sample({"names_event": next(e for e in evs if e["ev"] == "names" and any(not t["readable"] for t in e["listed"]))})
    failed = [e for e in evs if e["ev"] == "failed"]
    ck.cov["dumps_that_failed"] = len(failed)
    ck.assumptions += ["a name is 'readable' when the ThreadName fail point is not toggled for that thread and /proc comm is valid UTF-8",
                       "names compared as bytes of the UTF-8 text; the kernel's final newline is not part of the name"]
    return runs
