"""Properties decided on full dumps of shaped targets: C10 (prefix consistency), C09 on real dumps, ..."""
import itertools
import json
import os
from . import core, util, dumps


def _combo_scenarios(quick):
    combos = [
        {"crash_context": None, "sanitize": False, "skip": False, "size_limit": None},
        {"crash_context": {"sp": {"thread_sp": 0}, "ip": {"region": "code", "off": 300}}, "sanitize": True, "skip": False, "size_limit": None},
    ]
    if not quick:
        for cc, san, skip, lim in itertools.product([False, True], [False, True], [False, True], [None, 150000]):
            combos.append({"crash_context": {"sp": {"thread_sp": 1}, "ip": {"region": "code", "off": 100}} if cc else None,
                           "sanitize": san, "skip": skip, "size_limit": lim, **({"principal": {"region": "code", "off": 64}} if skip else {})})
    scns = []
    for i, c in enumerate(combos):
        tgt = dumps.base_target(3, regions=[{"name": "app0", "len": 3000, "lead": 5, "above": "hole"}, {"name": "code", "len": 8192, "exec": True}])
        w = {"blamed": {"slot": 0} if c["crash_context"] else "main", "app_memory": [{"addr": {"region": "app0"}, "len": 3000}], **c}
        scns.append({"id": f"combo{i}", "target": tgt, "writer": w, "faults": {"start": 5 + 3 * i, "pre_len": 400000 if i % 2 else 0}})
    # an application region whose tail is unreadable (the copy is short): what the memory list says must still be what was written
    tgt = dumps.base_target(2, regions=[{"name": "app0", "len": 3000, "lead": 5, "at_end": True, "above": "hole"}, {"name": "app1", "len": 64}, {"name": "code", "len": 8192, "exec": True}])
    scns.append({"id": "combo-partial", "target": tgt, "faults": {"start": 9, "pre_len": 0},
                 "writer": {"blamed": "main", "app_memory": [{"addr": {"region": "app0"}, "len": 3000 + 2 * 4096}, {"addr": {"region": "app1"}, "len": 64}]}})
    # a target with an empty environment: a stream that exists and is empty (its directory entry has a type and a position but no bytes)
    scns.append({"id": "combo-emptyenv", "target": dict(dumps.base_target(1, regions=[{"name": "code", "len": 4096, "exec": True}]), env_clear=True), "faults": {"start": 7, "pre_len": 300000},
                 "writer": {"blamed": "main"}})
    # the destination positioned beyond 4 GiB when the request begins (a dump appended to a huge file): offsets there need 64 bits
    scns.append({"id": "combo-far", "target": dumps.base_target(2, regions=[{"name": "code", "len": 4096, "exec": True}]), "faults": {"start": (1 << 32) + 8192 + 5, "pre_len": 0},
                 "writer": {"blamed": "main"}})
    # stream sizes spanning magnitudes: multi-MiB application regions and a thread list section of > 1 MiB
    big = dumps.base_target(2, regions=[{"name": "big0", "len": 3 * 1024 * 1024 + 17, "lead": 3}, {"name": "big1", "len": 1536 * 1024}, {"name": "one", "len": 1},
                                        {"name": "code", "len": 8192, "exec": True}])
    big["threads"] += [{"mode": "pause", "stack_pages": 12, "sp_off": 100 + 64 * i} for i in range(30)]
    scns.append({"id": "combo-big", "target": big, "faults": {"start": 11, "pre_len": 0},
                 "writer": {"blamed": "main", "app_memory": [{"addr": {"region": r}, "len": n} for r, n in (("big0", 3 * 1024 * 1024 + 17), ("one", 1), ("big1", 1536 * 1024))]}})
    return scns


def c10(ck):
    quick = ck.tier == "quick"
    util.mc_design(ck, "DirSection", "MC_DirSection_C10", "destination-call-level model of the stream sequence, crash / I/O error between any two calls; invariant C10_PrefixConsistent", coverage=True)
    base = _combo_scenarios(quick)
    # 1. fault-free dumps, the destination decoded after EVERY call
    runs = dumps.run_scenarios(ck, [dict(s, prefixes="all", timeout_ms=240000) for s in base], "c10_all")
    out = os.path.join(ck.work, "c10_prefix.ndjson")
    evs, ncalls = [], []
    for r in runs:
        d = r["dumps"][0] if r["dumps"] else None
        if d is None or d["outcome"] != "ok":
            raise core.ToolError(f"C10: fault-free dump of scenario {r['id']} did not succeed: {d and d.get('outcome')} {d and d.get('error')}")
        ncalls.append(d["ncalls"])
        evs += dumps.prefix_events(d, r["id"])
    # 2. one dump per destination call index with that call failing
    faulted = []
    for s, n in zip(base, ncalls):
        ks = range(n) if (not quick or "big" not in s["id"]) else range(0, n, 3)
        for k in ks:
            f = dict(s.get("faults", {}), dest_fail_at=k)
            faulted.append(dict(s, id=f"{s['id']}/fail@{k}", faults=f, prefixes="last", observe=True))
    # 3. short writes: the destination accepts only part of one write (every k-th write call after the header/directory one),
    #    and is then full (the dump must abort consistently) or keeps accepting (the dump must complete consistently)
    nshort = 0
    for s, r in zip(base, runs):
        writes = [p["call"] for p in r["dumps"][0]["prefixes"] if p["kind"] == "write"][1:]
        step = 1 if not quick else max(1, len(writes) // 4)
        for j, k in enumerate(writes[::step]):
            for n, full in ((1, True), (5 + j, False)):
                f = dict(s.get("faults", {}), dest_short_at=[k, n, full])
                faulted.append(dict(s, id=f"{s['id']}/short@{k}/{n}/{'full' if full else 'cont'}", faults=f, prefixes="last", observe=True, short=True, full=full))
                nshort += 1
    fr = dumps.run_scenarios(ck, faulted, "c10_fault")
    for r in fr:
        if not r["dumps"]:
            evs.append({"ev": "reset", "origin": r["id"], "outcome": r["end"]["worker"], "injected": True})
            continue
        d = r["dumps"][0]
        e = dumps.prefix_events(d, r["id"])
        if not r["scn"].get("short"):
            e[0]["injected"] = True
        elif d.get("outcome") not in (("ok", "err") if r["scn"].get("full") else ("ok",)):
            # a short write that the destination then completes must not abort the dump; with a full disk the dump may
            # complete (only overwrites were left) or abort with an error - nothing else
            e[0]["injected"] = True
            e[0]["outcome"] = f"{d.get('outcome')}-after-short-write"
        evs += e
    core.export_lines(evs, out)

    def describe(hist, tag):
        e = hist[-1]
        if e["ev"] == "reset":
            return ({"tag": tag}, f"dump with an injected destination failure ({e.get('origin')}) ended with outcome {e.get('outcome')} instead of an error")
        bad = [x for x in e["entries"] if x[0] != 0 and (x[1] + x[2] > e["fileLen"] or x[3] > e["fileLen"])]
        return ({"tag": tag}, f"after destination call #{e['call']} ({e['kind']}) of {hist[0].get('origin')} the destination holds {e['fileLen']} bytes but directory entries {bad[:2]} (type, rva, size, end of referenced data) point beyond them")
    util.judge_parallel(ck, "Trace_Prefix", out, "prefix of the destination after every call of fault-free dumps + final prefix of dumps aborted by an injected failure at each call index", "DirSection", describe, jobs=4)
    ck.cov["distinct_nontrivial"] = sum(ncalls) + len(faulted)
    ck.cov["short_write_cases"] = nshort
    ck.cov["rule"] = "one case = one boundary between two destination calls of one dump (fault-free: all boundaries decoded; faulted: the call at that index fails); distinct by (option combination, call index)"
    ck.cov["exhaustive"] = True
    ck.cov["decided_by"] = {"presence of header/directory, extents of streams and of what they reference vs. bytes present": "spec", "decoding of the truncated image": "mdparse (independent decoder)"}
    ck.sample({"prefix_event": evs[min(40, len(evs) - 1)]})
    ck.assumptions += ["granularity = the calls the writer makes on the destination (write_all of one slice is one step)", "Linux/x86-64 stream sequence only"]
    return runs, fr


# ------------------------------------------------------------------------------------------ C15
_NAMES = [b"", b"a", b"worker", b"0123456789abcde", "café".encode(), "线程-7".encode(), b"two words", b" lead", b"trail ", b"tab\there",
          "\U0001f600x".encode(), b"\xff\xfe bad", b"\xc3(", b"Web Content",
          # control characters the kernel reports unescaped in comm: embedded / trailing / only newline, carriage return, NUL-free binary
          b"two\nlines", b"carriage\r", b"nl\n", b"\n", b"\r\n", b"a\rb", b"\x01\x7f", b"form\x0cfeed", b"v\x0btab",
          # the longest possible names (15 bytes; comm then holds 16 with the kernel's newline) ending in a byte that looks like a terminator
          b"fourteen-bytes\n", b"fourteen-bytes\r", b"fourteen-bytes ", b"thirteen-byte\n\n", "fourteen-byt\u00e9".encode()[:15]]


def _names_scenarios(quick, seed):
    import random
    rnd = random.Random(seed)
    scns = []
    # every subset of unnamed threads for 1..N listed threads (main thread included in the subset space)
    maxn = 4 if quick else 5
    for n in range(1, maxn + 1):
        for mask in range(1 << n):
            threads = [{"mode": "pause", "stack_pages": 1, "sp_off": 512, "name_hex": _NAMES[(i + mask) % 11].hex()} for i in range(n - 1)]
            fail = [("main" if i == 0 else {"slot": i - 1}) for i in range(n) if mask >> i & 1]
            scns.append({"id": f"names/n{n}/m{mask}", "target": {"threads": threads, "main_name_hex": _NAMES[(mask + 3) % 11].hex()},
                         "writer": {"blamed": "main"}, "faults": {"name_fail": fail}})
    # larger lists, random subsets, all name shapes incl. non-UTF-8 (with a crash context blaming that thread, so that its status file is not parsed)
    for k in range(6 if quick else 60):
        n = rnd.choice([8, 13, 21, 32])
        threads = [{"mode": "pause", "stack_pages": 1, "sp_off": 256, "name_hex": rnd.choice(_NAMES[:11]).hex()} for _ in range(n)]
        fail = [{"slot": i} for i in range(n) if rnd.random() < 0.4]
        scns.append({"id": f"names/rand{k}", "target": {"threads": threads}, "writer": {"blamed": "main"}, "faults": {"name_fail": fail}})
    # the enumeration is not the list: threads dropped when the process is suspended (they run without a stack pointer) x names that
    # cannot be read, among threads that are listed with their names
    combos = [(dm, fm) for dm in range(1, 8) for fm in range(8)]
    for (dm, fm) in (rnd.sample(combos, 10) if quick else combos):
        threads = [{"mode": "rsp0" if dm >> i & 1 else "pause", "stack_pages": 1, "sp_off": 512, "name_hex": _NAMES[(i + dm + fm) % 11].hex()} for i in range(3)]
        threads.append({"mode": "pause", "stack_pages": 1, "sp_off": 512, "name_hex": _NAMES[(dm * 8 + fm) % 11].hex()})
        scns.append({"id": f"names/dropped/d{dm}/f{fm}", "target": {"threads": threads}, "writer": {"blamed": "main"}, "faults": {"name_fail": [{"slot": i} for i in range(3) if fm >> i & 1]}})
    ctl = _NAMES[14:]
    scns.append({"id": "names/control", "target": {"threads": [{"mode": "pause", "stack_pages": 1, "sp_off": 256, "name_hex": c.hex()} for c in ctl], "main_name_hex": ctl[0].hex()},
                 "writer": {"blamed": "main"}})
    for k, bad in enumerate(_NAMES[11:13]):
        threads = [{"mode": "pause", "stack_pages": 1, "sp_off": 256, "name_hex": (bad if i == 0 else _NAMES[i % 11]).hex()} for i in range(3)]
        scns.append({"id": f"names/nonutf8-{k}", "target": {"threads": threads, "regions": [{"name": "code", "len": 4096, "exec": True}]},
                     "writer": {"blamed": {"slot": 0}, "crash_context": {"sp": {"thread_sp": 0}, "ip": {"region": "code", "off": 64}}}})
    return scns


def c15(ck):
    quick = ck.tier == "quick"
    util.mc_design(ck, "ThreadNames", "MC_ThreadNames", "thread-name stream placement for every enumeration of <= MaxThreads threads, every named/unnamed subset, every subset dropped at suspend, name lengths {0,2}; invariant C15", coverage=True)
    scns = _names_scenarios(quick, ck.seed)
    scns += dumps.cross_scenarios(quick, ck.seed)          # every knob drawn independently (see dumps.cross_scenarios)
    runs = dumps.run_scenarios(ck, scns, "c15")
    evs = [dumps.names_event(r, d) for r in runs for d in r["dumps"]]
    for r in runs:
        if not r["dumps"]:
            evs.append({"ev": "failed", "origin": r["id"], "outcome": r["end"]["worker"] if r["end"] else "?"})
    out = os.path.join(ck.work, "c15_names.ndjson")
    core.export_lines(evs, out)

    def describe(hist, tag):
        e = hist[-1]
        pat = "".join("N" if t["readable"] else "u" for t in e["listed"])
        sig = {"tag": tag}
        if tag == "C15-name-text-differs":
            exp = {t["tid"]: t["name"] for t in e["listed"] if t["readable"]}
            diff = [(bytes.fromhex(exp[n["tid"]]), bytes.fromhex(n["name"])) for n in e["names"] if exp.get(n["tid"]) != n["name"]]
            kind = "trailing-whitespace-trimmed" if diff and all(a.rstrip() == b for a, b in diff) else "other"
            sig["kind"] = kind
            return (sig, f"thread name text differs from the kernel's ({e['origin']}): {diff[:3]}")
        return (sig, f"thread-name stream wrong for thread list pattern {pat} (N = name readable, u = unreadable) in {e['origin']}: entries {json.dumps(e['names'])[:300]}, count {e['count']}")
    v = util.judge_batch(ck, "Trace_ThreadNames", out, "thread-name stream of real dumps vs /proc/<pid>/task/<tid>/comm: every subset of unreadable names for 1..N threads, random subsets for 8..32 threads, names of length 0..15 incl. non-ASCII/whitespace/non-UTF-8",
                         "ThreadNames", describe, traces=len(evs))
    if v.get("mixed", 0) == 0:
        raise core.ToolError("vacuous: no dump had a mix of readable and unreadable names")
    ck.cov["distinct_nontrivial"] = v.get("mixed", 0)
    ck.cov["rule"] = "one case = one dump of a target with a chosen thread list and chosen subset of unreadable names; non-trivial = at least one unreadable name in the list; distinct by (thread count, subset, names)"
    ck.cov["exhaustive"] = True
    ck.cov["decided_by"] = {"set of (tid, name) pairs, uniqueness, slot order": "spec", "UTF-16 decoding of the name strings": "mdparse"}
    ck.sample({"names_event": next(e for e in evs if e["ev"] == "names" and any(not t["readable"] for t in e["listed"]))})
    failed = [e for e in evs if e["ev"] == "failed"]
    ck.cov["dumps_that_failed"] = len(failed)
    ck.assumptions += ["a name is 'readable' when the ThreadName fail point is not toggled for that thread and /proc comm is valid UTF-8",
                       "names compared as bytes of the UTF-8 text; the kernel's final newline is not part of the name"]
    return runs


# ------------------------------------------------------------------------------------------ C01
def _shape_scenarios(n, seed, counts=(1, 2, 5, 21, 64)):
    import random
    rnd = random.Random(seed)
    scns = []
    for k in range(n):
        nt = counts[k % len(counts)] - 1
        threads = []
        for i in range(nt):
            t = {"mode": "pause", "stack_pages": rnd.choice([1, 1, 2, 4]), "sp_off": rnd.randrange(0, 4096)}
            if rnd.random() < 0.8:
                t["name_hex"] = rnd.choice(_NAMES[:11]).hex()
            if rnd.random() < 0.3:
                t["words"] = [[8 * rnd.randrange(0, 8), {"region": "code", "off": rnd.randrange(0, 8192)}]]
            threads.append(t)
        nreg = rnd.randrange(0, 4)
        regions = [{"name": f"app{j}", "len": rnd.choice([1, 7, 100, 4096, 5000, 70000]), "lead": rnd.randrange(0, 64), "above": rnd.choice(["hole", "guard", "mapped"])} for j in range(nreg)]
        regions.append({"name": "code", "len": 8192, "exec": True})
        tgt = {"threads": threads, "regions": regions, "pipes": rnd.randrange(0, 3), "sockets": rnd.randrange(0, 2)}
        w = {"blamed": "main", "app_memory": [{"addr": {"region": f"app{j}"}, "len": regions[j]["len"]} for j in range(nreg)]}
        if nt and rnd.random() < 0.6:
            b = rnd.randrange(nt)
            w["blamed"] = {"slot": b}
            if rnd.random() < 0.7:
                w["crash_context"] = {"sp": {"thread_sp": b}, "ip": rnd.choice([{"region": "code", "off": rnd.choice([0, 64, 127, 128, 4000, 8191])}, "0x10", {"region": "app0"} if nreg else "0x20"]), "gregs_seed": k + 1}
        if rnd.random() < 0.4:
            w["size_limit"] = rnd.choice([1000, 300000, 5000000])
        if rnd.random() < 0.4:
            w["sanitize"] = True
        if rnd.random() < 0.3:
            w["skip"] = True
            w["principal"] = rnd.choice([{"region": "code", "off": 100}, "0x30"])
        if rnd.random() < 0.3:
            w["user_mappings"] = [{"start": {"region_map": "code"}, "size": 8192, "name": "/user/lib code.so", "id_hex": "00112233445566778899aabbccddeeff"}]
        f = {"start": rnd.choice([0, 0, 3, 4096]), "pre_len": rnd.choice([0, 500000])}
        if nt and rnd.random() < 0.5:
            f["name_fail"] = [{"slot": i} for i in range(nt) if rnd.random() < 0.4]
        scns.append({"id": f"shape{k}", "target": tgt, "writer": w, "faults": f})
    # shapes in which a copy from the target comes back shorter than asked for (the descriptor must describe what was written):
    # the crash IP just before the unreadable reservation merged into a file mapping; an application region with an unreadable tail;
    # an application region inside a live stack (a second descriptor for bytes that are also part of a stack blob is a separate blob)
    tgt = dumps.base_target(2, file_maps=[{"path": core.TARGET, "off": 0, "len": 0x2000, "exec": True, "guard_after": 1}],
                            regions=[{"name": "app0", "len": 3000, "lead": 5, "at_end": True, "above": "hole"}])
    scns.append({"id": "shape-short-reads", "target": tgt, "faults": {"start": 5, "pre_len": 0},
                 "writer": {"blamed": {"slot": 0}, "crash_context": {"sp": {"thread_sp": 0}, "ip": {"file_map": 0, "off": 0x2000 - 16}},
                            "app_memory": [{"addr": {"region": "app0"}, "len": 3000 + 4096}, {"addr": {"thread_sp": 1, "off": 32}, "len": 200}]}})
    return scns


def c01(ck):
    quick = ck.tier == "quick"
    mc = core.mc_or_die("DumpSeq", "MC_DumpSeq_fresh", workers=8, coverage=True, timeout=1500)
    util.vacuity(ck, mc, "DumpSeq", ["ThreadList", "Modules", "AppMem", "MemList", "Exception", "SysInfo", "BestEffortX", "Names", "Handles", "Return"])
    ck.add_mc(mc, "the dump pipeline as an allocator of objects: every thread list (named/unnamed, with/without stack), app regions, modules, handles, link maps, soft-failing stream; invariants C01, C11, C19 for a fresh writer")
    scns = _shape_scenarios(25 if quick else 400, ck.seed) + dumps.cross_scenarios(quick, ck.seed)
    # an image is an image whatever the writer went through before: the histories of C19 in which a dump fails part-way (or
    # succeeds) before the next one on the same writer; every image that is returned is judged
    scns += [s for s in _reuse_scenarios(quick, ck.seed) if s["id"].startswith(("reuse/after-", "reuse/same", "reuse/app-moves"))]
    runs = dumps.run_scenarios(ck, scns, "c01")
    evs = []
    for r in runs:
        if not r["dumps"]:
            evs.append({"ev": "failed", "origin": r["id"], "outcome": r["end"]["worker"] if r["end"] else "?"})
        cur = dict(r["scn"].get("writer", {}))
        hist = [h for h in r["scn"].get("history", [{"op": "dump"}])]
        di = 0
        for step in hist:
            if step["op"] == "set":
                cur.update(step["writer"])
            elif step["op"] == "dump" and di < len(r["dumps"]):
                evs.append(dumps.c01_event(dict(r, scn=dict(r["scn"], writer=dict(cur))), r["dumps"][di]))
                di += 1
    out = os.path.join(ck.work, "c01.ndjson")
    core.export_lines(evs, out)

    def describe(hist, tag):
        e = hist[-1]
        ov = [(a, b) for a, b in zip(e["objs"], e["objs"][1:]) if a["off"] + a["len"] > b["off"]][:2]
        bad_alias = [o for o in e["objs"] if o["nk"] > 1 and o["alias"] not in ("mem+stack", "ctx+ctx:exception")][:2]
        return ({"tag": tag}, f"dump {e['origin']}#{e.get('dump_no', 1)} is not structurally sound ({tag}): decoder errors {e['errs']}, overlapping {ov}, unexpected aliases {bad_alias}, dir {e['dir'][:4]}...")
    v = util.judge_batch(ck, "Trace_Structure", out, "header, directory and every RVA-reachable object of real dumps of random process shapes (1..64 threads) x writer options", "DumpSeq", describe, traces=len(evs))
    okd = sum(1 for e in evs if e["ev"] == "c01")
    if okd == 0:
        raise core.ToolError("vacuous: no dump succeeded")
    ck.cov["distinct_nontrivial"] = okd
    ck.cov["objects_checked"] = v.get("objects", 0)
    ck.cov["dumps_that_failed"] = len(evs) - okd
    ck.cov["rule"] = "one case = one successful dump of a generated process shape under a generated option combination (seeded); non-trivial = decoded completely"
    ck.cov["decided_by"] = {"directory shape, sizes, containment, sortedness and disjointness of objects, allowed aliases": "spec", "finding the objects (following every RVA)": "mdparse"}
    ck.sample({"c01_event": {k: (v if k != "objs" else v[:6]) for k, v in next(e for e in evs if e["ev"] == "c01").items()}})
    ck.assumptions += ["Linux/x86-64 only; the mac writer's stream sequence is not covered", "objects = what the independent decoder reaches from the directory"]
    return runs


# ------------------------------------------------------------------------------------------ C11
def _softerr_scenarios(quick, seed):
    fps = ["StopProcess", "FillMissingAuxvInfo", "ThreadName", "SuspendThreads", "CpuInfoFileOpen"]
    scns = []
    for mask in range(32):
        sel = [fps[i] for i in range(5) if mask >> i & 1]
        tgt = dumps.base_target(2 + mask % 2)
        scns.append({"id": f"fp{mask}", "target": tgt, "writer": {"blamed": "main"}, "faults": {"failspots": sel}})
    # mixed per-thread name failures
    scns.append({"id": "namefail-mixed", "target": dumps.base_target(3), "writer": {"blamed": "main"}, "faults": {"name_fail": [{"slot": 0}, {"slot": 2}], "failspots": ["CpuInfoFileOpen"]}})
    # natural failures: a thread that vanishes between enumeration and attach (process not group-stopped), sandbox threads, an unreferenced principal mapping
    t = {"shared": True, "threads": [{"mode": "heartbeat"}, {"mode": "heartbeat"}, {"mode": "rsp0"}, {"mode": "pause", "stack_pages": 1, "sp_off": 100}]}
    scns.append({"id": "vanish+rsp0", "target": t, "writer": {"blamed": "main"}, "faults": {"failspots": ["StopProcess"], "actions": [{"at": {"hook": "enumerate:done"}, "do": "exit", "slot": 1}]}})
    # threads that another tracer holds (a debugger attached to one thread, strace -p <tid>): the attach is refused (EPERM), the thread is
    # left out and reported; alone, with fail points, and for every thread but one
    for k, (slots, fp) in enumerate([([1], []), ([0], ["StopProcess", "ThreadName"]), ([0, 1, 2], ["SuspendThreads"])]):
        scns.append({"id": f"traced-elsewhere/{k}", "target": dumps.base_target(3), "writer": {"blamed": "main"}, "faults": {"failspots": fp}, "pretrace_slots": slots})
    scns.append({"id": "principal-unreferenced", "target": dumps.base_target(2), "writer": {"blamed": "main", "skip": True, "principal": "0x40"}, "expect": {"prinNotRef": True}})
    scns.append({"id": "non-utf8-name", "target": {"threads": [{"mode": "pause", "stack_pages": 1, "sp_off": 64, "name_hex": "fffe41"}, {"mode": "pause", "stack_pages": 1, "sp_off": 64, "name_hex": "6f6b"}]}, "writer": {"blamed": "main"}})
    scns.append({"id": "direct-auxv-complete+fill-failpoint", "target": dumps.base_target(1), "writer": {"blamed": "main", "direct_auxv": {"phnum": 1, "phdr": "0x1000", "gate": "0x2000", "entry": "0x3000"}},
                 "faults": {"failspots": ["FillMissingAuxvInfo"]}, "expect": {"dsoFail": True}})
    scns.append({"id": "no-dt-debug", "target": {"threads": [], "linker_chain": {"names": ["/lib/a.so"], "no_debug": True}}, "writer": {"blamed": "main", "direct_auxv": "linker_chain"}, "expect": {"dsoFail": True}})
    # a linker list with an object name that is not UTF-8 (legal on Linux): the linker-data step fails with that particular error,
    # alone and together with other failures - the report must still be there and complete
    nonutf8 = {"names_hex": ["", "2f6c69622fffc328", "2f6c69622f6f6b"]}
    scns.append({"id": "dso-name-not-utf8", "target": {"threads": [], "linker_chain": nonutf8}, "writer": {"blamed": "main", "direct_auxv": "linker_chain"}, "expect": {"dsoFail": True}})
    scns.append({"id": "dso-name-not-utf8+failpoints", "target": {"threads": [{"mode": "pause", "stack_pages": 1, "sp_off": 64}], "linker_chain": nonutf8}, "writer": {"blamed": "main", "direct_auxv": "linker_chain"},
                 "faults": {"failspots": ["StopProcess", "CpuInfoFileOpen", "ThreadName"]}, "expect": {"dsoFail": True}})
    # files the writer copies made unreadable for the dump worker (private mount namespace): every single one, every pair (thorough:
    # every subset), with the auxiliary values supplied by the caller or to be completed from the (possibly unreadable) file
    import random
    rnd = random.Random(seed)
    release = [f for f in ("/etc/lsb-release", "/etc/os-release") if os.path.exists(f)]
    paths = {"cpuinfo": ["/proc/cpuinfo"], "release": release, "cmdline": ["/proc/{pid}/cmdline"], "environ": ["/proc/{pid}/environ"], "auxv": ["/proc/{pid}/auxv"], "limits": ["/proc/{pid}/limits"]}
    files = sorted(paths)
    subsets = [frozenset(c) for n in range(1, len(files) + 1) for c in itertools.combinations(files, n)]
    if quick:
        subsets = [x for x in subsets if len(x) == 1] + rnd.sample([x for x in subsets if len(x) == 2], 4) + [frozenset(files)]
    for k, sub in enumerate(subsets):
        complete = k % 2 == 0
        hist = [{"op": "fake", "path": pth, "unreadable": True} for f in sorted(sub) for pth in paths[f]] + [{"op": "dump"}]
        w = {"blamed": "main"}
        if complete:
            w["direct_auxv"] = {"phnum": 1, "phdr": "0x1000", "gate": "0x2000", "entry": "0x3000"}
        scns.append({"id": "unreadable/" + "+".join(sorted(sub)) + ("/direct" if complete else ""), "target": dumps.base_target(1), "writer": w, "history": hist, "unreadable": sorted(sub),
                     "expect": {"dsoFail": complete or "auxv" in sub}})
    return scns


def c11(ck):
    quick = ck.tier == "quick"
    mc = core.mc_or_die("SoftErrors", "MC_SoftErrors", workers=8, coverage=True, timeout=900)
    util.vacuity(ck, mc, "SoftErrors", ["Advance", "Finish", "Contribution"])
    ck.add_mc(mc, "every fault plan (32 fail-point subsets x natural failures) through the best-effort steps in code order; invariants SoftNeverHard, SoftErrorsExact")
    mc2 = core.mc_or_die("DumpSeq", "MC_DumpSeq_fresh", workers=8, timeout=1500)
    ck.add_mc(mc2, "pipeline model: a soft-failing stream leaves a zero entry and every other entry intact (C11 in DumpSeq)")
    scns = _softerr_scenarios(quick, ck.seed)
    runs = dumps.run_scenarios(ck, scns, "c11")
    evs, sevs = [], []
    unavailable = 0
    for r in runs:
        if any(x.get("ev") == "fake_unavailable" for x in r.get("other", [])):
            unavailable += 1            # no privilege for a private mount namespace here: these plans stay model-only
            continue
        if not r["dumps"]:
            evs.append({"ev": "c11", "origin": r["id"], "fp": [], "nameFail": 0, "threads": 1, "exited": 0, "refused": 0, "rsp0": 0, "prinNotRef": False, "dsoFail": False,
                        "auxvComplete": False, "outcome": r["end"]["worker"] if r["end"] else "?", "error": "", "wellFormed": False, "paths": [], "present": []})
        for d in r["dumps"]:
            evs.append(dumps.c11_event(r, d))
            sevs.append(dumps.c01_event(r, d))
    out = os.path.join(ck.work, "c11.ndjson")
    core.export_lines(evs, out)

    def describe(hist, tag):
        e = hist[-1]
        sig = {"tag": tag}
        if tag == "C11-best-effort-failure-made-the-dump-fail":
            sig["scenario"] = e["origin"]
        return (sig, f"scenario {e['origin']} (fail points {e['fp']}, {e['nameFail']} unreadable names, {e['exited']} vanished, {e['rsp0']} sandbox threads): {tag}; outcome {e['outcome']} {e['error'][:160]}; reported {e['paths']}")
    v = util.judge_batch(ck, "Trace_SoftErrors", out, "dumps under all 32 fail-point subsets, per-thread name failures, vanished and sandbox threads, unreferenced principal mapping, non-UTF-8 thread name, linker data without DT_DEBUG", "SoftErrors", describe, traces=len(evs))
    sout = os.path.join(ck.work, "c11_structure.ndjson")
    core.export_lines(sevs, sout)
    util.judge_batch(ck, "Trace_Structure", sout, "structure of the same dumps (all other streams intact)", "DumpSeq",
                     lambda hist, tag: ({"tag": tag}, f"dump {hist[-1]['origin']} with soft failures is not structurally sound: {hist[-1].get('errs')}"), traces=len(sevs))
    ck.cov["distinct_nontrivial"] = v.get("withFailures", 0)
    ck.cov["rule"] = "one case = one dump under one fault plan; non-trivial = the plan contains at least one failure; plans are distinct by construction"
    ck.cov["exhaustive"] = True
    ck.cov["decided_by"] = {"result ok, streams present, bag and order of reported failures": "spec", "flattening of the JSON tree to paths": "harness projection"}
    ck.sample({"c11_event": evs[7]})
    ck.cov["file_substitution_unavailable"] = unavailable
    if unavailable:
        ck.assumptions.append("unreadable-file plans could not be exercised here (no private mount namespace): model-only")
    ck.assumptions += ["failures of the /proc/<tid>/status and /proc/<pid>/maps copies are not induced (the same files feed required steps)", "stop_timeout raised to 5 s so that load cannot produce a spontaneous Timeout soft error"]
    return runs


# ------------------------------------------------------------------------------------------ C19
def _reuse_scenarios(quick, seed):
    import random
    rnd = random.Random(seed)
    scns = []
    base_regions = [{"name": "app0", "len": 3000, "lead": 9, "above": "hole"}, {"name": "app1", "len": 64, "lead": 0}, {"name": "code", "len": 8192, "exec": True}]
    def tgt(n, **kw):
        t = dumps.base_target(n, regions=base_regions, shared=True)
        t["threads"].append({"mode": "heartbeat"})
        t["threads"][0]["words"] = [[16, {"region": "code", "off": 200}]]
        t.update(kw)
        return t
    # same options, several dumps
    for n, k in [(1, 2), (3, 3), (2, 5)]:
        scns.append({"id": f"reuse/same{n}x{k}", "target": tgt(n), "writer": {"blamed": "main", "app_memory": [{"addr": {"region": "app0"}, "len": 3000}]}, "history": [{"op": "dump"}] * k})
    # crash context on the first dump only; blamed thread exits between dumps
    hb = 2
    # the blamed thread of the second dump is a sandbox thread (alive, but never listed): no context may be carried over
    t2 = tgt(2)
    t2["threads"].append({"mode": "rsp0"})
    scns.append({"id": "reuse/blamed-unlisted", "target": t2, "writer": {"blamed": {"slot": 0}}, "history": [{"op": "dump"}, {"op": "set", "writer": {"blamed": {"slot": 3}}}, {"op": "dump"}]})
    scns.append({"id": "reuse/ctx-then-none", "target": tgt(2), "writer": {"blamed": {"slot": 0}, "crash_context": {"sp": {"thread_sp": 0}, "ip": {"region": "code", "off": 500}}},
                 "history": [{"op": "dump"}, {"op": "set", "writer": {"crash_context": None}}, {"op": "dump"}]})
    # app memory changed between dumps
    scns.append({"id": "reuse/app-moves", "target": tgt(1), "writer": {"blamed": "main", "app_memory": [{"addr": {"region": "app0"}, "len": 3000}]},
                 "history": [{"op": "dump"}, {"op": "set", "writer": {"app_memory": [{"addr": {"region": "app1"}, "len": 64}]}}, {"op": "dump"}, {"op": "set", "writer": {"app_memory": []}}, {"op": "dump"}]})
    # a dump that FAILS part-way (an application region that cannot be read; the destination failing at some call), then the
    # configuration is repaired and the same writer is used again: nothing of the failed attempt may show up
    scns.append({"id": "reuse/after-bad-app-memory", "target": tgt(2), "writer": {"blamed": "main", "app_memory": [{"addr": {"region": "app0"}, "len": 3000}, {"addr": "0x10", "len": 64}]},
                 "history": [{"op": "dump", "expect": "err"}, {"op": "set", "writer": {"app_memory": [{"addr": {"region": "app1"}, "len": 64}]}}, {"op": "dump"}, {"op": "dump"}]})
    t3 = tgt(2)
    t3["threads"].append({"mode": "rsp0"})
    scns.append({"id": "reuse/after-bad-app-memory/blamed-unlisted", "target": t3, "writer": {"blamed": {"slot": 0}, "app_memory": [{"addr": "0x10", "len": 64}]},
                 "history": [{"op": "dump", "expect": "err"}, {"op": "set", "writer": {"app_memory": [], "blamed": {"slot": 3}}}, {"op": "dump"}]})
    for kf in (12, 30, 60):
        scns.append({"id": f"reuse/after-destination-failure@{kf}", "target": tgt(2), "writer": {"blamed": {"slot": 0}, "crash_context": {"sp": {"thread_sp": 0}, "ip": {"region": "code", "off": 300}},
                                                                                                  "app_memory": [{"addr": {"region": "app0"}, "len": 3000}]},
                     "history": [{"op": "dump", "dest_fail_at": kf, "expect": "err"}, {"op": "set", "writer": {"app_memory": [], "crash_context": None}}, {"op": "dump"}]})
    # options that stay configured must be honoured by every dump: the caller's entry address (module order), the caller's mappings
    scns.append({"id": "reuse/direct-entry", "target": tgt(1), "writer": {"blamed": "main", "direct_auxv": {"entry": {"module": "libc.so.6", "off": 0x100}}}, "history": [{"op": "dump"}] * 3})
    scns.append({"id": "reuse/user-mappings", "target": tgt(1), "writer": {"blamed": "main", "user_mappings": [{"start": {"region_map": "code"}, "size": 8192, "name": "/user/lib code.so", "id_hex": "00112233445566778899aabbccddeeff"}]},
                 "history": [{"op": "dump"}] * 3})
    # a size limit that a fresh writer just does not reach (no stack is shortened), and one it does reach, on a writer that is used
    # again and again for a target with more than 20 threads: the limit is the caller's, every dump decides by the same number
    nthr = 30 + 2
    fresh_estimate = 252 + 48 * nthr + nthr * 8192 + 65536
    for nm, lim in (("just-not-reached", fresh_estimate + 16384), ("reached", fresh_estimate - 50000)):
        scns.append({"id": f"reuse/size-limit-{nm}", "target": tgt(30), "writer": {"blamed": "main", "size_limit": lim}, "history": [{"op": "dump"}] * 4})
    # principal mapping given, then withdrawn
    scns.append({"id": "reuse/principal-withdrawn", "target": tgt(2), "writer": {"blamed": "main", "skip": True, "principal": {"region": "code", "off": 64}},
                 "history": [{"op": "dump"}, {"op": "set", "writer": {"principal": "unset"}}, {"op": "dump"}]})
    scns.append({"id": "reuse/principal-unresolvable-later", "target": tgt(2), "writer": {"blamed": "main", "skip": True, "principal": {"region": "code", "off": 64}},
                 "history": [{"op": "dump"}, {"op": "set", "writer": {"principal": "0x30"}}, {"op": "dump"}]})
    for k in range(3 if quick else 40):
        n = rnd.randrange(1, 6)
        hist = []
        for j in range(rnd.randrange(2, 6)):
            if j and rnd.random() < 0.5:
                hist.append({"op": "set", "writer": {"app_memory": [{"addr": {"region": rnd.choice(["app0", "app1"])}, "len": 64}] if rnd.random() < 0.5 else []}})
            hist.append({"op": "dump"})
        scns.append({"id": f"reuse/rand{k}", "target": tgt(n), "writer": {"blamed": rnd.choice(["main", {"slot": 0}]), "sanitize": rnd.random() < 0.5}, "history": hist})
    return scns


def c19(ck):
    quick = ck.tier == "quick"
    util.mc_design(ck, "DumpSeq", "MC_DumpSeq_reuse", "two dumps on one writer, each with its own thread list / app regions; invariants C01, C11, C19 (NoCarryOver)", workers=8, coverage=True)
    scns = _reuse_scenarios(quick, ck.seed)
    runs = dumps.run_scenarios(ck, scns, "c19")
    evs, sevs = [], []
    for r in runs:
        cur = dict(r["scn"].get("writer", {}))
        di = 0
        for step in r["scn"].get("history", [{"op": "dump"}]):
            if step["op"] == "set":
                cur.update(step["writer"])
            elif step["op"] == "dump":
                if di < len(r["dumps"]):
                    d = r["dumps"][di]
                    ev = dumps.c19_event(r, d, cur)
                    ev["expectErr"] = step.get("expect") == "err"
                    evs.append(ev)
                    if not ev["expectErr"]:
                        sevs.append(dumps.c01_event(dict(r, scn=dict(r["scn"], writer=cur)), d))
                else:
                    evs.append(dumps.c19_event(r, {"outcome": r["end"]["worker"] if r["end"] else "?", "dump_no": di + 1}, cur))
                di += 1
    out = os.path.join(ck.work, "c19.ndjson")
    core.export_lines(evs, out)

    def describe(hist, tag):
        e = hist[-1]
        return ({"tag": tag}, f"dump #{e['dumpNo']} of history {e['origin']} differs from a fresh writer's ({tag}): memory list {e['memCount']} regions (expected {e['expMem']}, bytes ok: {e['memOk']}), "
                              f"exception context rva {e['excCtxRva']} size {e['excCtxSize']} vs blamed thread's {e['blamedCtxRva']} (listed: {e['blamedListed']}), stacks {e['nStacks']}")
    v = util.judge_batch(ck, "Trace_Reuse", out, "histories of 2..5 dumps on one MinidumpWriter (options and target changed between dumps)", "DumpSeq", describe, traces=len(runs))
    sout = os.path.join(ck.work, "c19_structure.ndjson")
    core.export_lines(sevs, sout)
    util.judge_batch(ck, "Trace_Structure", sout, "structure of every image of the histories", "DumpSeq",
                     lambda hist, tag: ({"tag": tag + "/reused-writer" if hist[-1].get("dump_no", 1) > 1 else tag}, f"image #{hist[-1].get('dump_no')} of {hist[-1]['origin']} is not structurally sound: {hist[-1].get('errs')}"), traces=len(sevs))
    if v.get("later", 0) == 0:
        raise core.ToolError("vacuous: no second dump was taken")
    ck.cov["distinct_nontrivial"] = v.get("later", 0)
    ck.cov["rule"] = "one case = the k-th dump (k >= 2) of a history on one writer; histories are distinct by construction / seeded"
    ck.cov["decided_by"] = {"region counts, context identity, stack filtering": "spec", "region bytes vs target memory": "comparator"}
    ck.sample({"c19_event": evs[1]})
    return runs


# ------------------------------------------------------------------------------------------ C04 .. C07, C20
from . import threads as th_proj


def _judge_threads(ck, evs, name, what, jobs=4):
    out = os.path.join(ck.work, f"{name}.ndjson")
    core.export_lines(evs, out)

    def describe(hist, tag):
        e = hist[-1]
        brief = {k: v for k, v in e.items() if k not in ("ctx", "regs", "supplied", "exc", "blamedCtx", "blamedRegs", "maps")}
        extra = ""
        if e["ev"] == "c04t":
            bad = [f for f in e["ctx"] if f in e["regs"] and e["ctx"][f][:1 if f in ("cs", "ds", "es", "fs", "gs", "ss") else 4] != e["regs"][f][:1 if f in ("cs", "ds", "es", "fs", "gs", "ss") else 4] and f != "eflags"]
            extra = f" fields differing from the same-named register: {bad[:6]}"
        if e["ev"] == "c05" and e.get("withCtx") and "ctx" in e["exc"]:
            s, c = e["supplied"], e["exc"]["ctx"]
            bad = [f for f in c if f in s and c[f] != s[f]]
            extra = f" context fields differing from the supplied register of the same name: {bad[:8]}; cs/gs/fs {c.get('cs')},{c.get('gs')},{c.get('fs')} vs csgsfs {s.get('csgsfs')}"
        return ({"tag": tag}, f"{tag} in {e.get('origin')}: {json.dumps(brief)[:500]}{extra}")
    return util.judge_parallel(ck, "Trace_Threads", out, what, "ThreadList", describe, jobs=jobs, traces=len(evs))


def _reg_targets(quick, seed):
    import random
    rnd = random.Random(seed)
    scns = []
    for k, n in enumerate([1, 2, 5, 21, 64] if quick else [1, 2, 3, 5, 8, 13, 21, 34, 64] * 4):
        threads = [{"mode": "pause", "stack_pages": rnd.choice([1, 2, 3]), "sp_off": rnd.randrange(0, 4096), "seed": 1000 * k + i + 1} for i in range(n - 1)]
        if n >= 5:
            threads[1]["mode"] = "rsp0"
            threads[3]["mode"] = "rsp0"
        scns.append({"id": f"regs/n{n}/{k}", "target": {"threads": threads}, "writer": {"blamed": "main"}, "want_regs": True})
    # a crash context whose own thread id field does not name the blamed thread (another thread / nobody / zero): the writer goes by
    # the blamed thread; every other thread keeps its own registers
    for k, ctid in enumerate([{"slot": 2}, 0, 999999, "main"]):
        threads = [{"mode": "pause", "stack_pages": 2, "sp_off": 300 + 64 * i, "seed": 7000 + 10 * k + i} for i in range(4)]
        scns.append({"id": f"regs/ctx-tid/{k}", "target": {"threads": threads, "regions": [{"name": "code", "len": 4096, "exec": True}]}, "want_regs": True,
                     "writer": {"blamed": {"slot": 0}, "crash_context": {"sp": {"thread_sp": 0}, "ip": {"region": "code", "off": 64}, "tid": ctid, "gregs_seed": 4242 + k}}})
    return scns


def status_part(ck, quick):
    """Thread info under generated /proc/<tid>/status contents (worker in a private mount namespace)."""
    util.mc_design(ck, "MC_StatusFile", "MC_StatusFile", "get_ppid_and_tgid transcribed over every status file of <= 4 lines (Tgid / PPid / Name / Uid lines with a pid, zero, text or nothing; a line shorter than the key); "
                   "invariants LoopIsParse, KernelFilesAccepted; liveness Terminates", workers=8, coverage=True, timeout=900)
    exp = core.run_tlc("MC_StatusFile", "MC_StatusFile_export", workers=4, timeout=600)
    cases = exp["printed"].get("REPLAY", [])
    if not cases:
        raise core.ToolError("MC_StatusFile exported no cases")
    import random
    rnd = random.Random(ck.seed)
    good = [c for c in cases if c["want"]["ok"]]
    bad = [c for c in cases if not c["want"]["ok"]]
    n = 40 if quick else 400
    chosen = rnd.sample(good, min(n, len(good))) + rnd.sample(bad, min(n, len(bad)))

    def text(lines):
        return ("".join((f"{ln['key']}:\t{ln['val']}\n" if ln["kind"] == "kv" else "ab\n") for ln in lines)).encode()
    scns, per = [], 80
    for b in range(0, len(chosen), per):
        hist = []
        for c in chosen[b:b + per]:
            hist += [{"op": "fake", "path": "/proc/{pid}/status", "content_hex": text(c["lines"]).hex()}, {"op": "dump"}]
        scns.append({"id": f"status/{b // per}", "target": dumps.base_target(2), "writer": {"blamed": {"slot": 0}}, "history": hist, "no_oracles": True, "timeout_ms": 120000, "cases": chosen[b:b + per]})
    try:
        runs = dumps.run_scenarios(ck, scns, "c04_status", timeout=3000)
    finally:
        import glob
        for f in glob.glob("/dev/shm/mdw_fake_*"):
            try:
                os.remove(f)
            except OSError:
                pass
    evs, unavailable = [], 0
    for r in runs:
        if any(x.get("ev") == "fake_unavailable" for x in r.get("other", [])):
            unavailable += 1
            continue
        main = r["report"]["pid"]
        for c, d in zip(r["scn"]["cases"], r["dumps"]):
            ths = d.get("streams", {}).get("threads", {}).get("threads", []) if d.get("outcome") == "ok" else []
            evs.append({"ev": "status", "origin": f"{r['id']}#{d.get('dump_no')}", "lines": c["lines"], "outcome": d.get("outcome", "none"),
                        "listedWithContext": any(t["tid"] == main and t.get("ctx_size") == 1232 for t in ths)})
    ck.cov["status_substitution_unavailable"] = unavailable
    if not evs:
        ck.assumptions.append("status-file substitution (unshare + bind mount) was not permitted in this environment: StatusFile is model-checked only")
        return
    out = os.path.join(ck.work, "c04_status.ndjson")
    core.export_lines(evs, out)

    def describe(hist, tag):
        e = hist[-1]
        return ({"tag": tag}, f"{tag} ({e['origin']}): status lines {[(l_.get('key'), l_.get('val')) if l_['kind'] == 'kv' else 'short' for l_ in e['lines']]} -> outcome {e['outcome']}, main thread listed with a context: {e['listedWithContext']}")
    v = util.judge_batch(ck, "Trace_StatusFile", out, "dumps taken while /proc/<pid>/status of the target's main thread shows generated contents (PPid 0, repeated / missing / unparsable id lines, other lines)", "StatusFile", describe, traces=len(evs))
    if v["counts"]["accepted"] == 0 or v["counts"]["rejected"] == 0:
        raise core.ToolError(f"vacuous status part: {v['counts']}")
    ck.cov["status_cases"] = v["counts"]


def c04(ck):
    quick = ck.tier == "quick"
    status_part(ck, quick)
    runs = dumps.run_scenarios(ck, _reg_targets(quick, ck.seed) + dumps.cross_scenarios(quick, ck.seed), "c04_regs")
    evs = [e for r in runs for d in r["dumps"] for e in th_proj.c04_events(r, d)]
    for r in runs:
        if not r["dumps"]:
            evs.append({"ev": "failed", "origin": r["id"]})
    # thread-exit schedules: a thread vanishes between enumeration and attach
    ex = []
    for k in range(3 if quick else 30):
        t = {"shared": True, "threads": [{"mode": "heartbeat"} for _ in range(2 + k % 3)] + [{"mode": "pause", "stack_pages": 1, "sp_off": 800}]}
        ex.append({"id": f"exit/{k}", "target": t, "writer": {"blamed": "main"}, "want_regs": True,
                   "faults": {"failspots": ["StopProcess"], "actions": [{"at": {"hook": "enumerate:done"}, "do": "exit", "slot": k % (2 + k % 3)}]}})
    # a thread that cannot be attached to (held by another tracer / zombie leader) must not affect the others
    for k in range(2 if quick else 12):
        n = 4 + k
        ths = [{"mode": "pause", "stack_pages": 1, "sp_off": 700, "seed": 50 * k + i} for i in range(n)]
        ex.append({"id": f"pretraced/{k}", "target": {"threads": ths}, "writer": {"blamed": "main"}, "want_regs": True, "pretrace_slots": [k % 2, 2]})
        ex.append({"id": f"zombie-leader/{k}", "target": {"threads": ths, "leader_exits": True}, "writer": {"blamed": {"slot": 1}, "stop_timeout_ms": 30}, "want_regs": True})
    # threads whose names the kernel reports but a text reader cannot take (bytes that are not UTF-8), or cannot read at all (the read is
    # made to fail): the NAME is a best-effort datum, the THREAD is there, attached and listed with its registers like any other
    for k in range(2 if quick else 8):
        ths = [{"mode": "pause", "stack_pages": 1, "sp_off": 700, "seed": 70 * k + i, "name_hex": [b"caf\xe9-w\xf6rker", b"plain", b"\xff\xfe", b"ok"][(i + k) % 4].hex()} for i in range(3 + k)]
        ex.append({"id": f"unreadable-name/{k}", "target": {"threads": ths}, "writer": {"blamed": "main" if k % 2 else {"slot": 0}}, "want_regs": True,
                   "faults": {"name_fail": [{"slot": 1}] if k % 2 else []}})
    runs2 = dumps.run_scenarios(ck, ex, "c04_exit")
    evs += [e for r in runs2 for d in r["dumps"] for e in th_proj.c04_events(r, d)]
    # snapshot consistency under running threads: spinners, process not group-stopped (threads are stopped one by one by attach)
    sp = []
    for k in range(4 if quick else 60):
        n = 1 + k % 3
        threads = [{"mode": "spin", "stack_pages": 1, "sp_off": 2048, "spin_word": f"cnt{i}"} for i in range(n)] + [{"mode": "pause", "stack_pages": 1, "sp_off": 900}]
        regions = [{"name": f"cnt{i}", "len": 8, "lead": 8 * i} for i in range(n)]
        sp.append({"id": f"spin/{k}", "target": {"threads": threads, "regions": regions}, "want_stacks": True,
                   "writer": {"blamed": "main", "app_memory": [{"addr": {"region": f"cnt{i}"}, "len": 8} for i in range(n)]},
                   "faults": {"failspots": ["StopProcess"] if k % 2 == 0 else []}})
    runs3 = dumps.run_scenarios(ck, sp, "c04_spin")
    evs += [e for r in runs3 for d in r["dumps"] for e in th_proj.c04_spin_events(r, d)]
    evs += [e for r in runs for d in r["dumps"] for e in th_proj.c04_spin_events(r, d) if e["ev"] == "c04o"]
    mc = core.mc_or_die("Ptrace", "MC_Ptrace", workers=6, timeout=2400)
    ck.add_mc(mc, "tracer/kernel/target model: invariants C04_NoRunBetweenCaptures, C04_ListedOnce, C04_SandboxOmitted (with the C03 invariants) for every interleaving of 3 threads, signals, exits and failures")
    v = _judge_threads(ck, evs, "c04", "contexts of listed threads of 1..64-thread targets vs registers read by the harness's own PTRACE_GETREGS/GETFPREGS/PEEKUSER; completeness of the list incl. sandbox (rsp==0) threads and threads exiting between enumeration and attach")
    if v["counts"]["c04t"] == 0:
        raise core.ToolError("vacuous: no thread context was compared")
    ck.cov["distinct_nontrivial"] = v["counts"]["c04t"]
    ck.cov["rule"] = "one case = one listed parked thread whose context was compared field by field (each thread loads distinct sentinels into 12 GPRs and xmm0-15); plus one completeness case per dump"
    ck.cov["decided_by"] = {"field map ptrace -> context with truncations, list completeness": "spec", "reading the true registers": "harness ptrace oracle after the dump (threads parked in pause)"}
    ck.sample({"c04l": next(e for e in evs if e["ev"] == "c04l")})
    ck.assumptions += ["x86-64 only", "registers of a thread parked in a raw pause() syscall do not change between the dump and the oracle read",
                       "snapshot consistency under running threads (spinner targets) and the ordering suspend < reads < resume are checked by the C03 schedules, see DESIGN 4/C04"]
    return runs


# every signal that carries an address or is a usual crash reason (incl. SIGSYS, whose siginfo has a second address), then the rest
SIGNOS = [31, 11, 7, 4, 8, 5, 6, 3] + [s for s in range(1, 65) if s not in (31, 11, 7, 4, 8, 5, 6, 3, 32, 33)]


# (signal, code) pairs: the kernel-defined codes of the signals whose siginfo has extra address-like fields first (SIGSYS/SYS_SECCOMP,
# SIGSEGV/SEGV_*, SIGBUS/BUS_*, SIGILL, SIGFPE, SIGTRAP), then user-sent codes (SI_USER 0, SI_QUEUE -1, SI_TKILL -6, SI_KERNEL 128), then every other signal
SIGPAIRS = ([(31, 1), (11, 1), (11, 2), (7, 1), (7, 2), (7, 3), (4, 1), (8, 1), (5, 1), (5, 2), (31, 0), (31, -6), (11, 128), (6, -6), (3, 0), (11, 3), (11, 4), (7, 4), (7, 5)]
            + [(s_, c_) for s_ in SIGNOS for c_ in (0, -1) if s_ not in (31, 11, 7, 4, 8, 5)])


def _ctx_scenarios(quick, seed):
    import random
    rnd = random.Random(seed)
    scns = []
    for k in range(12 if quick else 300):
        n = rnd.choice([1, 2, 4])
        tgt = dumps.base_target(n, regions=[{"name": "code", "len": 8192, "exec": True, "below": "mapped"}])
        blamed = rnd.choice(["main"] + [{"slot": i} for i in range(n)])
        w = {"blamed": blamed}
        if k % 3 != 2:
            sp = {"thread_sp": blamed["slot"]} if isinstance(blamed, dict) else {"thread_sp": 0}
            w["crash_context"] = {"sp": sp, "ip": {"region": "code", "off": rnd.randrange(0, 8192)}, "gregs_seed": seed * 1000 + k, "fp_seed": seed * 77 + k,
                                  "siginfo": {"signo": SIGPAIRS[(k - k // 3) % len(SIGPAIRS)][0], "code": SIGPAIRS[(k - k // 3) % len(SIGPAIRS)][1], "addr": hex(rnd.getrandbits(64))}}
        if "crash_context" in w and k % 4 == 1 and n > 1:
            w["crash_context"]["tid"] = [0, {"slot": (blamed["slot"] + 1) % n if isinstance(blamed, dict) else 0}][(k // 4) % 2]
        scns.append({"id": f"ctx/{k}", "target": tgt, "writer": w, "want_regs": True})
    # the blamed thread is alive but NOT in the thread list (it runs without a stack pointer and is skipped at suspend): with a crash
    # context the record still carries the supplied registers, without one there is no context to carry
    for k in range(2 if quick else 10):
        tgt = dumps.base_target(2, regions=[{"name": "code", "len": 8192, "exec": True}])
        tgt["threads"].append({"mode": "rsp0"})
        w = {"blamed": {"slot": 2}}
        if k % 2 == 0:
            w["crash_context"] = {"sp": {"thread_sp": 0}, "ip": {"region": "code", "off": 64 + k}, "gregs_seed": seed * 31 + k, "fp_seed": seed * 37 + k,
                                  "siginfo": {"signo": SIGPAIRS[k % len(SIGPAIRS)][0], "code": SIGPAIRS[k % len(SIGPAIRS)][1], "addr": hex(rnd.getrandbits(64))}}
        scns.append({"id": f"ctx/blamed-unlisted/{k}", "target": tgt, "writer": w, "want_regs": True})
    # ... and the same after a dump on the same writer that failed AFTER the thread list had been written with that thread listed
    for k, ctx in enumerate([True, False]):
        tgt = dumps.base_target(2, regions=[{"name": "code", "len": 8192, "exec": True}])
        tgt["threads"].append({"mode": "rsp0"})
        cc = {"sp": {"thread_sp": 0}, "ip": {"region": "code", "off": 200}, "gregs_seed": seed * 41 + k, "fp_seed": seed * 43 + k, "siginfo": {"signo": 11, "code": 1, "addr": "0x5150"}}
        w = {"blamed": {"slot": 0}, "app_memory": [{"addr": "0x10", "len": 64}]}
        if ctx:
            w["crash_context"] = cc
        scns.append({"id": f"ctx/after-failed-dump/{'ctx' if ctx else 'noctx'}", "target": tgt, "writer": w, "want_regs": True,
                     "history": [{"op": "dump", "expect": "err"}, {"op": "set", "writer": {"app_memory": [], "blamed": {"slot": 2}}}, {"op": "dump"}]})
    return scns


def c05(ck):
    quick = ck.tier == "quick"
    mc = core.mc_or_die("DumpSeq", "MC_DumpSeq_fresh", workers=8, timeout=1500)
    ck.add_mc(mc, "pipeline model: the exception stream's context location is the blamed thread's context of this image (C01 alias clause, C19)")
    runs = dumps.run_scenarios(ck, _ctx_scenarios(quick, ck.seed) + dumps.cross_scenarios(quick, ck.seed), "c05")
    evs = [th_proj.c05_event(r, d) for r in runs for d in r["dumps"]]
    evs += [{"ev": "failed", "origin": r["id"]} for r in runs if not r["dumps"]]
    v = _judge_threads(ck, evs, "c05", "exception stream and blamed-thread context vs the supplied ucontext/fpstate/siginfo (every field distinct), and the dump-requested record without a crash context")
    if v["counts"]["c05"] == 0:
        raise core.ToolError("vacuous: no exception stream judged")
    ck.cov["distinct_nontrivial"] = v["counts"]["c05"]
    ck.cov["rule"] = "one case = one dump with a generated crash context (all 23 gregs, fp state, siginfo derived from a seed, all distinct) or without one; blamed thread = main or any other thread"
    ck.cov["decided_by"] = {"field map ucontext -> context (incl. REG_CSGSFS unpacking, truncations), record fields, context identity": "spec"}
    ck.sample({"c05": {k: v for k, v in next(e for e in evs if e["ev"] == "c05" and e["withCtx"]).items() if k not in ("supplied", "exc", "blamedCtx")}})
    ck.assumptions += ["x86-64 ucontext layout (crash-context crate)", "a blamed thread that does not exist makes the required memory-info stream fail, so 'absent' is only reachable as 'not listed' (sandbox thread), covered by C19"]
    return runs


def _stack_scenarios(quick, seed):
    import random
    rnd = random.Random(seed)
    scns = []
    # (a) no limit: SP at many in-page offsets, stacks of 1..4 pages, every neighbour kind, SP in the guard page / hole below the stack
    offs = [0, 1, 7, 8, 2047, 2048, 2049, 4088, 4095] + [rnd.randrange(0, 4096) for _ in range(6 if quick else 60)]
    threads = []
    for i, o in enumerate(offs):
        pages = 1 + i % 4
        threads.append({"mode": "pause", "stack_pages": pages, "sp_off": (i % pages) * 4096 + o if pages > 1 else o, "below": ["guard", "hole", "mapped"][i % 3]})
    threads.append({"mode": "pause", "stack_pages": 2, "sp_abs_below": 24, "below": "guard"})
    threads.append({"mode": "pause", "stack_pages": 2, "sp_abs_below": 2000, "below": "hole"})
    scns.append({"id": "stack/nolimit", "target": {"threads": threads}, "writer": {"blamed": "main"}})
    # (a') stacks and other mappings BELOW the executable (fixed low addresses): the dumper's mapping list is then not in address
    #      order (the entry-point mapping is moved to its front)
    threads = [{"mode": "pause", "stack_pages": 2 + i, "sp_off": 1000 + 700 * i, "below": ["guard", "hole", "mapped"][i % 3], "low_addr": 0x10000000 + 0x100000 * i} for i in range(4)]
    threads.append({"mode": "pause", "stack_pages": 2, "sp_abs_below": 24, "below": "guard", "low_addr": 0x20000000})
    threads += [{"mode": "pause", "stack_pages": 1, "sp_off": 500}]
    scns.append({"id": "stack/low-mappings", "target": {"threads": threads, "regions": [{"name": "lowdata", "len": 8192, "low_addr": 0x8000000}]}, "writer": {"blamed": {"slot": 1}, "crash_context": {"sp": {"thread_sp": 1}, "ip": "0x1000"}}})
    # (b) size limit around the estimate threshold, 24..64 threads, SP offsets on both sides of 2048
    for k, (n, lim) in enumerate([(24, 1000), (24, 10**9), (40, 300000), (64, 5000)] if quick else [(n, l) for n in (21, 24, 33, 64) for l in (1000, 200000, 262000, 263000, 330000, 10**9)]):
        threads = [{"mode": "pause", "stack_pages": 1 + (i % 3), "sp_off": [100, 2047, 2048, 3000, 4000, 1024, 2500][i % 7] + 4096 * (i % (1 + i % 3))} for i in range(n - 1)]
        # among the threads that get shortened: stack pointers BELOW the stack mapping (in its guard page / a hole), on both sides of the chunk boundary
        for j, (ab, bl) in enumerate([(24, "guard"), (3000, "guard"), (2048, "hole"), (2040, "guard")]):
            threads[n - 2 - j if j else n - 2] = {"mode": "pause", "stack_pages": 2, "sp_abs_below": ab, "below": bl}
        w = {"blamed": {"slot": n - 8}, "size_limit": lim}
        if k % 2 == 0:
            w["crash_context"] = {"sp": {"thread_sp": n - 8}, "ip": "0x1000"}
        scns.append({"id": f"stack/limit{lim}/n{n}", "target": {"threads": threads}, "writer": w})
    return scns


def c06(ck):
    quick = ck.tier == "quick"
    util.mc_design(ck, "MC_StackSel", "MC_StackSel_C06", "get_stack_info walk + size limit + skip rule for one thread: SP at every offset of 4 layouts, list positions 19/20, limit on/off, crash thread or not; invariants C06, WalkIsFunction, WalkBounded; liveness Terminates", workers=8)
    util.apalache_inductive(ck, "StackLimitAp", "the size-limited branch of fill_thread_stack over unbounded integers (any region, stack pointer and cap): the kept region lies in the one found, respects the cap and contains the stack pointer whenever the region found did",
                            obligations=[("Init", "C06_Limited", 0)])
    runs = dumps.run_scenarios(ck, _stack_scenarios(quick, ck.seed) + dumps.cross_scenarios(quick, ck.seed), "c06")
    evs = [e for r in runs for d in r["dumps"] for e in th_proj.c06_events(r, d)]
    evs += [{"ev": "failed", "origin": r["id"]} for r in runs if not r["dumps"] or r["dumps"][0]["outcome"] != "ok"]
    v = _judge_threads(ck, evs, "c06", "captured stack regions of 20..64-thread targets (SP at chosen in-page offsets incl. 2047/2048/2049, in guard pages and holes; size limits around the estimate threshold) vs the stack pointer, the containing mapping and target memory")
    if v["counts"]["c06t"] == 0 or v["counts"]["shortened"] == 0:
        raise core.ToolError(f"vacuous: {v['counts']}")
    ck.cov["distinct_nontrivial"] = v["counts"]["c06t"]
    ck.cov["shortened_regions"] = v["counts"]["shortened"]
    ck.cov["rule"] = "one case = one listed thread of one dump (its SP offset, stack size, neighbours, list position, limit); counted when judged"
    ck.cov["decided_by"] = {"region start/length vs SP, page, mapping end, limit rule, guard walk": "spec", "bytes from SP upward vs /proc/<pid>/mem": "comparator"}
    ck.sample({"c06t": next(e for e in evs if e["ev"] == "c06t" and e["limited"] and e["idx"] >= 20)})
    ck.assumptions += ["the mappings StackSel sees are the /proc/<pid>/maps lines around the stack pointer (thread stacks are private anonymous mappings with PROT_NONE neighbours, which the aggregator never merges)"]
    return runs


def _skip_scenarios(quick, seed):
    import random
    rnd = random.Random(seed)
    scns = []
    vals = [("low-1", -1), ("low", 0), ("mid", 100), ("high-1", None), ("high", "end"), ("high+8", "end+8")]
    for k in range(4 if quick else 60):
        threads = []
        for i in range(10):
            t = {"mode": "pause", "stack_pages": 1 + i % 2, "sp_off": rnd.choice([0, 5, 8, 100, 2045])}
            kind = rnd.choice(["none", "aligned", "unaligned", "below_sp", "edge"])
            if kind == "aligned":
                t["words"] = [[8 * rnd.randrange(0, 20), {"region": "prin", "off": rnd.randrange(0, 8192)}]]
            elif kind == "unaligned":
                t["words"] = [[8 * rnd.randrange(0, 20) + rnd.choice([1, 3, 4, 7]), {"region": "prin", "off": 64}]]
            elif kind == "below_sp":
                t["words"] = [[-8 * rnd.randrange(1, 4), {"region": "prin", "off": 64}]]
            elif kind == "edge":
                name, off = rnd.choice(vals)
                spec = {"region_map": "prin", "off": off} if isinstance(off, int) else ({"region_map_end": "prin", "off": -8 if off is None else (0 if off == "end" else 8)})
                if off is None:
                    spec = {"region_map_end": "prin", "off": -1}
                t["words"] = [[8 * rnd.randrange(0, 6), spec]]
            threads.append(t)
        threads += [{"mode": "pause", "stack_pages": 1, "sp_off": 1024, "words": [[0, {"region": "prin", "off": 8}]]},       # the word AT the stack pointer
                    {"mode": "pause", "stack_pages": 1, "sp_off": 1024, "words": [[-8, {"region": "prin", "off": 8}]]},      # one word below it
                    {"mode": "pause", "stack_pages": 1, "sp_off": 1027, "words": [[5, {"region": "prin", "off": 8}]]},       # first aligned word above an unaligned SP
                    {"mode": "pause", "stack_pages": 1, "sp_off": 4088, "words": [[0, {"region": "prin", "off": 8}]]}]       # the last word of the stack
        tgt = {"threads": threads, "regions": [{"name": "prin", "len": 8192, "exec": True}]}
        w = {"blamed": {"slot": 0}, "skip": True, "principal": {"region": "prin", "off": rnd.randrange(0, 8192)}}
        if k % 2 == 0:
            w["crash_context"] = {"sp": {"thread_sp": 0}, "ip": rnd.choice([{"region_map": "prin", "off": 0}, {"region_map_end": "prin", "off": 0}, {"region_map_end": "prin", "off": -1}, "0x5000"])}
        scns.append({"id": f"skip/{k}", "target": tgt, "writer": w})
    # skip-if-unreferenced together with a size limit (stacks of threads 20.. are shortened to the 2 KiB chunk holding the stack
    # pointer before they are scanned): references and non-references close above stack pointers on both sides of the chunk boundary
    for lim, san in ([(1000, False), (300000, True)] if quick else [(l, s_) for l in (1000, 200000, 300000, 10**9) for s_ in (False, True)]):
        threads = []
        for i in range(30):
            t = {"mode": "pause", "stack_pages": 1 + i % 2, "sp_off": [0x100, 0x900, 0xb00, 0x700, 0x800][i % 5] + 4096 * (i % 2)}
            if i % 3 != 2:
                t["words"] = [[0x40, {"region": "prin", "off": 64 + 8 * i}]]
            threads.append(t)
        w = {"blamed": {"slot": 1}, "skip": True, "principal": {"region": "prin", "off": 4000}, "size_limit": lim, "sanitize": san}
        scns.append({"id": f"skip/limit{lim}/{'sanitize' if san else 'plain'}", "target": {"threads": threads, "regions": [{"name": "prin", "len": 8192, "exec": True}]}, "writer": w})
    # the principal mapping is DATA (not executable) and stacks are sanitised: the reference test is about the target's stack, not
    # about the copy after pointers into non-executable mappings have been defaced
    for san in (True, False):
        threads = []
        for i in range(8):
            t = {"mode": "pause", "stack_pages": 1 + i % 2, "sp_off": [0x100, 0x900, 0x7f8][i % 3]}
            if i % 2 == 0:
                t["words"] = [[8 * (i % 5), {"region": "prin", "off": 128 + 8 * i}]]
            threads.append(t)
        w = {"blamed": {"slot": 0}, "skip": True, "principal": {"region": "prin", "off": 40}, "sanitize": san, "crash_context": {"sp": {"thread_sp": 0}, "ip": "0x5000"}}
        scns.append({"id": f"skip/data-principal/{'sanitize' if san else 'plain'}", "target": {"threads": threads, "regions": [{"name": "prin", "len": 8192, "exec": False}]}, "writer": w})
    scns.append({"id": "skip/no-mapping", "target": dumps.base_target(3), "writer": {"blamed": "main", "skip": True, "principal": "0x6000"}})
    return scns


def c20(ck):
    quick = ck.tier == "quick"
    util.mc_design(ck, "MC_StackSel", "MC_StackSel_C20", "skip rule in the StackSel model: IP and stack words at {low-1, low, high-1, high, high+1}; invariant C20 (with C06 and the walk)", workers=8)
    runs = dumps.run_scenarios(ck, _skip_scenarios(quick, ck.seed) + [s_ for s_ in dumps.cross_scenarios(quick, ck.seed, n=(24 if quick else 240)) if s_["writer"].get("skip")], "c20")
    evs = [e for r in runs for d in r["dumps"] for e in th_proj.c20_events(r, d)]
    evs += [{"ev": "failed", "origin": r["id"]} for r in runs if not r["dumps"] or r["dumps"][0]["outcome"] != "ok"]
    v = _judge_threads(ck, evs, "c20", "which stacks are present under skip-if-unreferenced for threads built holding / not holding a pointer into the principal mapping (aligned, unaligned, below SP, at the mapping's edges), IP inside/outside, with and without crash context; soft-error clause")
    if v["counts"]["excluded"] == 0:
        raise core.ToolError("vacuous: no stack was ever excluded")
    ck.cov["distinct_nontrivial"] = v["counts"]["c20t"]
    ck.cov["excluded_stacks"] = v["counts"]["excluded"]
    ck.cov["rule"] = "one case = one listed thread of a dump with skipping enabled (where its pointer into the principal mapping is, if any); plus one soft-error case per dump"
    ck.cov["decided_by"] = {"inclusion rule on IP and aligned words, soft-error clause": "spec", "reading the thread's live stack words": "harness (/proc/<pid>/mem)"}
    ck.sample({"c20t": next(e for e in evs if e["ev"] == "c20t" and e["words"])})
    return runs


def _mem_scenarios(quick, seed):
    import random
    rnd = random.Random(seed)
    scns = []
    ipoffs = [("start", {"region_map": "code", "off": 0}), ("start+127", {"region_map": "code", "off": 127}), ("start+128", {"region_map": "code", "off": 128}),
              ("end-128", {"region_map_end": "code", "off": -128}), ("end-127", {"region_map_end": "code", "off": -127}), ("end-1", {"region_map_end": "code", "off": -1}),
              ("end", {"region_map_end": "code", "off": 0}), ("outside", "0x7000")]
    for k in range(len(ipoffs) + (4 if quick else 200)):
        nreg = rnd.randrange(0, 4)
        regions = [{"name": f"app{j}", "len": rnd.choice([1, 2, 7, 8, 4095, 4096, 4097, 100000, 1 << 20]), "lead": rnd.randrange(0, 32), "at_end": rnd.random() < 0.5,
                    "above": rnd.choice(["hole", "guard"])} for j in range(nreg)]
        regions.append({"name": "code", "len": rnd.choice([4096, 8192]), "exec": True, "below": rnd.choice(["mapped", "guard", "hole"]), "above": rnd.choice(["mapped", "guard", "hole"])})
        n = rnd.choice([1, 2, 5])
        tgt = dumps.base_target(n, regions=regions)
        w = {"blamed": {"slot": 0}, "app_memory": [{"addr": {"region": f"app{j}"}, "len": regions[j]["len"]} for j in range(nreg)]}
        name, ip = ipoffs[k % len(ipoffs)]
        if k < len(ipoffs) or rnd.random() < 0.7:
            w["crash_context"] = {"sp": {"thread_sp": 0}, "ip": ip}
        scns.append({"id": f"mem/{k}/{name}", "target": tgt, "writer": w})
    # a dump request that fails on an unreadable application region, then a corrected request on the same writer: its memory list is
    # about that request only
    tgt = dumps.base_target(2, regions=[{"name": "app0", "len": 4096, "above": "hole"}, {"name": "code", "len": 4096, "exec": True}])
    scns.append({"id": "mem/retry-after-failed-request", "target": tgt, "writer": {"blamed": "main", "app_memory": [{"addr": {"region": "app0"}, "len": 4096}, {"addr": "0x10", "len": 8}]},
                 "history": [{"op": "dump", "expect": "err"}, {"op": "set", "writer": {"app_memory": [{"addr": {"region": "app0", "off": 1}, "len": 4095}]}}, {"op": "dump"}]})
    # the crash IP close to the end of the readable part of a file mapping that the dumper merges with the inaccessible
    # reservation behind it (one mapping, whose tail cannot be read): the window is what could be read, and says so
    for k, off in enumerate([-16, -128, -129, -1]):
        tgt = dumps.base_target(2, file_maps=[{"path": core.TARGET, "off": 0, "len": 0x2000, "exec": True, "guard_after": 1 + k % 2}])
        w = {"blamed": {"slot": 0}, "crash_context": {"sp": {"thread_sp": 0}, "ip": {"file_map": 0, "off": 0x2000 + off}}}
        scns.append({"id": f"mem/ip-before-reservation/{off}", "target": tgt, "writer": w})
    # the crash IP in a page mapped at address 0 (fewer bytes before it than half the window): the window starts at 0
    for off in (0, 16, 127, 128, 4000):
        tgt = dumps.base_target(2, regions=[{"name": "zero", "page_zero": True, "exec": True}])
        scns.append({"id": f"mem/ip-in-page-zero/{off}", "target": tgt, "writer": {"blamed": {"slot": 0}, "crash_context": {"sp": {"thread_sp": 0}, "ip": hex(off) if off else 0}}})
    # application regions that lie inside a dumped thread stack (a buffer in a live frame), with and without sanitising:
    # the region must still be the target's bytes (the stack copy next to it may have been rewritten)
    for k, san in enumerate([True, False]):
        tgt = dumps.base_target(3, regions=[{"name": "code", "len": 4096, "exec": True}])
        w = {"blamed": {"slot": 0}, "sanitize": san, "app_memory": [{"addr": {"thread_sp": 1, "off": 64}, "len": 256}, {"addr": {"thread_sp": 2, "off": 0}, "len": 8},
                                                                   {"addr": {"thread_sp": 0, "off": 128}, "len": 512}]}
        if k == 0:
            w["crash_context"] = {"sp": {"thread_sp": 0}, "ip": {"region": "code", "off": 100}}
        scns.append({"id": f"mem/in-stack/{'sanitize' if san else 'plain'}", "target": tgt, "writer": w})
    # shortened stacks (size limit, > 20 threads, stack pointers on both sides of the 2 KiB chunk boundary): their regions too
    # must reproduce target memory at the recorded range
    for n, lim in ([(24, 1000), (40, 300000)] if quick else [(n, l) for n in (21, 24, 40, 64) for l in (1000, 200000, 300000)]):
        threads = [{"mode": "pause", "stack_pages": 1 + (i % 3), "sp_off": [100, 2047, 2048, 3000, 4000, 1024, 2500][i % 7] + 4096 * (i % (1 + i % 3))} for i in range(n - 1)]
        regions = [{"name": "app0", "len": 4097, "lead": 3, "above": "hole"}, {"name": "code", "len": 8192, "exec": True, "below": "mapped", "above": "hole"}]
        w = {"blamed": {"slot": n - 3}, "size_limit": lim, "app_memory": [{"addr": {"region": "app0"}, "len": 4097}],
             "crash_context": {"sp": {"thread_sp": n - 3}, "ip": {"region": "code", "off": 300}}}
        scns.append({"id": f"mem/limit{lim}/n{n}", "target": {"threads": threads, "regions": regions}, "writer": w})
    return scns


def c07(ck):
    quick = ck.tier == "quick"
    mc = core.mc_or_die("DumpSeq", "MC_DumpSeq_fresh", workers=8, timeout=1500)
    ck.add_mc(mc, "pipeline model: the memory list holds exactly the stacks and application regions produced in this dump, each naming a blob of this image (C01/C19 clauses about memory descriptors)")
    scns = _mem_scenarios(quick, ck.seed)
    scns += dumps.cross_scenarios(quick, ck.seed)
    runs = dumps.run_scenarios(ck, scns, "c07")
    evs = []
    for r in runs:
        # the writer options in force for each dump of a history
        cur, per_dump = dict(r["scn"].get("writer", {})), []
        for step in r["scn"].get("history", [{"op": "dump"}]):
            if step["op"] == "set":
                cur.update(step["writer"])
            elif step["op"] == "dump":
                per_dump.append((dict(cur), step.get("expect") == "err"))
        for (wopts, expect_err), d in zip(per_dump, r["dumps"]):
            if expect_err:
                continue
            # a region whose tail is unmapped appears with the bytes that could be read (C07 quantifies over readable regions; C10 and C01
            # need the descriptor to say what was written)
            mp = th_proj.parse_maps(d["oracle"]["maps"]) if d.get("outcome") == "ok" else []
            app = [(a0, th_proj.readable_len(mp, a0, a["len"]) if mp else a["len"]) for a in wopts.get("app_memory", []) for a0 in [dumps_resolve(a["addr"], r["report"])]]
            evs.append(th_proj.c07_event(r, d, app))
        if not r["dumps"]:
            evs.append({"ev": "failed", "origin": r["id"]})
    v = _judge_threads(ck, evs, "c07", "memory list of dumps with application regions of length 1 B..1 MiB at arbitrary alignments ending at unmapped pages, every thread stack, and the crash-IP window with the IP at {start, start+127, start+128, end-128, end-127, end-1, end, outside} of an executable mapping with mapped/unmapped neighbours")
    if v["counts"]["c07"] == 0:
        raise core.ToolError("vacuous: no memory list judged")
    ck.cov["distinct_nontrivial"] = v["counts"]["c07"]
    ck.cov["rule"] = "one case = one dump (its application regions, threads and crash IP position); seeded; the 8 IP positions are always included"
    ck.cov["decided_by"] = {"region set (app regions, stacks), IP window clipping arithmetic": "spec", "byte equality of every region with /proc/<pid>/mem": "comparator"}
    ck.sample({"c07": next(e for e in evs if e["ev"] == "c07" and e["ipMapped"])})
    ck.cov["dumps_that_failed"] = sum(1 for e in evs if e["ev"] == "failed")
    return runs


def dumps_resolve(spec, report):
    if isinstance(spec, (int,)):
        return spec
    if isinstance(spec, str):
        return int(spec, 16) if spec.startswith("0x") else int(spec)
    off = spec.get("off", 0)
    if "region" in spec:
        return report["regions"][spec["region"]]["addr"] + off
    if "region_end" in spec:
        return report["regions"][spec["region_end"]]["addr"] + report["regions"][spec["region_end"]]["len"] + off
    if "region_map" in spec:
        return report["regions"][spec["region_map"]]["map_start"] + off
    if "thread_sp" in spec:
        return report["threads"][spec["thread_sp"]]["sp"] + off
    raise KeyError(spec)


# ------------------------------------------------------------------------------------------ C03
def _c03_event(run):
    scn, report, end = run["scn"], run["report"], run["end"]
    after = (end or {}).get("after") or {"tasks": [], "counters": []}
    tasks = {t["tid"]: t for t in after["tasks"]}
    counters = {c["slot"]: c for c in after["counters"]}
    sends = [s for d in run["dumps"] for s in d.get("steps", []) if s.get("k") == "send" and s.get("rc") == 0]
    exits = {s["slot"] for d in run["dumps"] for s in d.get("steps", []) if s.get("k") == "exit" and s.get("gone")}
    # the tracer of each thread at the moment a dump request returned (any of the requests of the scenario)
    atret = {}
    for d in run["dumps"]:
        for x in d.get("at_return", []):
            if x.get("tracer") not in (0, None):
                atret[x["tid"]] = x["tracer"]
    ths = []
    for slot, t in enumerate(report["threads"]):
        task = tasks.get(t["tid"])
        c = counters.get(slot, {})
        ths.append({"slot": slot, "alive": task is not None, "state": (task or {}).get("state", "?"), "tracer": (task or {}).get("tracer", 0), "tracerAtReturn": atret.get(t["tid"], 0),
                    "heartbeat": t["mode"] in ("heartbeat", "vfork"), "hbAdvancing": c.get("heartbeat1", 0) > c.get("heartbeat0", 0),
                    "sentRt": sum(1 for s in sends if s["slot"] == slot and s["sig"] == "rt"), "gotRt": c.get("rt", 0),
                    "sentStd": sum(1 for s in sends if s["slot"] == slot and s["sig"] == "usr1"), "gotStd": c.get("usr1", 0),
                    "exitedByPlan": slot in exits})
    main = tasks.get(report["pid"])
    ths.append({"slot": -1, "alive": main is not None, "state": (main or {}).get("state", "?"), "tracer": (main or {}).get("tracer", 0), "tracerAtReturn": atret.get(report["pid"], 0), "heartbeat": False,
                "hbAdvancing": False, "sentRt": 0, "gotRt": 0, "sentStd": 0, "gotStd": 0, "exitedByPlan": False})
    outcomes = [d.get("outcome") for d in run["dumps"]]
    exp = scn.get("expect", {}).get("outcome", "ok")
    return {"ev": "c03", "origin": run["id"], "worker": (end or {}).get("worker", "?"), "threads": ths, "nsent": len(sends),
            "outcomes": outcomes, "outcomeExpected": all(o == exp for o in outcomes) and len(outcomes) >= 1}


def _c03_scenarios(quick, seed):
    import random
    rnd = random.Random(seed)
    tgt = {"shared": True, "threads": [{"mode": "heartbeat"}, {"mode": "heartbeat"}, {"mode": "pause", "stack_pages": 2, "sp_off": 6000}],
           "regions": [{"name": "app0", "len": 256}]}
    scns = []
    points = [("begin", {"hook": "dump:begin"}), ("attach:before", {"hook": "attach:before", "slot": 0}), ("attach:ok", {"hook": "attach:ok", "slot": 0}),
              ("attach:ok/other", {"hook": "attach:ok", "slot": 1}), ("suspended", {"hook": "suspended"}), ("streams_done", {"hook": "dump:streams_done"}),
              ("resume:begin", {"hook": "resume:begin"}), ("drop:begin", {"hook": "drop:begin"}), ("dest0", {"dest_call": 0}), ("dest20", {"dest_call": 20}), ("dest70", {"dest_call": 70})]
    def mk(name, acts, stopfail=False, **kw):
        f = {"actions": acts}
        if stopfail:
            f["failspots"] = ["StopProcess"]
        f.update(kw.pop("faults", {}))
        s = {"id": name, "target": tgt, "writer": kw.pop("writer", {"blamed": "main", "app_memory": [{"addr": {"region": "app0"}, "len": 256}]}), "faults": f, "observe": True}
        s.update(kw)
        return s
    # one signal at every point x {queued, standard} x {process group-stopped, not stopped}
    for pname, at in points:
        for sig in ("rt", "usr1"):
            for sf in (False, True):
                if quick and sig == "usr1" and sf:
                    continue
                scns.append(mk(f"sig/{pname}/{sig}/{'nostop' if sf else 'stop'}", [{"at": at, "do": "signal", "sig": sig, "to_slot": 0}], stopfail=sf))
    # bursts: several queued signals to both threads at several points
    for k in range(3 if quick else 40):
        acts = [{"at": rnd.choice(points)[1], "do": "signal", "sig": rnd.choice(["rt", "rt", "usr1"]), "to_slot": rnd.randrange(2)} for _ in range(rnd.randrange(2, 7))]
        # at most one action per hook point is run by the plan per dump; that is fine
        scns.append(mk(f"burst/{k}", acts, stopfail=rnd.random() < 0.5))
    # failures at any stage, with a signal in flight
    for k in ([0, 3, 40, 80] if quick else list(range(0, 93, 4))):
        scns.append(mk(f"destfail/{k}", [{"at": {"hook": "suspended"}, "do": "signal", "sig": "rt", "to_slot": 1}], faults={"dest_fail_at": k}, expect={"outcome": "err"}))
    # the caller's destination PANICS at some call: the dump unwinds (no value is returned), the target must be released all the same
    for k in ([0, 3, 40] if quick else list(range(0, 93, 6))):
        scns.append(mk(f"unwind/destination-panics@{k}", [{"at": {"hook": "suspended"}, "do": "signal", "sig": "rt", "to_slot": 0}], faults={"dest_panic_at": k}, expect={"outcome": "panic"}))
    scns.append(mk("hard/app-memory", [{"at": {"hook": "attach:ok", "slot": 1}, "do": "signal", "sig": "rt", "to_slot": 1}],
                   writer={"blamed": "main", "app_memory": [{"addr": "0x10", "len": 64}]}, expect={"outcome": "err"}))
    scns.append(mk("hard/blamed-absent", [{"at": {"hook": "suspended"}, "do": "signal", "sig": "rt", "to_slot": 0}], writer={"blamed": "absent"}, expect={"outcome": "err"}))
    # a thread exits between enumeration and attach (process not group-stopped), with signals to the survivor
    for slot in (0, 1):
        scns.append(mk(f"exit/{slot}", [{"at": {"hook": "enumerate:done"}, "do": "exit", "slot": slot}, {"at": {"hook": "suspended"}, "do": "signal", "sig": "rt", "to_slot": 1 - slot}], stopfail=True))
    # stop_process fails AFTER the SIGSTOP was sent (the leader never shows as stopped: it is a zombie; or a zero timeout)
    zt = dict(tgt, leader_exits=True)
    for k, at in enumerate([{"hook": "suspended"}, {"hook": "attach:ok", "slot": 1}]):
        s = mk(f"stop-timeout/zombie-leader/{k}", [{"at": at, "do": "signal", "sig": "rt", "to_slot": 1}], writer={"blamed": {"slot": 0}, "stop_timeout_ms": 30})
        s["target"] = zt
        scns.append(s)
    scns.append(mk("stop-timeout/zero", [{"at": {"hook": "suspended"}, "do": "signal", "sig": "rt", "to_slot": 0}], writer={"blamed": "main", "stop_timeout_ms": 0}))
    # every enumerated thread is dropped (every thread, the main one included, runs with rsp = 0 like a sandboxed process) while the process
    # lives: the dump goes on without threads, and the process must be running again afterwards
    for k, n in enumerate([1, 3]):
        s = mk(f"all-dropped/{k}", [], writer={"blamed": "main"})       # (no signals: a thread without a stack cannot run a handler)
        s["target"] = {"shared": True, "threads": [{"mode": "rsp0"} for _ in range(n)], "main_rsp0": True}
        scns.append(s)
    # a thread that cannot stop for a while: it sits in vfork() until its child exits (1.5 s).  The attach succeeds, the stop is
    # reported only then; whatever the dump does meanwhile, afterwards nothing may be left attached and the thread runs on
    for k, at in enumerate([{"hook": "suspended"}, {"hook": "attach:ok", "slot": 0}]):
        s = mk(f"slow-stop/vfork/{k}", [{"at": at, "do": "signal", "sig": "rt", "to_slot": 0}], settle_ms=4200)
        s["target"] = {"shared": True, "threads": [{"mode": "heartbeat"}, {"mode": "vfork", "vfork_ms": 3500}, {"mode": "pause", "stack_pages": 2, "sp_off": 6000}], "regions": [{"name": "app0", "len": 256}]}
        scns.append(s)
    # ... and while the dump waits for that thread's stop, the dumping thread itself is interrupted by a handled signal (EINTR)
    s = mk("slow-stop/vfork/interrupted-wait", [], settle_ms=4200, faults={"interrupt_wait": True})
    s["target"] = {"shared": True, "threads": [{"mode": "heartbeat"}, {"mode": "vfork", "vfork_ms": 3500}, {"mode": "pause", "stack_pages": 2, "sp_off": 6000}], "regions": [{"name": "app0", "len": 256}]}
    scns.append(s)
    # two dumps in a row on one writer, signals in between and during
    scns.append(dict(mk("twice", [{"at": {"hook": "suspended"}, "do": "signal", "sig": "rt", "to_slot": 0}]), history=[{"op": "dump"}, {"op": "dump", "actions": [{"at": {"hook": "attach:ok", "slot": 1}, "do": "signal", "sig": "rt", "to_slot": 1}]}]))
    return scns


def c03(ck):
    quick = ck.tier == "quick"
    util.mc_design(ck, "Ptrace", "MC_Ptrace", "tracer/kernel/target model: 3 threads (one sandbox thread), a queued signal per thread sent at any moment, thread exit, stop_process succeeding/failing/timing out, a hard failure at any stream step; invariants NoneLeftAttached, NoDup, NoLoss, C04 schedule invariants; liveness: every thread eventually runs with all signals delivered",
                   workers=6, timeout=2400)
    util.mc_design(ck, "Ptrace", "MC_Ptrace_allsandbox", "the same model with every thread (the leader included) a sandbox thread: all are attached, skipped and dropped, the dump goes on without threads; same invariants and liveness",
                   workers=4, timeout=900)
    util.mc_design(ck, "Ptrace", "MC_Ptrace_slow", "the same model with a thread that sits in vfork() when the dump starts (takes no signal and reports no stop until it wakes, at any moment): the attach is followed by a wait of unknown length; same invariants and liveness",
                   workers=4, timeout=900)
    if not quick:
        util.mc_design(ck, "Ptrace", "MC_Ptrace_slow_thorough", "the same with thread exits, a sandbox thread and two stream steps", workers=6, timeout=1800)
        util.mc_design(ck, "Ptrace", "MC_Ptrace_slow4", "four threads: the leader, one in vfork(), one ordinary, one sandbox thread", workers=6, timeout=1800)
    # (a) the attach race under a signal flood, on the public suspend_thread / resume_thread
    fout = os.path.join(ck.work, "flood.ndjson")
    core.drive("flood", fout, seed=ck.seed, random=3000 if quick else 20000, extra=["--rounds", "2" if quick else "8", "--workdir", ck.work], timeout=2400)
    # (b) environment schedules around full dumps
    runs = dumps.run_scenarios(ck, _c03_scenarios(quick, ck.seed), "c03")
    evs = core.read_ndjson(fout) + [_c03_event(r) for r in runs]
    out = os.path.join(ck.work, "c03.ndjson")
    core.export_lines(evs, out)

    def describe(hist, tag):
        e = hist[-1]
        if e["ev"] == "flood":
            return ({"tag": tag}, f"{e['cycles']} suspend/resume cycles under a flood of {e['sent']} queued signals: delivered {e['delivered']} (undecodable stops: {e['waitErr']}, re-injections: {e['reinjected']}), final state {e['state']} tracer {e['tracer']}")
        bad = [t for t in e["threads"] if t["alive"] and (t["tracer"] != 0 or t.get("tracerAtReturn", 0) != 0 or t["state"] in ("T", "t") or (t["heartbeat"] and not t["hbAdvancing"]) or t["gotRt"] != t["sentRt"])]
        return ({"tag": tag}, f"after schedule {e['origin']} (dump outcomes {e['outcomes']}, worker {e['worker']}): threads {json.dumps(bad)[:400]}")
    v = util.judge_batch(ck, "Trace_Ptrace", out, "end state of the target (/proc State, TracerPid, heartbeats, handler counters) after suspend/resume cycles under a queued-signal flood and after dumps under environment schedules: a signal at each hook point / destination call, bursts, destination failures, hard errors, thread exits, repeated dumps",
                         "Ptrace", describe, traces=len(evs))
    if v.get("signals", 0) == 0:
        raise core.ToolError("vacuous: no signal was sent")
    acc, tot = validate_ptrace_sequences(ck, runs, "the recorded tracer steps (hook events, sends, exits, final observation) of each single-dump schedule as a behaviour of Ptrace, kernel steps inferred", limit=40 if quick else 400)
    if tot == 0:
        raise core.ToolError("vacuous: no tracer-step sequence was validated")
    ck.cov["ptrace_sequences_accepted"] = acc
    ck.cov["distinct_nontrivial"] = len(evs)
    ck.cov["signals_sent"] = v.get("signals", 0)
    ck.cov["rule"] = "one case = one environment schedule around one dump request (or one flood round of thousands of attach cycles); schedules are enumerated (point x signal kind x stop mode, failure index) plus seeded bursts"
    ck.cov["decided_by"] = {"end-state predicate (attached/stopped/running, sent vs delivered)": "spec", "what was delivered": "the target's own handler counters in a shared page; /proc"}
    ck.sample({"c03": evs[5]})
    ck.assumptions += ["signals are placed from hook callbacks that run synchronously in the dumping thread; delivery is observed after the target is quiescent (nothing pending)",
                       "standard (non-queued) signals may coalesce: at least one and at most the number sent must be delivered",
                       "the kernel model of Ptrace.tla is an abstraction; only end-state violations are reported, never a disagreement with the kernel model"]
    return runs


# ------------------------------------------------------------------------------------------ Ptrace sequence validation
def ptrace_seq_events(run, d):
    """One dump's recorded tracer steps as events of Trace_PtraceSeq (None when the scenario uses features the model lacks)."""
    scn, report, end = run["scn"], run["report"], run["end"] or {}
    steps = d.get("steps", [])
    if any(s.get("k") == "send" and s.get("sig") != "rt" for s in steps) or end.get("pretraced") or scn["target"].get("leader_exits"):
        return None
    if any(t.get("mode") == "vfork" and "vfork_ms" not in t for t in scn["target"].get("threads", [])):
        return None          # (a thread that never comes back: finding D22, nothing to validate)
    tids = sorted({report["pid"]} | {t["tid"] for t in report["threads"]})
    tids.remove(report["pid"])
    order = [report["pid"]] + tids
    idx = {t: i + 1 for i, t in enumerate(order)}
    sandbox = [idx[t["tid"]] for t in report["threads"] if t.get("mode") == "rsp0"]
    if scn["target"].get("main_rsp0") and report["pid"] in idx:
        sandbox.append(idx[report["pid"]])
    evs = []
    failspots = scn.get("faults", {}).get("failspots", [])
    pending = None
    phase = "init"
    nstream = 0
    enumerated = []
    skip_detach = set()
    sends = {}
    for s in steps:
        k, p = s.get("k"), s.get("p")
        if k == "send":
            evs.append({"ev": "Send", "t": idx[s["tid"]]})
            sends[s["tid"]] = sends.get(s["tid"], 0) + 1
        elif k == "exit" and s.get("gone"):
            evs.append({"ev": "Exit", "t": idx[s["tid"]]})
        elif k != "hook":
            continue
        elif p == "dump:begin":
            if "StopProcess" in failspots:
                evs += [{"ev": "StopProcess", "ok": False}, {"ev": "Poll", "stopped": False}]
        elif p == "stop_process:sent":
            evs.append({"ev": "StopProcess", "ok": True})
        elif p == "stop_process:stopped":
            evs.append({"ev": "Poll", "stopped": True})
        elif p == "stop_process:timeout":
            evs.append({"ev": "Poll", "stopped": False})
        elif p == "enumerate:entry":
            enumerated.append(idx.get(s["tid"], 0))
        elif p == "enumerate:done":
            evs.append({"ev": "Enumerate", "tids": enumerated})
            phase = "attach"
        elif p == "attach:before":
            if pending is not None:
                evs.append({"ev": "AttachFail", "t": pending})
            pending = idx[s["tid"]]
        elif p == "attach:ok":
            evs.append({"ev": "AttachOk", "t": idx[s["tid"]]})
            pending = None
        elif p == "wait:status":
            evs.append({"ev": "Wait", "t": idx[s["tid"]], "sig": "STOP" if s.get("stopsig") == 19 else "RT"})
        elif p == "skip":
            skip_detach.add(s["tid"])
        elif p == "suspended":
            if pending is not None:
                evs.append({"ev": "AttachFail", "t": pending})
                pending = None
            evs.append({"ev": "Suspended", "n": s["n"]})
            phase = "streams"
        elif p == "flush" and phase == "streams":
            evs.append({"ev": "Stream"})
            nstream += 1
        elif p == "dump:streams_done":
            evs.append({"ev": "StreamsDone"})
            phase = "resume"
        elif p == "drop:begin":
            if phase == "streams":
                evs.append({"ev": "Abort"})
                nstream += 1
            phase = "drop"
        elif p == "detach:before":
            if s["tid"] in skip_detach and phase == "attach":
                skip_detach.discard(s["tid"])
            elif phase in ("resume", "drop"):
                evs.append({"ev": "Detach", "t": idx[s["tid"]]})
        elif p == "resume:end" and phase in ("resume", "drop"):
            evs.append({"ev": "ResumeEnd"})
        elif p == "continue_process":
            evs.append({"ev": "SigCont"})
    if phase != "drop" or not any(e["ev"] == "SigCont" for e in evs):
        return None
    after = end.get("after") or {}
    tasks = {t["tid"]: t for t in after.get("tasks", [])}
    counters = {c["tid"]: c for c in after.get("counters", []) if c.get("tid")}
    n = len(order)
    quiescent = all(str(t.get("sigpnd", "0")).strip("0") == "" for t in after.get("tasks", []))
    evs.append({"ev": "Observe", "quiescent": quiescent, "alive": [t in tasks for t in order], "delivered": [counters.get(t, {}).get("rt", 0) for t in order],
                "tracer": [tasks.get(t, {}).get("tracer", 0) for t in order], "stopped": [tasks.get(t, {}).get("state") in ("T", "t") for t in order]})
    slow = [idx[t["tid"]] for t in report["threads"] if t.get("mode") == "vfork"]      # when they wake is not recorded: inferred (Wake)
    hdr = {"ev": "header", "n": n, "sandbox": sandbox, "slow": slow, "maxsend": max([1] + list(sends.values())), "steps": nstream, "origin": run["id"]}
    return [hdr] + evs


def validate_ptrace_sequences(ck, runs, what, jobs=6, limit=40):
    """Feeds each dump's tracer-step sequence to Trace_PtraceSeq (one TLC process per trace, in parallel).
    A rejection is model drift (the end-state verdict of C03 does not depend on it)."""
    from concurrent.futures import ThreadPoolExecutor
    traces = []
    for r in runs:
        if len(r["dumps"]) != 1:
            continue
        evs = ptrace_seq_events(r, r["dumps"][0])
        if evs:
            tf = os.path.join(ck.work, f"seq_{len(traces)}.ndjson")
            core.export_lines(evs, tf)
            traces.append((r["id"], tf, len(evs)))
    traces = traces[:limit]

    def one(t):
        res = core.run_tlc("Trace_PtraceSeq", "Trace_PtraceSeq", workers=1, timeout=300, env={"TRACE": t[1]}, tag=os.path.basename(t[1]),
                           jvm="-Xss1g -Dtlc2.tool.queue.IStateQueue=StateDeque")
        v = (res["printed"].get("VERDICT") or [None])[-1]
        return t, res, v
    with ThreadPoolExecutor(max_workers=jobs) as ex:
        results = list(ex.map(one, traces))
    accepted = 0
    states = 0
    for (tid, tf, n), res, v in results:
        if res["error"] or v is None:
            raise core.ToolError(f"Trace_PtraceSeq failed on {tf}: {res['error'] or res['raw_tail'][-600:]}")
        states += res["distinct"]
        if v["reached"] == v["events"]:
            accepted += 1
        else:
            ck.drift(f"Trace_PtraceSeq: the recorded tracer steps of {tid} are not a behaviour of Ptrace: first unmatched event #{v['reached'] + 1} {json.dumps(v['firstUnmatched'])}")
    ck.cov["trace_runs"].append({"trace_spec": "Trace_PtraceSeq", "what": what, "traces": len(traces), "accepted": accepted, "tlc_states": states})
    ck.cov["traces_validated_against_impl"] += len(traces)
    return accepted, len(traces)
