"""Properties decided on full dumps of shaped targets: C10 (prefix consistency), C09 on real dumps, ..."""
import itertools
import json
import os
from . import core, util, dumps


def _combo_scenarios(quick):
    combos = [
        {"crash_context": None, "sanitize": False, "skip": False, "size_limit": None},
        {"crash_context": {"sp": {"thread_sp": 0}, "ip": {"region": "code", "off": 300}}, "sanitize": True, "skip": False, "size_limit": None},
    ]
    if not quick:
        for cc, san, skip, lim in itertools.product([False, True], [False, True], [False, True], [None, 150000]):
            combos.append({"crash_context": {"sp": {"thread_sp": 1}, "ip": {"region": "code", "off": 100}} if cc else None,
                           "sanitize": san, "skip": skip, "size_limit": lim, **({"principal": {"region": "code", "off": 64}} if skip else {})})
    scns = []
    for i, c in enumerate(combos):
        tgt = dumps.base_target(3, regions=[{"name": "app0", "len": 3000, "lead": 5, "above": "hole"}, {"name": "code", "len": 8192, "exec": True}])
        w = {"blamed": {"slot": 0} if c["crash_context"] else "main", "app_memory": [{"addr": {"region": "app0"}, "len": 3000}], **c}
        scns.append({"id": f"combo{i}", "target": tgt, "writer": w, "faults": {"start": 5 + 3 * i, "pre_len": 400000 if i % 2 else 0}})
    return scns


def c10(ck):
    quick = ck.tier == "quick"
    util.mc_design(ck, "DirSection", "MC_DirSection_C10", "destination-call-level model of the stream sequence, crash / I/O error between any two calls; invariant C10_PrefixConsistent", coverage=True)
    base = _combo_scenarios(quick)
    # 1. fault-free dumps, the destination decoded after EVERY call
    runs = dumps.run_scenarios(ck, [dict(s, prefixes="all") for s in base], "c10_all")
    out = os.path.join(ck.work, "c10_prefix.ndjson")
    evs, ncalls = [], []
    for r in runs:
        d = r["dumps"][0] if r["dumps"] else None
        if d is None or d["outcome"] != "ok":
            raise core.ToolError(f"C10: fault-free dump of scenario {r['id']} did not succeed: {d and d.get('outcome')} {d and d.get('error')}")
        ncalls.append(d["ncalls"])
        evs += dumps.prefix_events(d, r["id"])
    # 2. one dump per destination call index with that call failing
    faulted = []
    for s, n in zip(base, ncalls):
        ks = range(n) if not quick or n <= 120 else range(0, n)
        for k in ks:
            f = dict(s.get("faults", {}), dest_fail_at=k)
            faulted.append(dict(s, id=f"{s['id']}/fail@{k}", faults=f, prefixes="last", observe=True))
    fr = dumps.run_scenarios(ck, faulted, "c10_fault")
    for r in fr:
        if not r["dumps"]:
            evs.append({"ev": "reset", "origin": r["id"], "outcome": r["end"]["worker"], "injected": True})
            continue
        d = r["dumps"][0]
        e = dumps.prefix_events(d, r["id"])
        e[0]["injected"] = True
        evs += e
    core.export_lines(evs, out)

    def describe(hist, tag):
        e = hist[-1]
        if e["ev"] == "reset":
            return ({"tag": tag}, f"dump with an injected destination failure ({e.get('origin')}) ended with outcome {e.get('outcome')} instead of an error")
        bad = [x for x in e["entries"] if x[0] != 0 and (x[1] + x[2] > e["fileLen"] or x[3] > e["fileLen"])]
        return ({"tag": tag}, f"after destination call #{e['call']} ({e['kind']}) of {hist[0].get('origin')} the destination holds {e['fileLen']} bytes but directory entries {bad[:2]} (type, rva, size, end of referenced data) point beyond them")
    util.judge_parallel(ck, "Trace_Prefix", out, "prefix of the destination after every call of fault-free dumps + final prefix of dumps aborted by an injected failure at each call index", "DirSection", describe, jobs=4)
    ck.cov["distinct_nontrivial"] = sum(ncalls) + len(faulted)
    ck.cov["rule"] = "one case = one boundary between two destination calls of one dump (fault-free: all boundaries decoded; faulted: the call at that index fails); distinct by (option combination, call index)"
    ck.cov["exhaustive"] = True
    ck.cov["decided_by"] = {"presence of header/directory, extents of streams and of what they reference vs. bytes present": "spec", "decoding of the truncated image": "mdparse (independent decoder)"}
    ck.sample({"prefix_event": evs[min(40, len(evs) - 1)]})
    ck.assumptions += ["granularity = the calls the writer makes on the destination (write_all of one slice is one step)", "Linux/x86-64 stream sequence only"]
    return runs, fr


# ------------------------------------------------------------------------------------------ C15
_NAMES = [b"", b"a", b"worker", b"0123456789abcde", "café".encode(), "线程-7".encode(), b"two words", b" lead", b"trail ", b"tab\there",
          "\U0001f600x".encode(), b"\xff\xfe bad", b"\xc3(", b"Web Content"]


def _names_scenarios(quick, seed):
    import random
    rnd = random.Random(seed)
    scns = []
    # every subset of unnamed threads for 1..N listed threads (main thread included in the subset space)
    maxn = 4 if quick else 5
    for n in range(1, maxn + 1):
        for mask in range(1 << n):
            threads = [{"mode": "pause", "stack_pages": 1, "sp_off": 512, "name_hex": _NAMES[(i + mask) % 11].hex()} for i in range(n - 1)]
            fail = [("main" if i == 0 else {"slot": i - 1}) for i in range(n) if mask >> i & 1]
            scns.append({"id": f"names/n{n}/m{mask}", "target": {"threads": threads, "main_name_hex": _NAMES[(mask + 3) % 11].hex()},
                         "writer": {"blamed": "main"}, "faults": {"name_fail": fail}})
    # larger lists, random subsets, all name shapes incl. non-UTF-8 (with a crash context blaming that thread, so that its status file is not parsed)
    for k in range(6 if quick else 60):
        n = rnd.choice([8, 13, 21, 32])
        threads = [{"mode": "pause", "stack_pages": 1, "sp_off": 256, "name_hex": rnd.choice(_NAMES[:11]).hex()} for _ in range(n)]
        fail = [{"slot": i} for i in range(n) if rnd.random() < 0.4]
        scns.append({"id": f"names/rand{k}", "target": {"threads": threads}, "writer": {"blamed": "main"}, "faults": {"name_fail": fail}})
    for k, bad in enumerate(_NAMES[11:13]):
        threads = [{"mode": "pause", "stack_pages": 1, "sp_off": 256, "name_hex": (bad if i == 0 else _NAMES[i % 11]).hex()} for i in range(3)]
        scns.append({"id": f"names/nonutf8-{k}", "target": {"threads": threads, "regions": [{"name": "code", "len": 4096, "exec": True}]},
                     "writer": {"blamed": {"slot": 0}, "crash_context": {"sp": {"thread_sp": 0}, "ip": {"region": "code", "off": 64}}}})
    return scns


def c15(ck):
    quick = ck.tier == "quick"
    util.mc_design(ck, "ThreadNames", "MC_ThreadNames", "thread-name stream placement for every list of <= MaxThreads threads, every named/unnamed subset, name lengths {0,2}; invariant C15", coverage=True)
    scns = _names_scenarios(quick, ck.seed)
    runs = dumps.run_scenarios(ck, scns, "c15")
    evs = [dumps.names_event(r, d) for r in runs for d in r["dumps"]]
    for r in runs:
        if not r["dumps"]:
            evs.append({"ev": "failed", "origin": r["id"], "outcome": r["end"]["worker"] if r["end"] else "?"})
    out = os.path.join(ck.work, "c15_names.ndjson")
    core.export_lines(evs, out)

    def describe(hist, tag):
        e = hist[-1]
        pat = "".join("N" if t["readable"] else "u" for t in e["listed"])
        sig = {"tag": tag}
        if tag == "C15-name-text-differs":
            exp = {t["tid"]: t["name"] for t in e["listed"] if t["readable"]}
            diff = [(bytes.fromhex(exp[n["tid"]]), bytes.fromhex(n["name"])) for n in e["names"] if exp.get(n["tid"]) != n["name"]]
            kind = "trailing-whitespace-trimmed" if diff and all(a.rstrip() == b for a, b in diff) else "other"
            sig["kind"] = kind
            return (sig, f"thread name text differs from the kernel's ({e['origin']}): {diff[:3]}")
        return (sig, f"thread-name stream wrong for thread list pattern {pat} (N = name readable, u = unreadable) in {e['origin']}: entries {json.dumps(e['names'])[:300]}, count {e['count']}")
    v = util.judge_batch(ck, "Trace_ThreadNames", out, "thread-name stream of real dumps vs /proc/<pid>/task/<tid>/comm: every subset of unreadable names for 1..N threads, random subsets for 8..32 threads, names of length 0..15 incl. non-ASCII/whitespace/non-UTF-8",
                         "ThreadNames", describe, traces=len(evs))
    if v.get("mixed", 0) == 0:
        raise core.ToolError("vacuous: no dump had a mix of readable and unreadable names")
    ck.cov["distinct_nontrivial"] = v.get("mixed", 0)
    ck.cov["rule"] = "one case = one dump of a target with a chosen thread list and chosen subset of unreadable names; non-trivial = at least one unreadable name in the list; distinct by (thread count, subset, names)"
    ck.cov["exhaustive"] = True
    ck.cov["decided_by"] = {"set of (tid, name) pairs, uniqueness, slot order": "spec", "UTF-16 decoding of the name strings": "mdparse"}
    ck.sample({"names_event": next(e for e in evs if e["ev"] == "names" and any(not t["readable"] for t in e["listed"]))})
    failed = [e for e in evs if e["ev"] == "failed"]
    ck.cov["dumps_that_failed"] = len(failed)
    ck.assumptions += ["a name is 'readable' when the ThreadName fail point is not toggled for that thread and /proc comm is valid UTF-8",
                       "names compared as bytes of the UTF-8 text; the kernel's final newline is not part of the name"]
    return runs


# ------------------------------------------------------------------------------------------ C01
def _shape_scenarios(n, seed, counts=(1, 2, 5, 21, 64)):
    import random
    rnd = random.Random(seed)
    scns = []
    for k in range(n):
        nt = counts[k % len(counts)] - 1
        threads = []
        for i in range(nt):
            t = {"mode": "pause", "stack_pages": rnd.choice([1, 1, 2, 4]), "sp_off": rnd.randrange(0, 4096)}
            if rnd.random() < 0.8:
                t["name_hex"] = rnd.choice(_NAMES[:11]).hex()
            if rnd.random() < 0.3:
                t["words"] = [[8 * rnd.randrange(0, 8), {"region": "code", "off": rnd.randrange(0, 8192)}]]
            threads.append(t)
        nreg = rnd.randrange(0, 4)
        regions = [{"name": f"app{j}", "len": rnd.choice([1, 7, 100, 4096, 5000, 70000]), "lead": rnd.randrange(0, 64), "above": rnd.choice(["hole", "guard", "mapped"])} for j in range(nreg)]
        regions.append({"name": "code", "len": 8192, "exec": True})
        tgt = {"threads": threads, "regions": regions, "pipes": rnd.randrange(0, 3), "sockets": rnd.randrange(0, 2)}
        w = {"blamed": "main", "app_memory": [{"addr": {"region": f"app{j}"}, "len": regions[j]["len"]} for j in range(nreg)]}
        if nt and rnd.random() < 0.6:
            b = rnd.randrange(nt)
            w["blamed"] = {"slot": b}
            if rnd.random() < 0.7:
                w["crash_context"] = {"sp": {"thread_sp": b}, "ip": rnd.choice([{"region": "code", "off": rnd.choice([0, 64, 127, 128, 4000, 8191])}, "0x10", {"region": "app0"} if nreg else "0x20"]), "gregs_seed": k + 1}
        if rnd.random() < 0.4:
            w["size_limit"] = rnd.choice([1000, 300000, 5000000])
        if rnd.random() < 0.4:
            w["sanitize"] = True
        if rnd.random() < 0.3:
            w["skip"] = True
            w["principal"] = rnd.choice([{"region": "code", "off": 100}, "0x30"])
        if rnd.random() < 0.3:
            w["user_mappings"] = [{"start": {"region_map": "code"}, "size": 8192, "name": "/user/lib code.so", "id_hex": "00112233445566778899aabbccddeeff"}]
        f = {"start": rnd.choice([0, 0, 3, 4096]), "pre_len": rnd.choice([0, 500000])}
        if nt and rnd.random() < 0.5:
            f["name_fail"] = [{"slot": i} for i in range(nt) if rnd.random() < 0.4]
        scns.append({"id": f"shape{k}", "target": tgt, "writer": w, "faults": f})
    return scns


def c01(ck):
    quick = ck.tier == "quick"
    mc = core.mc_or_die("DumpSeq", "MC_DumpSeq_fresh", workers=8, coverage=True, timeout=1500)
    util.vacuity(ck, mc, "DumpSeq", ["ThreadList", "Modules", "AppMem", "MemList", "Exception", "SysInfo", "BestEffortX", "Names", "Handles", "Return"])
    ck.add_mc(mc, "the dump pipeline as an allocator of objects: every thread list (named/unnamed, with/without stack), app regions, modules, handles, link maps, soft-failing stream; invariants C01, C11, C19 for a fresh writer")
    scns = _shape_scenarios(25 if quick else 400, ck.seed)
    runs = dumps.run_scenarios(ck, scns, "c01")
    evs = []
    for r in runs:
        if not r["dumps"]:
            evs.append({"ev": "failed", "origin": r["id"], "outcome": r["end"]["worker"] if r["end"] else "?"})
        evs += [dumps.c01_event(r, d) for d in r["dumps"]]
    out = os.path.join(ck.work, "c01.ndjson")
    core.export_lines(evs, out)

    def describe(hist, tag):
        e = hist[-1]
        ov = [(a, b) for a, b in zip(e["objs"], e["objs"][1:]) if a["off"] + a["len"] > b["off"]][:2]
        bad_alias = [o for o in e["objs"] if o["nk"] > 1 and o["alias"] not in ("mem+stack", "ctx+ctx:exception")][:2]
        return ({"tag": tag}, f"dump {e['origin']}#{e.get('dump_no', 1)} is not structurally sound ({tag}): decoder errors {e['errs']}, overlapping {ov}, unexpected aliases {bad_alias}, dir {e['dir'][:4]}...")
    v = util.judge_batch(ck, "Trace_Structure", out, "header, directory and every RVA-reachable object of real dumps of random process shapes (1..64 threads) x writer options", "DumpSeq", describe, traces=len(evs))
    okd = sum(1 for e in evs if e["ev"] == "c01")
    if okd == 0:
        raise core.ToolError("vacuous: no dump succeeded")
    ck.cov["distinct_nontrivial"] = okd
    ck.cov["objects_checked"] = v.get("objects", 0)
    ck.cov["dumps_that_failed"] = len(evs) - okd
    ck.cov["rule"] = "one case = one successful dump of a generated process shape under a generated option combination (seeded); non-trivial = decoded completely"
    ck.cov["decided_by"] = {"directory shape, sizes, containment, sortedness and disjointness of objects, allowed aliases": "spec", "finding the objects (following every RVA)": "mdparse"}
    ck.sample({"c01_event": {k: (v if k != "objs" else v[:6]) for k, v in next(e for e in evs if e["ev"] == "c01").items()}})
    ck.assumptions += ["Linux/x86-64 only; the mac writer's stream sequence is not covered", "objects = what the independent decoder reaches from the directory"]
    return runs


# ------------------------------------------------------------------------------------------ C11
def _softerr_scenarios(quick, seed):
    fps = ["StopProcess", "FillMissingAuxvInfo", "ThreadName", "SuspendThreads", "CpuInfoFileOpen"]
    scns = []
    for mask in range(32):
        sel = [fps[i] for i in range(5) if mask >> i & 1]
        tgt = dumps.base_target(2 + mask % 2)
        scns.append({"id": f"fp{mask}", "target": tgt, "writer": {"blamed": "main"}, "faults": {"failspots": sel}})
    # mixed per-thread name failures
    scns.append({"id": "namefail-mixed", "target": dumps.base_target(3), "writer": {"blamed": "main"}, "faults": {"name_fail": [{"slot": 0}, {"slot": 2}], "failspots": ["CpuInfoFileOpen"]}})
    # natural failures: a thread that vanishes between enumeration and attach (process not group-stopped), sandbox threads, an unreferenced principal mapping
    t = {"shared": True, "threads": [{"mode": "heartbeat"}, {"mode": "heartbeat"}, {"mode": "rsp0"}, {"mode": "pause", "stack_pages": 1, "sp_off": 100}]}
    scns.append({"id": "vanish+rsp0", "target": t, "writer": {"blamed": "main"}, "faults": {"failspots": ["StopProcess"], "actions": [{"at": {"hook": "enumerate:done"}, "do": "exit", "slot": 1}]}})
    scns.append({"id": "principal-unreferenced", "target": dumps.base_target(2), "writer": {"blamed": "main", "skip": True, "principal": "0x40"}, "expect": {"prinNotRef": True}})
    scns.append({"id": "non-utf8-name", "target": {"threads": [{"mode": "pause", "stack_pages": 1, "sp_off": 64, "name_hex": "fffe41"}, {"mode": "pause", "stack_pages": 1, "sp_off": 64, "name_hex": "6f6b"}]}, "writer": {"blamed": "main"}})
    scns.append({"id": "direct-auxv-complete+fill-failpoint", "target": dumps.base_target(1), "writer": {"blamed": "main", "direct_auxv": {"phnum": 1, "phdr": "0x1000", "gate": "0x2000", "entry": "0x3000"}},
                 "faults": {"failspots": ["FillMissingAuxvInfo"]}, "expect": {"dsoFail": True}})
    scns.append({"id": "no-dt-debug", "target": {"threads": [], "linker_chain": {"names": ["/lib/a.so"], "no_debug": True}}, "writer": {"blamed": "main", "direct_auxv": "linker_chain"}, "expect": {"dsoFail": True}})
    return scns


def c11(ck):
    quick = ck.tier == "quick"
    mc = core.mc_or_die("SoftErrors", "MC_SoftErrors", workers=8, coverage=True, timeout=900)
    util.vacuity(ck, mc, "SoftErrors", ["Advance", "Finish", "Contribution"])
    ck.add_mc(mc, "every fault plan (32 fail-point subsets x natural failures) through the best-effort steps in code order; invariants SoftNeverHard, SoftErrorsExact")
    mc2 = core.mc_or_die("DumpSeq", "MC_DumpSeq_fresh", workers=8, timeout=1500)
    ck.add_mc(mc2, "pipeline model: a soft-failing stream leaves a zero entry and every other entry intact (C11 in DumpSeq)")
    scns = _softerr_scenarios(quick, ck.seed)
    runs = dumps.run_scenarios(ck, scns, "c11")
    evs, sevs = [], []
    for r in runs:
        if not r["dumps"]:
            evs.append({"ev": "c11", "origin": r["id"], "fp": [], "nameFail": 0, "threads": 1, "exited": 0, "rsp0": 0, "prinNotRef": False, "dsoFail": False,
                        "auxvComplete": False, "outcome": r["end"]["worker"] if r["end"] else "?", "error": "", "wellFormed": False, "paths": [], "present": []})
        for d in r["dumps"]:
            evs.append(dumps.c11_event(r, d))
            sevs.append(dumps.c01_event(r, d))
    out = os.path.join(ck.work, "c11.ndjson")
    core.export_lines(evs, out)

    def describe(hist, tag):
        e = hist[-1]
        sig = {"tag": tag}
        if tag == "C11-best-effort-failure-made-the-dump-fail":
            sig["scenario"] = e["origin"]
        return (sig, f"scenario {e['origin']} (fail points {e['fp']}, {e['nameFail']} unreadable names, {e['exited']} vanished, {e['rsp0']} sandbox threads): {tag}; outcome {e['outcome']} {e['error'][:160]}; reported {e['paths']}")
    v = util.judge_batch(ck, "Trace_SoftErrors", out, "dumps under all 32 fail-point subsets, per-thread name failures, vanished and sandbox threads, unreferenced principal mapping, non-UTF-8 thread name, linker data without DT_DEBUG", "SoftErrors", describe, traces=len(evs))
    sout = os.path.join(ck.work, "c11_structure.ndjson")
    core.export_lines(sevs, sout)
    util.judge_batch(ck, "Trace_Structure", sout, "structure of the same dumps (all other streams intact)", "DumpSeq",
                     lambda hist, tag: ({"tag": tag}, f"dump {hist[-1]['origin']} with soft failures is not structurally sound: {hist[-1].get('errs')}"), traces=len(sevs))
    ck.cov["distinct_nontrivial"] = v.get("withFailures", 0)
    ck.cov["rule"] = "one case = one dump under one fault plan; non-trivial = the plan contains at least one failure; plans are distinct by construction"
    ck.cov["exhaustive"] = True
    ck.cov["decided_by"] = {"result ok, streams present, bag and order of reported failures": "spec", "flattening of the JSON tree to paths": "harness projection"}
    ck.sample({"c11_event": evs[7]})
    ck.assumptions += ["failures of the /etc/*-release and /proc/cpuinfo copies (needing a private mount namespace) are exercised only on the model", "stop_timeout raised to 5 s so that load cannot produce a spontaneous Timeout soft error"]
    return runs


# ------------------------------------------------------------------------------------------ C19
def _reuse_scenarios(quick, seed):
    import random
    rnd = random.Random(seed)
    scns = []
    base_regions = [{"name": "app0", "len": 3000, "lead": 9, "above": "hole"}, {"name": "app1", "len": 64, "lead": 0}, {"name": "code", "len": 8192, "exec": True}]
    def tgt(n, **kw):
        t = dumps.base_target(n, regions=base_regions, shared=True)
        t["threads"].append({"mode": "heartbeat"})
        t["threads"][0]["words"] = [[16, {"region": "code", "off": 200}]]
        t.update(kw)
        return t
    # same options, several dumps
    for n, k in [(1, 2), (3, 3), (2, 5)]:
        scns.append({"id": f"reuse/same{n}x{k}", "target": tgt(n), "writer": {"blamed": "main", "app_memory": [{"addr": {"region": "app0"}, "len": 3000}]}, "history": [{"op": "dump"}] * k})
    # crash context on the first dump only; blamed thread exits between dumps
    hb = 2
    # the blamed thread of the second dump is a sandbox thread (alive, but never listed): no context may be carried over
    t2 = tgt(2)
    t2["threads"].append({"mode": "rsp0"})
    scns.append({"id": "reuse/blamed-unlisted", "target": t2, "writer": {"blamed": {"slot": 0}}, "history": [{"op": "dump"}, {"op": "set", "writer": {"blamed": {"slot": 3}}}, {"op": "dump"}]})
    scns.append({"id": "reuse/ctx-then-none", "target": tgt(2), "writer": {"blamed": {"slot": 0}, "crash_context": {"sp": {"thread_sp": 0}, "ip": {"region": "code", "off": 500}}},
                 "history": [{"op": "dump"}, {"op": "set", "writer": {"crash_context": None}}, {"op": "dump"}]})
    # app memory changed between dumps
    scns.append({"id": "reuse/app-moves", "target": tgt(1), "writer": {"blamed": "main", "app_memory": [{"addr": {"region": "app0"}, "len": 3000}]},
                 "history": [{"op": "dump"}, {"op": "set", "writer": {"app_memory": [{"addr": {"region": "app1"}, "len": 64}]}}, {"op": "dump"}, {"op": "set", "writer": {"app_memory": []}}, {"op": "dump"}]})
    # principal mapping given, then withdrawn
    scns.append({"id": "reuse/principal-withdrawn", "target": tgt(2), "writer": {"blamed": "main", "skip": True, "principal": {"region": "code", "off": 64}},
                 "history": [{"op": "dump"}, {"op": "set", "writer": {"principal": "unset"}}, {"op": "dump"}]})
    for k in range(0 if quick else 40):
        n = rnd.randrange(1, 6)
        hist = []
        for j in range(rnd.randrange(2, 6)):
            if j and rnd.random() < 0.5:
                hist.append({"op": "set", "writer": {"app_memory": [{"addr": {"region": rnd.choice(["app0", "app1"])}, "len": 64}] if rnd.random() < 0.5 else []}})
            hist.append({"op": "dump"})
        scns.append({"id": f"reuse/rand{k}", "target": tgt(n), "writer": {"blamed": rnd.choice(["main", {"slot": 0}]), "sanitize": rnd.random() < 0.5}, "history": hist})
    return scns


def c19(ck):
    quick = ck.tier == "quick"
    util.mc_design(ck, "DumpSeq", "MC_DumpSeq_reuse", "two dumps on one writer, each with its own thread list / app regions; invariants C01, C11, C19 (NoCarryOver)", workers=8, coverage=True)
    scns = _reuse_scenarios(quick, ck.seed)
    runs = dumps.run_scenarios(ck, scns, "c19")
    evs, sevs = [], []
    for r in runs:
        cur = dict(r["scn"].get("writer", {}))
        di = 0
        for step in r["scn"].get("history", [{"op": "dump"}]):
            if step["op"] == "set":
                cur.update(step["writer"])
            elif step["op"] == "dump":
                if di < len(r["dumps"]):
                    d = r["dumps"][di]
                    evs.append(dumps.c19_event(r, d, cur))
                    sevs.append(dumps.c01_event(dict(r, scn=dict(r["scn"], writer=cur)), d))
                else:
                    evs.append(dumps.c19_event(r, {"outcome": r["end"]["worker"] if r["end"] else "?", "dump_no": di + 1}, cur))
                di += 1
    out = os.path.join(ck.work, "c19.ndjson")
    core.export_lines(evs, out)

    def describe(hist, tag):
        e = hist[-1]
        return ({"tag": tag}, f"dump #{e['dumpNo']} of history {e['origin']} differs from a fresh writer's ({tag}): memory list {e['memCount']} regions (expected {e['expMem']}, bytes ok: {e['memOk']}), "
                              f"exception context rva {e['excCtxRva']} size {e['excCtxSize']} vs blamed thread's {e['blamedCtxRva']} (listed: {e['blamedListed']}), stacks {e['nStacks']}")
    v = util.judge_batch(ck, "Trace_Reuse", out, "histories of 2..5 dumps on one MinidumpWriter (options and target changed between dumps)", "DumpSeq", describe, traces=len(runs))
    sout = os.path.join(ck.work, "c19_structure.ndjson")
    core.export_lines(sevs, sout)
    util.judge_batch(ck, "Trace_Structure", sout, "structure of every image of the histories", "DumpSeq",
                     lambda hist, tag: ({"tag": tag + "/reused-writer" if hist[-1].get("dump_no", 1) > 1 else tag}, f"image #{hist[-1].get('dump_no')} of {hist[-1]['origin']} is not structurally sound: {hist[-1].get('errs')}"), traces=len(sevs))
    if v.get("later", 0) == 0:
        raise core.ToolError("vacuous: no second dump was taken")
    ck.cov["distinct_nontrivial"] = v.get("later", 0)
    ck.cov["rule"] = "one case = the k-th dump (k >= 2) of a history on one writer; histories are distinct by construction / seeded"
    ck.cov["decided_by"] = {"region counts, context identity, stack filtering": "spec", "region bytes vs target memory": "comparator"}
    ck.sample({"c19_event": evs[1]})
    return runs
