"""C12 (stack sanitisation), C06/C20 pure parts (stack region selection, skip rule)."""
import json
import os
from . import core, util


def c12(ck):
    quick = ck.tier == "quick"
    mc = core.mc_or_die("MC_Sanitize", "MC_Sanitize" if quick else "MC_Sanitize_thorough", workers=8, coverage=True, timeout=3000)
    util.vacuity(ck, mc, "Sanitize", ["BuildBitmap", "Classify", "Done", "ClassifyWord"])
    ck.add_mc(mc, "all (layout, stack mapping, word sequence) triples of the small universe (bucket size 4, 4 pre-filter bits incl. aliasing buckets, boundary words); invariants C12 (direct classifier), PrefilterSound, StepwiseIsRun")
    ex = core.mc_or_die("MC_Sanitize", "MC_Sanitize_export", workers=4, timeout=900)
    cases = ex["printed"].get("REPLAY", [])
    if not cases:
        raise core.ToolError("MC_Sanitize exported no cases")
    inp = os.path.join(ck.work, "san.in")
    out = os.path.join(ck.work, "san.ndjson")
    core.export_lines([cases], inp)
    core.drive("sanitize", out, inp=inp, seed=ck.seed, random=6000 if quick else 200000, timeout=3000)

    def describe(hist, tag):
        e = hist[-1]
        if "out" not in e:
            return ({"tag": tag}, f"sanitize_stack_copy {'panicked' if e.get('panic') else 'failed'} for a region of {e['len']} bytes with stack-pointer offset {e['spOff']}")
        return ({"tag": tag}, f"sanitize_stack_copy output breaks C12 ({tag}): words {json.dumps(e['words'])[:300]} -> {e['out']}, belowZero={e['belowZero']} tailZero={e['tailZero']}; mappings {json.dumps(e['maps'])[:300]}")
    v = util.judge_parallel(ck, "Trace_Sanitize", out, "sanitize_stack_copy on all TLC cases (concretised with the real bucket size, aliasing classes preserved) and random (layout, stack, sp) triples", "Sanitize", describe, jobs=6 if quick else 14)
    if v.get("words", 0) == 0:
        raise core.ToolError("vacuous: no stack word was classified")
    ck.cov["distinct_nontrivial"] = v.get("checked", 0)
    ck.cov["words_classified"] = v.get("words", 0)
    ck.cov["rule"] = "one case = (mapping layout, stack-pointer mapping, region bytes, sp offset); non-trivial = the call returned and at least the shape clauses were evaluated; TLC cases are all distinct, random ones seeded"
    ck.cov["exhaustive"] = True
    ck.cov["decided_by"] = {"which words survive, zeroed ranges, region length, totality": "spec"}
    ck.sample({"model_case": cases[len(cases) // 2]})
    ck.assumptions += ["addresses are logged as (bucket, offset) pairs; values >= 2^47 keep only their pre-filter class (bucket mod 2^11)",
                       "mappings given to the dumper are synthetic (PtraceDumper over a paused child with `mappings` replaced)"]


def c17(ck):
    quick = ck.tier == "quick"
    util.mc_design(ck, "MC_MemReader", "MC_MemReader", "the three read strategies over [0,R) readable: every start s < R, length 1..20, word size 8; invariants C17, StepwiseIsFunction", workers=4)
    ex = core.mc_or_die("MC_MemReader", "MC_MemReader_export", workers=4, timeout=600)
    cases = ex["printed"].get("REPLAY", [])
    if not cases:
        raise core.ToolError("MC_MemReader exported no cases")
    inp = os.path.join(ck.work, "mem.in")
    out = os.path.join(ck.work, "mem.ndjson")
    core.export_lines([cases], inp)
    core.drive("memread", out, inp=inp, seed=ck.seed, random=3000 if quick else 100000, extra=["--workdir", ck.work], timeout=3000)

    def describe(hist, tag):
        e = hist[-1]
        return ({"tag": tag}, f"{e.get('style')} read of {e.get('n')} bytes starting {e.get('R', 0) - e.get('s', 0)} bytes before the end of readable memory: result {e.get('res')} with {e.get('got')} bytes, bytes match: {e.get('prefixOk')}")
    v = util.judge_parallel(ck, "Trace_MemReader", out, "MemReader::for_virtual_mem / for_file / for_ptrace + read_to_vec on a pattern-filled region of an attached target that ends at an unmapped page: every TLC case (all alignments mod 8, lengths 1..20) and random ranges up to 64 KiB inside, at and across the end",
                            "MemReader", describe, jobs=4)
    if v.get("across", 0) == 0:
        raise core.ToolError("vacuous: no range ran into unreadable memory")
    ck.cov["distinct_nontrivial"] = v.get("checked", 0)
    ck.cov["ranges_into_unreadable_memory"] = v.get("across", 0)
    ck.cov["traces_validated_against_impl"] = v.get("checked", 0)
    ck.cov["rule"] = "one case = one (strategy, start, length) read; TLC cases are all distinct, random ones seeded; non-trivial = the read was executed and judged"
    ck.cov["exhaustive"] = True
    ck.cov["decided_by"] = {"ok/err, returned length vs readable extent": "spec", "returned bytes equal the target's (address-derived pattern, cross-checked through /proc/<pid>/mem)": "comparator"}
    ck.sample({"model_case": cases[len(cases) // 3]})
    ck.assumptions += ["'unreadable' = an unmapped page (PROT_NONE pages are read through by PEEKDATA and /proc/<pid>/mem, which is a property of the kernel, not of the reader)"]
