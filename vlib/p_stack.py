"""C12 (stack sanitisation), C06/C20 pure parts (stack region selection, skip rule)."""
import json
import os
from . import core, util


def c12(ck):
    quick = ck.tier == "quick"
    mc = core.mc_or_die("MC_Sanitize", "MC_Sanitize" if quick else "MC_Sanitize_thorough", workers=8, coverage=True, timeout=3000)
    util.vacuity(ck, mc, "Sanitize", ["BuildBitmap", "Classify", "Done", "ClassifyWord"])
    ck.add_mc(mc, "all (layout, stack mapping, word sequence) triples of the small universe (bucket size 4, 4 pre-filter bits incl. aliasing buckets, boundary words); invariants C12 (direct classifier), PrefilterSound, StepwiseIsRun")
    util.apalache_inductive(ck, "SanitizeAp", "over full 64-bit words: the small-integer test keeps exactly the words in -4096..4096 (two's complement), and the pre-filter has the bit of every address inside an executable mapping set (any mapping below 2^64)",
                            obligations=[("Init", "C12_SmallIntKept", 0), ("Init", "C12_PrefilterSound", 0)])
    ex = core.mc_or_die("MC_Sanitize", "MC_Sanitize_export", workers=4, timeout=900)
    cases = ex["printed"].get("REPLAY", [])
    if not cases:
        raise core.ToolError("MC_Sanitize exported no cases")
    inp = os.path.join(ck.work, "san.in")
    out = os.path.join(ck.work, "san.ndjson")
    core.export_lines([cases], inp)
    core.drive("sanitize", out, inp=inp, seed=ck.seed, random=6000 if quick else 200000, timeout=3000)

    def describe(hist, tag):
        e = hist[-1]
        if "out" not in e:
            return ({"tag": tag}, f"sanitize_stack_copy {'panicked' if e.get('panic') else 'failed'} for a region of {e['len']} bytes with stack-pointer offset {e['spOff']}")
        return ({"tag": tag}, f"sanitize_stack_copy output breaks C12 ({tag}): words {json.dumps(e['words'])[:300]} -> {e['out']}, belowZero={e['belowZero']} tailZero={e['tailZero']}; mappings {json.dumps(e['maps'])[:300]}")
    v = util.judge_parallel(ck, "Trace_Sanitize", out, "sanitize_stack_copy on all TLC cases (concretised with the real bucket size, aliasing classes preserved) and random (layout, stack, sp) triples", "Sanitize", describe, jobs=6 if quick else 14)
    if v.get("words", 0) == 0:
        raise core.ToolError("vacuous: no stack word was classified")
    c12_dump_part(ck, quick)
    ck.cov["distinct_nontrivial"] = v.get("checked", 0) + ck.cov.get("dump_level_stacks", 0)
    ck.cov["words_classified"] = v.get("words", 0)
    ck.cov["rule"] = "one case = (mapping layout, stack-pointer mapping, region bytes, sp offset); non-trivial = the call returned and at least the shape clauses were evaluated; TLC cases are all distinct, random ones seeded"
    ck.cov["exhaustive"] = True
    ck.cov["decided_by"] = {"which words survive, zeroed ranges, region length, totality": "spec"}
    ck.sample({"model_case": cases[len(cases) // 2]})
    ck.assumptions += ["addresses are logged as (bucket, offset) pairs; values >= 2^47 keep only their pre-filter class (bucket mod 2^11)",
                       "mappings given to the dumper are synthetic (PtraceDumper over a paused child with `mappings` replaced)"]


SENTINEL = 0x0defaced0defaced


def _c12_dump_scenarios(quick, seed):
    import random
    rnd = random.Random(seed)
    from . import dumps
    scns = []
    combos = [(None, False), (1000, False), (300000, True), (None, True)] if quick else [(l, s) for l in (None, 1000, 200000, 300000) for s in (False, True)]
    for k, (lim, skip) in enumerate(combos):
        n = 26 if lim else 6
        threads = []
        for i in range(n):
            sp_off = [0x100, 0x900, 0xb03, 0x700, 0x800, 0x40][i % 6] + 4096 * (i % 2)
            words = [[8 * j, v] for j, v in enumerate([{"region": "code", "off": 16 + i}, {"region": "data", "off": 32}, 7, -4096 & ((1 << 64) - 1), 4097, {"region": "data", "off": 40},
                                                       {"self_stack": True, "off": 24}, {"region": "code", "off": 4095}, {"region_end": "code"}, 0, SENTINEL, {"region": "data", "off": 8}], start=1)]
            threads.append({"mode": "pause", "stack_pages": 1 + i % 2, "sp_off": sp_off, "words": words})
        w = {"blamed": {"slot": 1}, "sanitize": True}
        if lim:
            w["size_limit"] = lim
        if skip:
            w.update({"skip": True, "principal": {"region": "code", "off": 100}})
        if k % 2 == 1:
            w["crash_context"] = {"sp": {"thread_sp": 1}, "ip": {"region": "code", "off": 64}}
        scns.append({"id": f"sanitize-dump/{k}", "target": {"threads": threads, "regions": [{"name": "code", "len": 4096, "exec": True}, {"name": "data", "len": 4096}]}, "writer": w, "want_stacks": True})
    return scns


def _c12_dump_events(run, d):
    from . import threads as th
    if d.get("outcome") != "ok":
        return [{"ev": "failed", "origin": run["id"]}]
    maps = th.parse_maps(d["oracle"]["maps"])
    mem = {m["tid"]: m for m in d["oracle"].get("stack_mem", [])}
    dumped = {s["tid"]: s for s in d.get("stack_bytes", [])}
    evs = []
    for t in d["streams"]["threads"]["threads"]:
        tid = t["tid"]
        if t["stack_size"] == 0 or tid not in mem or tid not in dumped:
            continue
        sp = int(t["ctx"]["rsp"], 16)
        if d["opts"]["crash_context"] and tid == d["writer"]["blamed"]:
            sp = int(d["supplied"]["rsp"], 16)
        db = bytes.fromhex(dumped[tid]["hex"])
        start = dumped[tid]["start"]
        mb, mfrom = bytes.fromhex(mem[tid]["hex"]), mem[tid]["from"]
        own = th.find_map(maps, sp)
        # words are taken at the same alignment as the writer does: from the stack pointer rounded up to a word, relative to the region start
        first = ((sp - start + 7) // 8) * 8 if sp >= start else 0
        counts = {}
        def add(pos, dump, memc):
            counts[(pos, dump, memc)] = counts.get((pos, dump, memc), 0) + 1
        for off in range(0, first, 8):
            chunk = db[off:min(off + 8, first)]
            add("below", "zero" if not any(chunk) else "other", "na")
        off = first
        while off + 8 <= len(db):
            dv = int.from_bytes(db[off:off + 8], "little")
            a = start + off
            if a < mfrom or a + 8 > mfrom + len(mb):
                off += 8
                continue
            mv = int.from_bytes(mb[a - mfrom:a - mfrom + 8], "little")
            sv = mv - (1 << 64) if mv >> 63 else mv
            mm = th.find_map(maps, mv)
            memc = ("small" if -4096 <= sv <= 4096 else "ownstack" if own is not None and own["s"] <= mv < own["e"] else
                    "exec" if mm is not None and "x" in mm["perms"] else "sentinel" if mv == SENTINEL else "other")
            add("above", "same" if dv == mv else "sentinel" if dv == SENTINEL else "zero" if dv == 0 else "other", memc)
            off += 8
        if off < len(db):
            add("tail", "zero" if not any(db[off:]) else "other", "na")
        evs.append({"ev": "c12d", "origin": run["id"], "tid": tid, "sameLength": len(db) == t["stack_size"],
                    "combos": [{"pos": p, "dump": dk, "mem": mk, "n": n} for (p, dk, mk), n in sorted(counts.items())]})
    return evs


def c12_dump_part(ck, quick):
    from . import dumps
    runs = dumps.run_scenarios(ck, _c12_dump_scenarios(quick, ck.seed) + [s_ for s_ in dumps.cross_scenarios(quick, ck.seed, n=(24 if quick else 240)) if s_["writer"].get("sanitize")], "c12_dumps")
    evs = [e for r in runs for d in r["dumps"] for e in _c12_dump_events(r, d)]
    evs += [{"ev": "failed", "origin": r["id"]} for r in runs if not r["dumps"]]
    out = os.path.join(ck.work, "c12_dumps.ndjson")
    core.export_lines(evs, out)

    def describe(hist, tag):
        e = hist[-1]
        bad = [c for c in e.get("combos", []) if not ((c["pos"] in ("below", "tail") and c["dump"] == "zero") or (c["pos"] == "above" and ((c["mem"] in ("small", "ownstack", "exec") and c["dump"] == "same") or (c["mem"] not in ("small", "ownstack", "exec") and (c["dump"] == "sentinel" or (c["dump"] == "same" and c["mem"] == "sentinel"))))))]
        return ({"tag": tag}, f"{tag} in {e.get('origin')} thread {e.get('tid')}: word combinations (position, dumped vs memory, class of the memory word, count) that C12 does not allow: {bad[:6]}; region length kept: {e.get('sameLength')}")
    v = util.judge_batch(ck, "Trace_SanitizeDump", out, "every word of every stack of dumps taken with sanitising (alone, with the size limit, with skip-if-unreferenced, with a crash context) against the target's memory and /proc/<pid>/maps",
                         "Sanitize", describe, traces=len(evs))
    kinds = {(c["pos"], c["dump"], c["mem"]) for e in evs for c in e.get("combos", [])}
    need = {("above", "same", "small"), ("above", "same", "exec"), ("above", "same", "ownstack"), ("above", "sentinel", "other"), ("below", "zero", "na")}
    if not need <= kinds:
        raise core.ToolError(f"vacuous dump-level sanitising check: combinations seen {sorted(kinds)}")
    ck.cov["dump_level_stacks"] = v.get("checked", 0)


def c17(ck):
    quick = ck.tier == "quick"
    util.mc_design(ck, "MC_MemReader", "MC_MemReader", "the three read strategies over [0,R) readable: every start s < R, length 1..20, word size 8; invariants C17, StepwiseIsFunction", workers=4)
    util.mc_design(ck, "MemReaderHist", "MC_MemReaderHist", "one reader serving every history of <= 3 reads (every start 0..R+1, lengths 1..3) through the /proc/<pid>/mem strategy with the descriptor's offset as state; invariant HistoryIndependent", workers=4)
    ex = core.mc_or_die("MC_MemReader", "MC_MemReader_export", workers=4, timeout=600)
    cases = ex["printed"].get("REPLAY", [])
    if not cases:
        raise core.ToolError("MC_MemReader exported no cases")
    inp = os.path.join(ck.work, "mem.in")
    out = os.path.join(ck.work, "mem.ndjson")
    core.export_lines([cases], inp)
    core.drive("memread", out, inp=inp, seed=ck.seed, random=3000 if quick else 100000, extra=["--workdir", ck.work], timeout=3000)

    def describe(hist, tag):
        e = hist[-1]
        return ({"tag": tag}, f"{e.get('style')} read of {e.get('n')} bytes starting {e.get('R', 0) - e.get('s', 0)} bytes before the end of readable memory: result {e.get('res')} with {e.get('got')} bytes, bytes match: {e.get('prefixOk')}")
    v = util.judge_parallel(ck, "Trace_MemReader", out, "MemReader::for_virtual_mem / for_file / for_ptrace + read_to_vec on a pattern-filled region of an attached target that ends at an unmapped page: every TLC case (all alignments mod 8, lengths 1..20) and random ranges up to 64 KiB inside, at and across the end",
                            "MemReader", describe, jobs=4)
    if v.get("across", 0) == 0:
        raise core.ToolError("vacuous: no range ran into unreadable memory")
    ck.cov["distinct_nontrivial"] = v.get("checked", 0)
    ck.cov["ranges_into_unreadable_memory"] = v.get("across", 0)
    ck.cov["traces_validated_against_impl"] = v.get("checked", 0)
    ck.cov["rule"] = "one case = one (strategy, start, length) read; TLC cases are all distinct, random ones seeded; non-trivial = the read was executed and judged"
    ck.cov["exhaustive"] = True
    ck.cov["decided_by"] = {"ok/err, returned length vs readable extent": "spec", "returned bytes equal the target's (address-derived pattern, cross-checked through /proc/<pid>/mem)": "comparator"}
    ck.sample({"model_case": cases[len(cases) // 3]})
    ck.assumptions += ["'unreadable' = an unmapped page (PROT_NONE pages are read through by PEEKDATA and /proc/<pid>/mem, which is a property of the kernel, not of the reader)"]
