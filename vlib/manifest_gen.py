#!/usr/bin/env python3
"""Regenerates /verif/MANIFEST.json from the table below (single source of truth for the interface)."""
import json
import os

ROOT = os.path.dirname(os.path.dirname(os.path.abspath(__file__)))
BASELINE = ("cd /repo && cargo nextest run --workspace --no-fail-fast --tool-config-file pb:/w/lib/nextest.toml --profile pb "
            "--test-threads 8 --offline || cargo test --workspace --no-fail-fast --offline")

# property -> (level text, level note, technique, design ref)
CLAIMED = {
    "C16": ("TLC checks the layout laws as action properties on a cell-level transcription of mem_writer.rs for every operation history "
            "(bounded), exports every history, the harness replays each on the real Buffer/MemoryWriter/MemoryArrayWriter over all 20 element "
            "types plus random histories and Unicode strings, and TLC evaluates the laws on the recorded offsets/sizes/touched ranges of every call.",
            "Trusted: TLC, the byte comparator of the harness (slot content, UTF-16 round trip), scroll's Pread for building values; bounds in evidence.",
            "TLA+ model checking (TLC) + model-generated replay + trace validation", "DESIGN.md 4/C16"),
    "C09": ("TLC checks C09 on a destination-call-level model (crash between any two calls) and on the API-level model DirOps for all "
            "histories; every DirOps history is replayed on the real DirSection over a recording destination (non-zero start offsets, "
            "pre-existing content) and each recorded call is validated as the corresponding DirOps action with C09 evaluated on the observed bytes.",
            "Trusted: TLC, the recording destination and its longest-common-prefix comparator; destination = a recording seekable byte window (short writes, a full disk and start offsets beyond 4 GiB included).",
            "TLA+ model checking (TLC) + model-generated replay + trace validation", "DESIGN.md 4/C09"),
}

CLAIMED["C13"] = ("TLC checks the five clauses of C13 as invariants on a transcription of MappingInfo::aggregate for every sequence of lines over the "
            "model alphabet (bounded), and judges the real function's output on TLC-enumerated, driver-enumerated, random and live maps: the property is "
            "evaluated on the observed output and the observed output must equal the model's fold (every merge decision).",
            "Trusted: TLC, procfs-core's maps parser (shared with the code under test), the harness's own line parser and rank projection.",
            "TLA+ model checking (TLC) + model-generated replay + trace validation", "DESIGN.md 4/C13")
CLAIMED["C12"] = ("TLC checks the direct classifier (C12) against the step-by-step model with pre-filter and caches for every triple of the small universe "
            "and proves the pre-filter sound there; every TLC case is concretised with the real bucket size (aliasing classes preserved) and run, "
            "plus random triples; the real output is judged word by word against the direct classifier and must match the model's decisions.",
            "Trusted: TLC, the (bucket, offset) projection of 64-bit words, synthetic mappings installed in a PtraceDumper over a paused child.",
            "TLA+ model checking (TLC) + model-generated replay + trace validation", "DESIGN.md 4/C12")

CLAIMED["C10"] = ("TLC checks PrefixConsistent in every state of the destination-call-level model (crash or I/O error between any two calls); on real "
            "dumps the destination is decoded by the independent decoder after every one of the ~93 calls and, per call index, a dump with that call "
            "failing must return an error and leave a consistent prefix; TLC judges every recorded prefix.",
            "Trusted: TLC, mdparse (independent decoder) for the extents of streams and of what they reference, the recording destination; one write_all = one step.",
            "TLA+ model checking (TLC) + fault enumeration at every destination call + trace validation", "DESIGN.md 4/C10")

CLAIMED["C15"] = ("TLC checks the placement model of thread_names_stream for every list of up to 4 threads and every named/unnamed subset; real dumps "
            "of targets with chosen thread lists are taken with the name read failing for every subset of threads (per-thread fail-point toggling from the "
            "enumerate hook) and with names of every shape; TLC compares the decoded (tid, name) set with the kernel's comm and checks the slot order the model predicts.",
            "Trusted: TLC, mdparse, /proc/<pid>/task/<tid>/comm as read by the harness, the hook-driven toggling of the ThreadName fail point.",
            "TLA+ model checking (TLC) + scenario-generated dumps + trace validation", "DESIGN.md 4/C15")

CLAIMED["C01"] = ("TLC checks structure (directory shape, references inside, no overlap, intended aliases only) on the DumpSeq model of the pipeline as an "
            "allocator of objects for every small process shape; real dumps of generated process shapes (1..64 threads, named/unnamed mixes, regions, "
            "descriptors) x option combinations are decoded by the independent decoder and TLC checks the same clauses on the recorded directory and on "
            "the offset-sorted list of every RVA-reachable object.",
            "Trusted: TLC, mdparse (finds the objects by following every RVA), the scenario generator; Linux/x86-64 only (mac writer not covered).",
            "TLA+ model checking (TLC) + scenario-generated dumps + trace validation", "DESIGN.md 4/C01")
CLAIMED["C11"] = ("TLC checks SoftNeverHard/SoftErrorsExact on the SoftErrors model for every fault plan; real dumps are taken under all 32 fail-point subsets, "
            "per-thread name failures, vanished/sandbox threads, an unreferenced principal mapping, a non-UTF-8 thread name and linker data without DT_DEBUG; "
            "TLC compares the decoded soft-error stream (bag and order) with the model's sequence for the plan and requires every other stream present.",
            "Trusted: TLC, mdparse, the flattening of the soft-error JSON to paths, failspot's testing client; release-file copy failures only on the model (cpuinfo and auxv failures are induced for real in C18's CpuInfo / AuxvFile parts).",
            "TLA+ model checking (TLC) + fault enumeration (fail points, natural failures) + trace validation", "DESIGN.md 4/C11")
CLAIMED["C19"] = ("TLC checks NoCarryOver (C19) and structure on DumpSeq with two dumps per writer; real histories of 2..5 dumps on one MinidumpWriter "
            "(options changed, blamed thread changed, principal withdrawn, app regions moved) are decoded and each image is judged by TLC as a fresh writer's dump.",
            "Trusted: TLC, mdparse, /proc/<pid>/mem comparator for region bytes; stacks of threads that keep running are excluded from byte comparison.",
            "TLA+ model checking (TLC) + history-generated dumps + trace validation", "DESIGN.md 4/C19")

CLAIMED["C05"] = ("The field map ucontext/fpstate/siginfo -> exception record and context (incl. REG_CSGSFS unpacking and the format's truncations) is data in the "
            "trace specification; dumps are taken with generated crash contexts in which every register differs, for every choice of blamed thread, and TLC "
            "compares every field; the pipeline model (DumpSeq) checks that the exception stream names the blamed thread's context of the same image.",
            "Trusted: TLC, mdparse's context decoder, the limb projection of 64-bit values; x86-64 only.",
            "TLA+ model checking (TLC) of the pipeline + trace validation of generated dumps against a declarative field map", "DESIGN.md 4/C05")
CLAIMED["C06"] = ("TLC checks C06 on StackSel (get_stack_info's page walk as a loop with termination and bound, size limit, list positions 19/20, crash thread) for "
            "every SP offset of four layouts; real dumps of 20..64-thread targets with the SP at chosen in-page offsets (incl. 2047/2048/2049, guard pages, holes) "
            "and limits around the estimate threshold are judged per thread, and the recorded region must equal the model's prediction.",
            "Trusted: TLC, mdparse, /proc/<pid>/maps lines around the SP as the mapping list, /proc/<pid>/mem comparator for the bytes from SP upward.",
            "TLA+ model checking (TLC) + scenario-generated dumps + trace validation", "DESIGN.md 4/C06")
CLAIMED["C07"] = ("TLC judges the memory list of generated dumps: the application regions and every non-empty stack must be present with exact address and length, "
            "the IP window must be the clipping arithmetic of the statement (IP at the 8 boundary positions of a mapping with mapped/unmapped neighbours), every "
            "region's bytes must equal target memory; the pipeline model checks that descriptors name blobs of the same image.",
            "Trusted: TLC, mdparse, rank projection of addresses, /proc/<pid>/mem comparator.",
            "TLA+ model checking (TLC) of the pipeline + scenario-generated dumps + trace validation", "DESIGN.md 4/C07")
CLAIMED["C20"] = ("TLC checks the inclusion rule on StackSel for IPs and stack words at {low-1, low, high-1, high, high+1}; dumps of targets whose threads hold / do not "
            "hold a pointer into the principal mapping (aligned, unaligned, below SP, at the edges) are judged per thread from the thread's live stack words, plus "
            "the soft-error clause per dump; recorded inclusion must equal the model's.",
            "Trusted: TLC, mdparse, the harness's read of each thread's stack words through /proc/<pid>/mem.",
            "TLA+ model checking (TLC) + scenario-generated dumps + trace validation", "DESIGN.md 4/C20")

CLAIMED["C03"] = ("TLC checks NoneLeftAttached / NoDup / NoLoss and the liveness property (every thread eventually runs with all queued signals delivered) on a "
            "tracer-kernel-target model for every interleaving of 3 threads, signals, exits, stop_process outcomes and a hard failure at any step; on the real "
            "code, thousands of suspend/resume cycles run under a queued-signal flood and dumps run under enumerated environment schedules (a signal at each hook "
            "point / destination call, bursts, destination failures, hard errors, thread exits); TLC judges the observed end state (/proc, handler counters).",
            "Trusted: TLC, the kernel abstraction of Ptrace.tla (only end-state violations are reported), /proc and the target's handler counters, hook-driven signal placement.",
            "TLA+ model checking (TLC, safety + liveness) + schedule enumeration on the real code + trace validation of end states", "DESIGN.md 4/C03")
CLAIMED["C04"] = ("The register map ptrace -> context (with the format's truncations) is data in the trace specification; contexts of all listed threads of 1..64-thread "
            "targets (distinct sentinels per register) are compared with registers read by the harness's own ptrace calls; list completeness incl. sandbox and "
            "exiting threads; spinner targets and the recorded order of tracer steps show no thread runs between captures; TLC checks the schedule invariants "
            "(NoRunBetweenCaptures, ListedOnce, SandboxOmitted) on the Ptrace model.",
            "Trusted: TLC, mdparse's context decoder, the harness's ptrace oracle (threads parked in pause), limb projection; x86-64 only.",
            "TLA+ model checking (TLC) + scenario-generated dumps + trace validation against a declarative register map", "DESIGN.md 4/C04")

CLAIMED["C17"] = ("TLC checks C17 on a model of the three read strategies for every start/length over a readable extent that ends at unreadable memory; every TLC "
            "case is replayed on MemReader::for_virtual_mem / for_file / for_ptrace against an attached target whose pattern-filled region ends at an "
            "unmapped page, plus random ranges up to 64 KiB; TLC judges the outcome and compares it with the model's result for the strategy.",
            "Trusted: TLC, the address-derived pattern as oracle (cross-checked once through /proc/<pid>/mem), the byte comparator; unreadable = unmapped.",
            "TLA+ model checking (TLC) + model-generated replay + trace validation", "DESIGN.md 4/C17")

CLAIMED["C14"] = ("TLC enumerates every abstract ELF (presence/readability of each table and range the reader follows, terminated / unterminated dynamic array, identity / shifted "
            "virtual addresses) through the strategy steps of ElfReader, with SonameIsTheImages as a design-level invariant; "
            "the ELF builder concretises each (64/32-bit) and the real BuildId/SoName readers (slice and file) must give the model's outcome and the "
            "independent reader's value; totality is checked on every header field at boundary values, field pairs/triples, random bytes, the machine's "
            "ELF files and live mappings (memory vs file, incl. an image linked and mapped at a fixed address); every reader call runs under a 3 s deadline.",
            "Trusted: TLC, the harness's ELF builder and independent reader; random-bytes part is fuzzing judged trivially by TLC; little-endian only.",
            "TLA+ model checking (TLC) + model-generated replay + structure-aware corruption + trace validation", "DESIGN.md 4/C14")

CLAIMED["C02"] = ("TLC checks totality, no-open-under-/dev and termination of the three loops over target-controlled data (guard walk, link_map walk, SONAME scan) on a step model of a dump over ten input dimensions (all inputs within "
            "two deviations of a benign base); each abstract input is concretised (crash registers, direct auxv, a synthetic linker chain in the target's memory "
            "incl. cyclic/dangling lists, mapped files with hostile names and contents under inotify, absurd application-region and AT_PHNUM sizes) and dumped in a watchdogged worker; the public parsing "
            "entry points run on generated inputs; TLC judges every outcome and checks the linker-data soft failure the model predicts.",
            "Trusted: TLC, the watchdog/worker isolation, inotify, the concretisation of classes by the scenario builder; dev profile (overflow = panic).",
            "TLA+ model checking (TLC, safety + liveness) + model-generated scenarios + trace validation", "DESIGN.md 4/C02")

CLAIMED["C18"] = ("TLC checks auxv precedence, one-entry-per-line with the protection table, and the handle bijection on ProcStreams; dumps of targets with generated argv / "
            "environment / descriptors / mappings / synthetic linker chains are decoded and TLC compares the memory-info list (via the model's table), handle "
            "descriptors, system information and the linker list with what the harness reads from /proc; the five raw copies are byte-compared by the harness and "
            "only judged by TLC (translation-validation-like). The cpuinfo scan (CpuInfo) and the completion of the auxiliary values from /proc/<pid>/auxv (AuxvFile) are "
            "transcribed loop by loop, model-checked against their declarative reading, and bound to the writer by dumps whose worker sees generated contents of those files "
            "(private mount namespace): decoded system information / which value was used must be what the model says.",
            "Trusted: TLC, mdparse, /proc of the blocked target as read by the harness, /proc/cpuinfo + uname for system information; status/cpuinfo raw streams are not compared (volatile); "
            "the file substitution needs CAP_SYS_ADMIN (otherwise those two parts are model-checked only, recorded in the evidence).",
            "TLA+ model checking (TLC) + scenario-generated dumps + trace validation", "DESIGN.md 4/C18")
CLAIMED["C08"] = ("TLC checks which mappings are listed, entry-first and caller-mappings-last on ModuleList for every small mapping list; targets map generated ELF images "
            "(with/without build-id note or SONAME, zero id, non-ELF, deleted, embedded at a non-zero offset, hostile names) next to the machine's own ld.so/libc/vDSO; "
            "TLC compares the decoded module list with ModuleList!Modules over the target's mapping groups and the independent reader's ids/SONAMEs.",
            "Trusted: TLC, mdparse, the harness's independent ELF reader, its transcription of the aggregator's grouping (the model validated by C13), the name-candidate strings built by the projection.",
            "TLA+ model checking (TLC) + scenario-generated dumps + trace validation", "DESIGN.md 4/C08")

NOT_YET = {
}
CROSS = {"C01", "C04", "C05", "C06", "C07", "C08", "C12", "C15", "C18", "C20"}
EXTRA = {
    "C03": "Also: the recorded hook sequence of every single-dump schedule is validated as a behaviour of Ptrace (Trace_PtraceSeq); targets in which every thread is dropped (all threads without a stack) and Ptrace with Sandbox = T; a thread that sits in vfork() until its child exits (Ptrace with sleeping threads, MC_Ptrace_slow), and the tracer of every thread observed at the moment the request returns, inside the dumping process.",
    "C02": "Also: further input dimensions - the caller's stop timeout (Duration::MAX), a caller mapping beyond the address space, a crash stack pointer in the reservation folded into a module, a crash instruction pointer in a page mapped at address 0, a thread sleeping in vfork() (known finding D22) - and an Apalache obligation for the window arithmetic over all integers (ap/IpWindowAp).",
    "C06": "Also: an Apalache obligation (ap/StackLimitAp): the size-limited branch of fill_thread_stack for every region, stack pointer and cap.",
    "C08": "Also: UserContain (is_contained_in's loop over machine words, caller mappings beyond the address space; Apalache: inductive for any word size, ap/UserContainAp); a library replaced on disk while loaded (two images under one path); SoVersion (the version fields from the file name) as conformance.",
    "C14": "Also: the source of the image (byte slice or laid out in process memory and read through ProcessReader) and the length of the SONAME as model dimensions (SourceIndependent).",
    "C15": "Also: the enumeration as distinct from the list (threads dropped at suspend x unreadable names; CountListed).",
    "C04": "Also: StatusFile (get_ppid_and_tgid transcribed) bound through substituted /proc/<pid>/status files (PPid 0 etc.); per-thread segment selectors; crash contexts whose own tid field names another thread.",
    "C10": "Also: short writes (the destination takes part of a write, then is full or keeps accepting) in the model (DirSection.WriteTail(n), WriteAll) and on real dumps; application regions with an unreadable tail; destinations beyond 4 GiB.",
    "C09": "Also: random histories with short writes and start offsets beyond 4 GiB / 2^40 (windowed recording destination); real dumps of a target with an empty environment and of one appended beyond 4 GiB.",
    "C12": "Also: Apalache obligations over full 64-bit words (ap/SanitizeAp: small-integer test, pre-filter soundness). Also at dump level (Trace_SanitizeDump): every word of every sanitised dumped stack against target memory and /proc/<pid>/maps, alone and under the size limit / skip rule / crash context.",
    "C17": "Also: MemReaderHist (one reader serving a history of reads, HistoryIndependent) and per-reader read histories on all strategies; all-ones words in the readable extent.",
    "C19": "Also: histories in which a dump fails part-way (unreadable application region, destination failure at call k) before the next one (DumpSeq.Abort), and options that must persist (caller entry address, caller mappings); the caller's settings snapshotted around every dump (none may change), stack sizes under one configuration within a history, the size limit as a writer field (DumpSeq.limit).",
    "C11": "Also: every copied file (/proc/cpuinfo, /etc/*-release, cmdline, environ, auxv, limits) made unreadable for real in a private mount namespace, singly and in combinations (SoftErrors.unreadable); a link_map name that is not UTF-8.",
}

def main():
    props = [json.loads(l) for l in open(os.path.join(ROOT, "properties.jsonl"))]
    checks, na = [], []
    for p in props:
        pid = p["id"]
        if pid in CLAIMED:
            text, note, tech, ref = CLAIMED[pid]
            if pid in CROSS:
                text += " Besides its dedicated scenarios the check runs the cross pool (every target and writer knob drawn independently; DESIGN.md section 3) through the same projection."
            if pid in EXTRA:
                text += " " + EXTRA[pid]
            checks.append({
                "property_id": pid,
                "quick_cmd": f"./check {pid} --tier quick",
                "thorough_cmd": f"./check {pid} --tier thorough",
                "evidence_file": f"/verif/evidence/{pid}.json",
                "replay_cmd_template": f"./check {pid} --replay {{path}}",
                "engine": "tlc+mdw-harness",
                "level_claimed": {"category": "model_checking", "text": text, "design_ref": ref},
                "level_note": note,
                "technique": tech,
            })
        else:
            na.append({"property_id": pid, "reason": NOT_YET.get(pid, "check not built yet in this session (see DESIGN.md section 8 build order); not claimed")})
    hooks_commits = [l.split()[0] for l in os.popen("git -C /repo log --format='%h %s' 2>/dev/null").read().splitlines() if "verif hooks" in l]
    m = {
        "version": 1,
        "setup_cmd": "cd /verif && ./setup.sh",
        "hooks": {
            "guard": "--cfg mdw_verif",
            "enable": "harness/.cargo/config.toml sets rustflags = [\"--cfg\", \"mdw_verif\"]; the harness crate depends on /repo by path, so every check rebuilds /repo's working tree with hooks on",
            "baseline_off_cmd": BASELINE,
            "source_commits": hooks_commits,
            "add_only": True,
        },
        "engines": [
            {"name": "tlc+mdw-harness", "path": "/verif/check", "serves_properties": sorted(CLAIMED),
             "kind_free_text": "TLA+ specifications in /verif/spec model-checked with TLC; behaviours exported by TLC are replayed on the real code by /verif/harness (mdw-drive), and traces recorded from the real code are validated by TLC against Trace_* specifications; three arithmetic laws are additionally discharged over all integers with Apalache (spec/ap)"},
        ],
        "checks": checks,
        "not_applicable": na,
        "notes": "Exit 0 = held (KNOWN-FINDING lines allowed), 1 = VIOLATION, 2 = tool error. MODEL-DRIFT lines are informational (exit 0).",
    }
    json.dump(m, open(os.path.join(ROOT, "MANIFEST.json"), "w"), indent=1)
    print("MANIFEST.json:", len(checks), "checks,", len(na), "not applicable")

if __name__ == "__main__":
    main()
