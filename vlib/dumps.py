"""Running full-dump scenarios through mdw-drive and projecting the raw records onto the compact
traces the Trace_* specifications consume (the projections are part of the trusted base)."""
import json
import os
from . import core


def run_scenarios(ck, scenarios, name, timeout=3000):
    """Returns a list of runs: {scn, report, dumps: [...], end}."""
    inp = os.path.join(ck.work, f"{name}.scn.jsonl")
    out = os.path.join(ck.work, f"{name}.raw.ndjson")
    core.export_lines(scenarios, inp)
    core.drive("dump", out, inp=inp, seed=ck.seed, extra=["--workdir", ck.work], timeout=timeout)
    runs, cur = [], None
    with open(out) as f:
        for line in f:
            e = json.loads(line)
            if e["ev"] == "scenario":
                cur = {"scn": e.get("scn"), "report": e.get("report"), "dumps": [], "end": None, "error": e.get("error"), "id": e.get("id"), "other": []}
                runs.append(cur)
            elif e["ev"] == "dump":
                cur["dumps"].append(e)
            elif e["ev"] == "end":
                cur["end"] = e
            elif cur is not None:
                cur["other"].append(e)
    if len(runs) != len(scenarios):
        raise core.ToolError(f"{name}: {len(scenarios)} scenarios but {len(runs)} runs recorded")
    bad = [r for r in runs if r["error"]]
    if bad:
        raise core.ToolError(f"{name}: target could not be started: {bad[0]['error']}")
    return runs


def dirops_events(rec, origin):
    """One real dump as a DirOps trace: new, then (grow, flush) per write_to_file, from the `flush` hooks."""
    evs = [{"ev": "reset", "origin": origin}]
    flushes = [s for s in rec["steps"] if s.get("k") == "hook" and s.get("p") == "flush" and "obs" in s]
    if not flushes:
        return evs
    start = rec["start"]
    slots = rec.get("header", {}).get("stream_count", 18)
    first_calls = flushes[0]["obs"]["calls"]
    new_obs = {"imgLen": 32 + 12 * slots, "fpos": start, "fileHi": start, "lcp": 0, "prefixIntact": True, "tailMod": -1,
               "calls": first_calls[:1]}
    evs.append({"ev": "new", "start": start, "slots": slots, "preLen": rec.get("pre_len", 0), "dirPos": rec.get("header", {}).get("dir_rva", 32), "obs": new_obs})
    prev_len, prev_idx = 32 + 12 * slots, 0
    for k, f in enumerate(flushes):
        obs = dict(f["obs"])
        if k == 0:
            obs["calls"] = obs["calls"][1:]
        n = f["len"] - prev_len
        # the image grew by n since the last flush (nothing of it has reached the destination yet)
        evs.append({"ev": "grow", "n": n, "obs": {"imgLen": f["len"], "fpos": 0, "calls": [], "synth": True}})
        evs.append({"ev": "flush", "entry": f["idx"] > prev_idx, "obs": obs})
        prev_len, prev_idx = f["len"], f["idx"]
    return evs


def prefix_events(rec, origin):
    evs = [{"ev": "reset", "origin": origin, "outcome": rec.get("outcome")}]
    for p in rec.get("prefixes", []):
        evs.append({"ev": "prefix", "call": p["call"], "kind": p["kind"], "fileLen": p["fileLen"], "sigOk": bool(p["sigOk"]),
                    "dirComplete": bool(p["dirComplete"]), "count": p["count"] or 0, "dirRva": p["dirRva"] or 0, "entries": p["entries"]})
    return evs


def base_target(nthreads=2, names=True, **kw):
    # (the stack pointer stays inside the thread's own stack: beyond it, what is captured is whatever mapping comes next - possibly
    # the live stack of a running thread, which no comparison with the target's memory afterwards can be made against)
    t = {"threads": [{"mode": "pause", "stack_pages": 2 + (i % 3), "sp_off": (200 + 517 * i) % ((2 + (i % 3)) * 4096 - 256),
                      **({"name_hex": ("thr%d" % i).encode().hex()} if names else {})} for i in range(nthreads)]}
    t.update(kw)
    return t


def _tid_of(spec, report):
    if spec == "main":
        return report["pid"]
    if isinstance(spec, dict) and "slot" in spec:
        return report["threads"][spec["slot"]]["tid"]
    return spec


def _utf8(hexs):
    try:
        bytes.fromhex(hexs).decode("utf-8")
        return True
    except UnicodeDecodeError:
        return False


def names_event(run, d):
    """C15 projection: listed threads with the kernel's name for each, and the decoded name entries."""
    if d.get("outcome") != "ok" or "streams" not in d:
        return {"ev": "failed", "origin": run["id"], "outcome": d.get("outcome")}
    report, scn = run["report"], run["scn"]
    faults = scn.get("faults", {})
    failed = {_tid_of(s, report) for s in faults.get("name_fail", [])}
    all_fail = "ThreadName" in faults.get("failspots", [])
    comm = {t: h for t, h in d["oracle"]["comm_hex"]}
    listed = []
    for th in d["streams"]["threads"]["threads"]:
        tid = th["tid"]
        h = comm.get(tid)
        name = h[:-2] if h and h.endswith("0a") else (h or "")
        readable = (h is not None) and (tid not in failed) and (not all_fail) and _utf8(name)
        listed.append({"tid": tid, "readable": readable, "name": name})
    tn = d["streams"].get("threadnames")
    names = [{"tid": n["tid"], "name": n.get("name_hex", ""), "ok": bool(n.get("name_ok"))} for n in (tn or {}).get("names", [])]
    return {"ev": "names", "origin": run["id"], "listed": listed, "names": names, "count": (tn or {}).get("count", -1),
            "streamOk": bool(tn and tn.get("size_ok"))}


def c01_event(run, d):
    if d.get("outcome") != "ok" or "objs" not in d:
        return {"ev": "failed", "origin": run["id"], "outcome": d.get("outcome")}
    objs = []
    for o in d["objs"]:
        kinds = sorted(o["kinds"])
        alias = "+".join(kinds)
        if alias == "ctx+ctx" and "exception" in o["owners"]:
            alias += ":exception"
        objs.append({"off": o["off"], "len": o["len"], "nk": len(kinds), "alias": alias})
    st = d["streams"]
    size_ok = [t for (t, s, r) in d["dir"] if t != 0 and st.get(TYPE_NAMES.get(t, "?"), {}).get("size_ok", t in RAW_TYPES or t == 0x4767000A)]
    got = {"threads": st.get("threads", {}).get("count", -1), "names": st.get("threadnames", {}).get("count", -1),
           "mem": st.get("memlist", {}).get("count", -1)}
    scn = run["scn"]
    rsp0 = sum(1 for t in scn["target"].get("threads", []) if t.get("mode") == "rsp0")
    ne = names_event(run, d)
    held = len((run.get("end") or {}).get("pretraced", []))          # threads another tracer holds: not attachable, left out
    exp = {"threads": len(d["oracle"]["tids"]) - rsp0 - held, "names": sum(1 for t in ne.get("listed", []) if t["readable"]), "mem": got["mem"]}
    h = d["header"]
    return {"ev": "c01", "origin": run["id"], "dump_no": d.get("dump_no", 1), "imgLen": d["imgLen"], "sigOk": bool(h.get("sig_ok")), "version": h.get("version", 0),
            "count": h.get("stream_count", 0), "dirRva": h.get("dir_rva", 0), "dir": d["dir"], "sizeOk": size_ok, "objs": objs,
            "nerr": len(d.get("parse_errors", [])), "errs": d.get("parse_errors", [])[:3], "got": got, "exp": exp}


TYPE_NAMES = {3: "threads", 4: "modules", 5: "memlist", 6: "exception", 7: "sysinfo", 12: "handles", 16: "meminfo", 24: "threadnames",
              0x4767000A: "dsodebug"}
RAW_TYPES = {0x47670003, 0x47670004, 0x47670005, 0x47670006, 0x47670007, 0x47670008, 0x47670009, 0x4d7a0003, 0x4d7a0004}


def flatten_soft_errors(raw):
    """Soft-error JSON -> (well_formed, [path, ...]) in document order (see DESIGN 4/C11)."""
    try:
        doc = json.loads(raw)
    except Exception:
        return False, []
    if not isinstance(doc, list):
        return False, []
    out = []

    def scalar(x):
        return not isinstance(x, (list, dict))

    def walk(node, prefix):
        # an error is named by the chain of enum-variant keys; dicts/lists of scalars are its payload
        if isinstance(node, str):
            out.append("/".join(prefix + [node]))
        elif isinstance(node, dict):
            if all(scalar(v) for v in node.values()):
                out.append("/".join(prefix + [k for k in list(node.keys())[:1] if len(node) == 1]))
                return
            for k, v in node.items():
                if scalar(v):
                    out.append("/".join(prefix + [k]))
                elif isinstance(v, list) and all(scalar(x) for x in v) and any(not isinstance(x, str) for x in v):
                    out.append("/".join(prefix + [k]))        # tuple payload, e.g. [tid, "ESRCH"]
                elif isinstance(v, list) and not v:
                    out.append("/".join(prefix + [k]))
                else:
                    walk(v, prefix + [k])
        elif isinstance(node, list):
            for x in node:
                walk(x, prefix)
    for top in doc:
        walk(top, [])
    # keep at most three levels: deeper levels are payload (errno names, messages)
    out = ["WriteDSODebugStreamFailed" if p.startswith("WriteDSODebugStreamFailed") else p for p in out]
    return True, ["/".join(p.split("/")[:3]) for p in out]


def c11_event(run, d):
    scn, report = run["scn"], run["report"]
    faults = scn.get("faults", {})
    fp = list(faults.get("failspots", []))
    acts = faults.get("actions", [])
    exited = sum(1 for a in acts if a.get("do") == "exit")
    rsp0 = sum(1 for t in scn["target"].get("threads", []) if t.get("mode") == "rsp0")
    nthreads = 1 + len(scn["target"].get("threads", []))
    wf, paths = flatten_soft_errors(d.get("soft_errors_raw", "")) if d.get("outcome") == "ok" else (False, [])
    present = [t for (t, s, r) in d.get("dir", []) if t != 0]
    da = scn.get("writer", {}).get("direct_auxv")
    complete = isinstance(da, dict) and all(da.get(k) for k in ("phnum", "phdr", "gate", "entry"))
    nonutf8 = sum(1 for t in scn["target"].get("threads", []) if not _utf8(t.get("name_hex", "")))
    return {"ev": "c11", "origin": run["id"], "fp": fp, "nameFail": len(faults.get("name_fail", [])) + nonutf8, "threads": nthreads, "exited": exited, "refused": len(scn.get("pretrace_slots", [])) + (1 if scn.get("pretrace_main") else 0), "rsp0": rsp0,
            "prinNotRef": bool(scn.get("expect", {}).get("prinNotRef", False)), "dsoFail": bool(scn.get("expect", {}).get("dsoFail", False)),
            "unreadable": list(scn.get("unreadable", [])), "auxvComplete": bool(complete), "outcome": d.get("outcome"), "error": d.get("error", ""), "wellFormed": wf, "paths": paths, "present": present}


def c19_event(run, d, cur_writer):
    """cur_writer: the writer options in force for this dump (after the history's `set` steps)."""
    report = run["report"]
    ok = d.get("outcome") == "ok" and "streams" in d
    ev = {"ev": "c19", "origin": run["id"], "dumpNo": d.get("dump_no", 1), "outcome": d.get("outcome"), "memCount": -1, "expMem": -2, "memOk": False,
          "blamedListed": False, "excCtxRva": -1, "excCtxSize": -1, "blamedCtxRva": -2, "skip": bool(cur_writer.get("skip")),
          "principalGiven": cur_writer.get("principal") not in (None, "unset"), "principalResolves": False, "nStacks": -1, "entryOk": True, "userOk": True,
          # the caller's settings a dump changed; the settings in force (as a key); the stack sizes of the threads that do not move between dumps
          "cfgChanged": ",".join(sorted(d.get("cfg_changed", []))), "cfgKey": json.dumps(cur_writer, sort_keys=True), "parkedStacks": []}
    if not ok:
        return ev
    st = d["streams"]
    ths = st["threads"]["threads"]
    nstacks = sum(1 for t in ths if t["stack_size"] > 0)
    blamed = d["writer"]["blamed"]
    bt = next((t for t in ths if t["tid"] == blamed), None)
    ipwin = 0
    if d["opts"]["crash_context"] and bt is not None:
        # an IP window is expected when the supplied IP lies in a mapping; the projection takes it from the decoded list
        ipwin = 1 if st["memlist"]["count"] - nstacks - len(cur_writer.get("app_memory", [])) == 1 else 0
    # stacks of threads that keep running after the dump (heartbeat / spinner) legitimately differ afterwards
    running = {t["tid"] for t in report["threads"] if t.get("mode") in ("heartbeat", "spin")}
    live_stacks = {t["stack_start"] for t in ths if t["tid"] in running}
    if cur_writer.get("sanitize"):
        # sanitised stacks differ from target memory by design (C12 judges their bytes)
        live_stacks |= {t["stack_start"] for t in ths}
    parked = {t["tid"]: k for k, t in enumerate(report["threads"]) if t.get("mode") == "pause"}
    ev["parkedStacks"] = [[parked[t["tid"]], t["stack_size"]] for t in ths if t["tid"] in parked]
    mem_ok = all((m["mismatch"] == -1 and not m.get("outside")) or m["start"] in live_stacks for m in d["oracle"]["mem_compare"])
    ev.update({"memCount": st["memlist"]["count"], "expMem": nstacks + len(cur_writer.get("app_memory", [])) + ipwin, "memOk": mem_ok,
               "blamedListed": bt is not None, "excCtxRva": st["exception"]["ctx_rva"], "excCtxSize": st["exception"]["ctx_size"],
               "blamedCtxRva": bt["ctx_rva"] if bt else -2, "nStacks": nstacks})
    # options that a fresh writer configured like this one would honour: the caller's entry address (decides which module is
    # first) and the caller's mappings (listed with their identifiers)
    mods = st.get("modules", {}).get("modules", [])
    da = d["writer"].get("direct_auxv") or {}
    ev["entryOk"] = True
    if cur_writer.get("direct_auxv") and da.get("entry"):
        from . import threads as _t2
        m = _t2.find_map(_t2.parse_maps(d["oracle"]["maps"]), da["entry"])
        ev["entryOk"] = bool(mods) and m is not None and bool(m["name"]) and os.path.basename(m["name"]) == os.path.basename(mods[0].get("name", ""))
    um = d["writer"].get("user_mappings") or []
    ev["userOk"] = (not cur_writer.get("user_mappings")) or all(any(x.get("cv_id") == u["id_hex"] and x["base"] == u["start"] for x in mods) for u in um)
    pa = d["writer"].get("principal")
    if pa is not None and ev["principalGiven"]:
        from . import threads as _t
        ev["principalResolves"] = _t.find_map(_t.parse_maps(d["oracle"]["maps"]), pa) is not None
    return ev


# --------------------------------------------------------------------------------------------------------------------
# Cross pool: targets and writer configurations in which every knob the harness has is drawn independently, so that the
# per-property projections are also exercised on combinations no dedicated scenario list contains (option x option,
# option x process shape).  Each property's check runs the pool itself and applies its own projection.
CROSS_NAMES = [b"caf\xe9", b"", b"worker", b"0123456789abcde", "caf\u00e9".encode(), b"two words", b"trail ", b"two\nlines", b"carriage\r", "\U0001f600x".encode(), b"tab\there"]


def cross_scenarios(quick, seed, n=None, tag="cross"):
    import random
    rnd = random.Random(seed * 7919 + 13)
    scns = []
    for k in range(n if n is not None else (10 if quick else 120)):
        nt = rnd.choice([0, 1, 2, 4, 7, 23, 30])
        threads = []
        for i in range(nt):
            pages = rnd.choice([1, 1, 2, 3])
            t = {"mode": "pause", "stack_pages": pages, "sp_off": rnd.choice([0, 8, 0x100, 0x700, 0x7f8, 0x800, 0x900, 0xb03, 0xff8]) + 4096 * rnd.randrange(pages), "seed": 100 * k + i + 1,
                 "below": rnd.choice(["guard", "hole", "mapped"])}
            if rnd.random() < 0.7:
                t["name_hex"] = rnd.choice(CROSS_NAMES).hex()
            if rnd.random() < 0.5:
                t["words"] = [[8 * j, v] for j, v in enumerate(rnd.sample([{"region": "prin", "off": 64}, {"region": "code", "off": 16}, {"region": "data", "off": 32}, 7, 4097, {"self_stack": True, "off": 24},
                                                                          {"region_map_end": "prin", "off": 0}, {"region_map": "prin", "off": 0}], rnd.randrange(1, 4)), start=rnd.randrange(0, 10))]
            if rnd.random() < 0.12:
                t.pop("sp_off")
                t["sp_abs_below"] = rnd.choice([8, 24, 2040, 2048, 3000])          # the stack pointer in the guard page / hole below the stack
                t.pop("words", None)
            if rnd.random() < 0.15:
                t["low_addr"] = 0x10000000 + 0x100000 * i
            if rnd.random() < 0.1:
                t["unshare_files"] = True
            threads.append(t)
        regions = [{"name": "code", "len": 8192, "exec": True, "below": rnd.choice(["mapped", "guard", "hole"]), "above": rnd.choice(["mapped", "guard", "hole"])},
                   {"name": "prin", "len": 8192, "exec": rnd.random() < 0.7}, {"name": "data", "len": 4096},
                   {"name": "app0", "len": rnd.choice([1, 7, 3000, 4096, 70000]), "lead": rnd.randrange(0, 32), "at_end": True, "above": "hole"}]
        if rnd.random() < 0.3:
            regions.append({"name": "lowdata", "len": 8192, "low_addr": 0x8000000})
        tgt = {"threads": threads, "regions": regions, "pipes": rnd.randrange(0, 3), "sockets": rnd.randrange(0, 2)}
        if rnd.random() < 0.2:
            tgt["env_clear"] = True
        if rnd.random() < 0.5:
            tgt["main_name_hex"] = rnd.choice(CROSS_NAMES).hex()
        w = {"blamed": "main"}
        if nt and rnd.random() < 0.6:
            w["blamed"] = {"slot": rnd.randrange(nt)}
        if rnd.random() < 0.5 and isinstance(w["blamed"], dict):
            b = w["blamed"]["slot"]
            w["crash_context"] = {"sp": {"thread_sp": b}, "ip": rnd.choice([{"region": "code", "off": rnd.choice([0, 64, 127, 128, 8191])}, {"region": "prin", "off": 100}, "0x10", {"region_map_end": "code", "off": 0}]),
                                  "gregs_seed": 31 * k + 5, "siginfo": {"signo": rnd.choice([11, 7, 31, 6, 4]), "code": rnd.choice([1, 2, -6]), "addr": hex(rnd.getrandbits(64))}}
            if rnd.random() < 0.3:
                w["crash_context"]["tid"] = rnd.choice([0, "main", {"slot": (b + 1) % nt}])
        if rnd.random() < 0.4:
            w["size_limit"] = rnd.choice([1000, 300000, 5000000])
        if rnd.random() < 0.4:
            w["sanitize"] = True
        if rnd.random() < 0.4:
            w["skip"] = True
            w["principal"] = rnd.choice([{"region": "prin", "off": 100}, {"region": "prin", "off": 8191}, "0x30"])
        am = []
        if rnd.random() < 0.5:
            am.append({"addr": {"region": "app0"}, "len": regions[3]["len"] + rnd.choice([0, 0, 4096])})
        if nt and rnd.random() < 0.3:
            # (a region in a live frame of a thread whose stack pointer IS in its stack: a request for memory that does not exist
            # makes the dump fail, as it must, and tells nothing else)
            inside = [i for i in range(nt) if "sp_off" in threads[i]]
            pick = rnd.randrange(nt)
            if pick in inside or inside:
                am.append({"addr": {"thread_sp": pick if pick in inside else inside[pick % len(inside)], "off": 32}, "len": 64})
        if am:
            w["app_memory"] = am
        if rnd.random() < 0.25:
            w["user_mappings"] = [{"start": {"region_map": "data"}, "size": 4096, "name": "/user/lib data.so", "id_hex": "00112233445566778899aabbccddeeff"}]
        if rnd.random() < 0.25:
            w["direct_auxv"] = {"entry": {"module": "libc.so.6", "off": 0x100}}
        scns.append({"id": f"{tag}/{k}", "target": tgt, "writer": w, "want_regs": True, "want_stacks": True, "want_modules": True, "faults": {"start": rnd.choice([0, 0, 5, 4096]), "pre_len": rnd.choice([0, 300000])}})
    return scns
