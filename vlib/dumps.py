"""Running full-dump scenarios through mdw-drive and projecting the raw records onto the compact
traces the Trace_* specifications consume (the projections are part of the trusted base)."""
import json
import os
from . import core


def run_scenarios(ck, scenarios, name, timeout=3000):
    """Returns a list of runs: {scn, report, dumps: [...], end}."""
    inp = os.path.join(ck.work, f"{name}.scn.jsonl")
    out = os.path.join(ck.work, f"{name}.raw.ndjson")
    core.export_lines(scenarios, inp)
    core.drive("dump", out, inp=inp, seed=ck.seed, extra=["--workdir", ck.work], timeout=timeout)
    runs, cur = [], None
    with open(out) as f:
        for line in f:
            e = json.loads(line)
            if e["ev"] == "scenario":
                cur = {"scn": e.get("scn"), "report": e.get("report"), "dumps": [], "end": None, "error": e.get("error"), "id": e.get("id")}
                runs.append(cur)
            elif e["ev"] == "dump":
                cur["dumps"].append(e)
            elif e["ev"] == "end":
                cur["end"] = e
    if len(runs) != len(scenarios):
        raise core.ToolError(f"{name}: {len(scenarios)} scenarios but {len(runs)} runs recorded")
    bad = [r for r in runs if r["error"]]
    if bad:
        raise core.ToolError(f"{name}: target could not be started: {bad[0]['error']}")
    return runs


def dirops_events(rec, origin):
    """One real dump as a DirOps trace: new, then (grow, flush) per write_to_file, from the `flush` hooks."""
    evs = [{"ev": "reset", "origin": origin}]
    flushes = [s for s in rec["steps"] if s.get("k") == "hook" and s.get("p") == "flush" and "obs" in s]
    if not flushes:
        return evs
    start = rec["start"]
    slots = rec.get("header", {}).get("stream_count", 18)
    first_calls = flushes[0]["obs"]["calls"]
    new_obs = {"imgLen": 32 + 12 * slots, "fpos": start, "fileHi": start, "lcp": 0, "prefixIntact": True, "tailMod": -1,
               "calls": first_calls[:1]}
    evs.append({"ev": "new", "start": start, "slots": slots, "preLen": rec.get("pre_len", 0), "dirPos": rec.get("header", {}).get("dir_rva", 32), "obs": new_obs})
    prev_len, prev_idx = 32 + 12 * slots, 0
    for k, f in enumerate(flushes):
        obs = dict(f["obs"])
        if k == 0:
            obs["calls"] = obs["calls"][1:]
        n = f["len"] - prev_len
        # the image grew by n since the last flush (nothing of it has reached the destination yet)
        evs.append({"ev": "grow", "n": n, "obs": {"imgLen": f["len"], "fpos": None, "calls": [], "synth": True}})
        evs.append({"ev": "flush", "entry": f["idx"] > prev_idx, "obs": obs})
        prev_len, prev_idx = f["len"], f["idx"]
    return evs


def prefix_events(rec, origin):
    evs = [{"ev": "reset", "origin": origin, "outcome": rec.get("outcome")}]
    for p in rec.get("prefixes", []):
        evs.append({"ev": "prefix", "call": p["call"], "kind": p["kind"], "fileLen": p["fileLen"], "sigOk": bool(p["sigOk"]),
                    "dirComplete": bool(p["dirComplete"]), "count": p["count"] or 0, "dirRva": p["dirRva"] or 0, "entries": p["entries"]})
    return evs


def base_target(nthreads=2, names=True, **kw):
    t = {"threads": [{"mode": "pause", "stack_pages": 2 + (i % 3), "sp_off": 200 + 517 * i,
                      **({"name_hex": ("thr%d" % i).encode().hex()} if names else {})} for i in range(nthreads)]}
    t.update(kw)
    return t
