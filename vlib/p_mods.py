"""C08: the module list."""
import json
import os
from . import core, util, dumps, p_total

GATE = "linux-gate.so"


def _mk_files(k, workdir, rnd):
    """Files to map: (path, mkelf kind, soname, map offset, exec, delete, archive)."""
    d = os.path.join(workdir, "mods")
    os.makedirs(d, exist_ok=True)
    specs = [
        ("libwith id.so.1.2.3", "elf", "libwith.so.1", 0, True, False, False),
        ("libnosoname.so", "elf_nosoname", "", 0, True, False, False),
        ("libtexthash.so.7", "elf_noid", "libtexthash.so.7", 0, True, False, False),
        ("libzeroid.so", "elf_zeroid", "libzero.so", 0, True, False, False),
        ("data file.bin", "non_elf", "", 0, False, False, False),
        ("libgone-ünï.so.2", "elf", "libgone.so.2", 0, True, True, False),
        ("bundle.apk", "elf", "libinner.so", 0x1000, True, False, True),
        ("libreadonly.so", "elf", "libro.so", 0, False, False, False),
    ]
    rnd.shuffle(specs)
    out = []
    for j, (nm, kind, so, off, ex, dele, arch) in enumerate(specs[: rnd.randrange(3, len(specs) + 1)]):
        path = os.path.join(d, f"{k}_{nm}")
        info = p_total.mkelf(path, kind, soname=so, idseed=(17 * k + j) % 250 + 1)
        if arch:
            b = open(path, "rb").read()
            open(path, "wb").write(os.urandom(0x1000) + b)
        out.append({"path": path, "kind": kind, "soname": so, "off": off, "exec": ex, "delete": dele, "archive": arch, "oracle": info})
    if k % 3 == 0:
        # a library replaced on disk while it is loaded: the old image (deleted) and the new one (another build id) are both mapped from the same path
        path = os.path.join(d, f"{k}_libreplaced.so.4")
        p_total.mkelf(path + ".new", "elf", soname="libreplaced.so.4", idseed=(17 * k + 101) % 250 + 1)
        info = p_total.mkelf(path, "elf", soname="libreplaced.so.4", idseed=(17 * k + 100) % 250 + 1)
        out.append({"path": path, "kind": "elf", "soname": "libreplaced.so.4", "off": 0, "exec": True, "delete": True, "archive": False, "oracle": info, "recreate_from": path + ".new", "gap_before": True})
        out.append({"path": path, "kind": "elf", "soname": "libreplaced.so.4", "off": 0, "exec": True, "delete": False, "archive": False, "oracle": info, "gap_before": True})
    return out


def _scenarios(quick, seed, workdir):
    import random
    rnd = random.Random(seed)
    scns = []
    for k in range(8 if quick else 150):
        files = _mk_files(k, workdir, rnd)
        tgt = dumps.base_target(1, file_maps=[{"path": f["path"], "off": f["off"], "len": 0x3000 if not f["archive"] else 0x3000, "exec": f["exec"], "delete": f["delete"],
                                                     "split": (k + j) % 2 == 0, **{x: f[x] for x in ("recreate_from", "gap_before") if x in f},
                                                     # every fourth target: the linker's inaccessible reservation behind the first library's text (folded into the module)
                                                     **({"guard_after": 2} if (j == 0 and k % 4 == 3 and f["exec"] and not f["archive"]) else {})} for j, f in enumerate(files)])
        w = {"blamed": "main"}
        mode = k % 4
        if mode == 1:      # a caller mapping that describes the first mapped file: exactly its merged extent, or (every other time) its first three pages
            w["user_mappings"] = [{"start": {"file_map": 0, "off": 0}, "size": "group" if (k // 4) % 2 == 0 else 0x3000, "name": "/caller/provided name.so", "id_hex": "aabbccddeeff00112233445566778899"}]
            if (k // 4) % 3 != 1:
                # several caller mappings, in ascending and in descending order: one far below everything, one that contains a module
                low = {"start": "0x10000", "size": 0x2000, "name": "/caller/low.so", "id_hex": "02" * 16}
                w["user_mappings"] = [low] + w["user_mappings"] if (k // 4) % 3 == 0 else w["user_mappings"] + [low]
        if mode == 2:      # the entry point lies in the second mapped file
            w["direct_auxv"] = {"entry": {"file_map": min(1, len(files) - 1), "off": 0x100}}
        if mode == 3:      # a caller mapping elsewhere (suppresses nothing)
            w["user_mappings"] = [{"start": "0x10000", "size": 0x2000, "name": "/elsewhere.so", "id_hex": "01" * 16}]
        scns.append({"id": f"mods/{k}", "target": tgt, "writer": w, "files": files, "want_modules": True})
    return scns


def _event(run, d):
    if d.get("outcome") != "ok":
        return {"ev": "failed", "origin": run["id"], "error": d.get("error")}
    mods = d["streams"]["modules"]
    user = d["writer"].get("user_mappings", [])
    da = d["writer"].get("direct_auxv") or {}
    # entry address: the caller's, else the kernel's (AT_ENTRY of the real program)
    entry = da.get("entry") or 0
    if not entry:
        try:
            import struct
            raw = open(f"/proc/{run['report']['pid']}/auxv", "rb").read() if False else b""
        except OSError:
            raw = b""
    groups = d["oracle"]["modules_oracle"]
    # the vDSO is renamed by the dumper when the auxiliary vector says where it is
    addrs = sorted({g["start"] for g in groups} | {g["end"] for g in groups} | {m["base"] for m in mods["modules"]} | {m["base"] + m["size"] for m in mods["modules"]}
                   | {u["start"] for u in user} | {u["start"] + u["size"] for u in user})
    rank = {a: 10 * (i + 1) for i, a in enumerate(addrs)}
    cands = []
    for g in groups:
        name = g["name"]
        path = name[:-len(" (deleted)")] if name.endswith(" (deleted)") else name
        is_vdso = name == "[vdso]"
        if is_vdso:
            path = GATE
        exe = any("x" in p for p in g["perms"])
        size = g["end"] - g["start"]
        idv = g["id_file"] if (g["id_file"] is not None) else g["id_mem"]
        # the dumper reads the id from memory first, from the file otherwise: both must agree when both exist
        so = g["soname_file"] if g["soname_file"] is not None else (g["soname_mem"] or "")
        idn = "" if idv is None else ("zero" if set(idv) <= {"0"} else idv)
        in_user = any(u["start"] <= g["start"] and g["end"] <= u["start"] + u["size"] for u in user)
        dirname, base = os.path.split(path)
        cands.append({"start": rank[g["start"]], "end": rank[g["end"]], "size": size, "named": True, "off": 0 if (g["off"] == 0 or is_vdso) else 1, "exec": exe, "inUser": in_user, "id": idn, "soname": so,
                      "path": path, "replaced": os.path.join(dirname, so) if so else path, "appended": os.path.join(path, so) if so else path, "isUser": False,
                      "abs": g["start"]})
    entry_rank = 0
    e_abs = entry if entry else run["report"].get("at_entry", 0)
    for c in cands:
        if e_abs and c["abs"] <= e_abs < c["abs"] + c["size"]:
            entry_rank = c["start"]
    for c in cands:
        del c["abs"]
    uwant = [{"start": rank[u["start"]], "end": rank[u["start"] + u["size"]], "size": u["size"], "named": True, "off": 0, "exec": True, "inUser": False, "id": u["id_hex"], "soname": "", "path": u["name"] or "",
              "replaced": "", "appended": "", "isUser": True} for u in user]
    ustarts = {u["start"] for u in user}
    got = [{"start": rank[m["base"]], "size": m["size"], "endRank": rank[m["base"] + m["size"]], "name": m.get("name", ""), "sig": m.get("cv_sig", 0), "id": m.get("cv_id", ""), "isUser": m["base"] in ustarts and m.get("cv_id", "") in {u["id_hex"] for u in user}}
           for m in mods["modules"]]
    return {"ev": "modules", "origin": run["id"], "cands": cands, "entry": entry_rank, "user": uwant, "got": got, "sizeOk": bool(mods.get("size_ok"))}


def _so_version(ck):
    """The version fields of a module record come from the file name (SoVersion::parse): model checked, then every abstract
    component sequence replayed into the crate.  Conformance only (no property speaks about versions)."""
    util.mc_design(ck, "MC_SoVersion", "MC_SoVersion", "SoVersion::parse over every sequence of <= 5 components of 7 kinds (number, too large, empty, 2rc5 / 2rc / rc5 / rc shapes): the transcribed loop against what the four fields mean (ParseIsDecl), the loop as a function, termination", workers=4)
    exp = core.run_tlc("MC_SoVersion", "MC_SoVersion_export", workers=4, timeout=600)
    cases = exp["printed"].get("REPLAY", [])
    if not cases:
        raise core.ToolError("MC_SoVersion exported no cases")
    inp = os.path.join(ck.work, "sover.in.jsonl")
    core.export_lines(cases, inp)
    out = os.path.join(ck.work, "sover.ndjson")
    core.drive("sover", out, inp=inp)
    util.judge_batch(ck, "Trace_SoVersion", out, "every abstract component sequence written out as a file name (libmodel.so.<components>) and parsed by the crate through get_mapping_effective_path_name_and_version: the four version fields vs the model's",
                     "SoVersion", lambda hist, tag: ({"tag": tag}, str(hist[-1])), traces=len(cases))


def c08(ck):
    quick = ck.tier == "quick"
    mc = core.mc_or_die("ModuleList", "MC_ModuleList", workers=8, coverage=True, timeout=1500)
    util.vacuity(ck, mc, "ModuleList", ["Write", "Modules", "Listed"])
    ck.add_mc(mc, "module list for every list of <= 2 mappings (named, offset, executable, size, contained in a caller mapping, id in {none, zero, a, b}, SONAME), entry point positions, caller mappings; invariants ExactlyTheListed, EntryFirst, UserLast")
    util.mc_design(ck, "UserContain", "MC_UserContain", "is_contained_in's loop over <= 2 caller mappings (start, size) over machine words 0..4, caller mappings that exceed the address space included, saturating extents, against 'some mapping of the list contains it' read mathematically; no panic; liveness", workers=4)
    util.apalache_inductive(ck, "UserContainAp", "the same loop with saturating extents for ANY word size (Top an arbitrary positive integer) and any list of <= 3 caller mappings: IndInv inductive and implying C08_SuppressedIffContained",
                            props=["C08_SuppressedIffContained"])
    _so_version(ck)
    scns = _scenarios(quick, ck.seed, ck.work) + dumps.cross_scenarios(quick, ck.seed)
    runs = dumps.run_scenarios(ck, scns, "c08")
    evs = [_event(r, d) for r in runs for d in r["dumps"]]
    evs += [{"ev": "failed", "origin": r["id"]} for r in runs if not r["dumps"]]
    out = os.path.join(ck.work, "c08.ndjson")
    core.export_lines(evs, out)

    def describe(hist, tag):
        e = hist[-1]
        return ({"tag": tag}, f"{tag} in {e['origin']}: decoded modules {json.dumps([(g['start'], g['size'], g['name'], g['id'][:12]) for g in e['got']])[:700]}; candidate mappings {json.dumps([(c['start'], c['size'], c['path'], c['id'][:12], c['soname'], c['off'], c['exec'], c['inUser']) for c in e['cands']])[:900]}; entry {e['entry']}")
    v = util.judge_batch(ck, "Trace_ModuleList", out, "module list of dumps of targets mapping generated ELF images (with/without build-id note, SONAME, zero id, non-ELF, deleted, embedded at a non-zero offset, hostile names) plus the machine's own ld.so/libc/vDSO, with caller mappings and entry-point overrides",
                         "ModuleList", describe, traces=len(evs))
    if v.get("modules", 0) == 0:
        raise core.ToolError("vacuous: no module judged")
    ck.cov["distinct_nontrivial"] = v["checked"]
    ck.cov["modules_judged"] = v["modules"]
    ck.cov["dumps_that_failed"] = sum(1 for e in evs if e["ev"] == "failed")
    ck.cov["rule"] = "one case = one dump of a target mapping a seeded selection of generated files; every listed and every omitted mapping group is judged"
    ck.cov["decided_by"] = {"which mappings are listed, order, extents, which name variant, id equality": "spec", "build id / SONAME of each image": "harness's independent ELF reader on the file or the mapped bytes",
                            "candidate name strings (dirname/SONAME joins)": "harness projection"}
    ck.sample({"modules_event": {k: (v if k not in ("cands",) else v[:3]) for k, v in next(e for e in evs if e["ev"] == "modules").items()}})
    ck.assumptions += ["mapping groups are formed by the harness with MapsAggregate's rules (the model C13 validates), from /proc/<pid>/maps", "size_of_image is 32 bit in the format (mappings < 4 GiB)"]
    return runs
