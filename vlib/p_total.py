"""C02: totality of dumping (and of the public parsing entry points)."""
import json
import os
import subprocess
from . import core, util, dumps

BASE = {"sp": "none", "ip": "interior", "phnum": "true", "phdr": "true", "vaddr": "le_base", "dyn": "terminated", "list": "acyclic", "name": "plain", "bytes": "elf", "app": "none", "tmo": "finite", "umap": "none", "thr": "stoppable"}
U64 = (1 << 64) - 1


def mkelf(path, kind, soname="libverif.so.3", idseed=1):
    os.makedirs(os.path.dirname(path), exist_ok=True)
    p = subprocess.run([core.DRIVE, "mkelf", "--out", path, "--kind", kind, "--soname", soname, "--idseed", str(idseed)], stdout=subprocess.PIPE, text=True)
    if p.returncode != 0:
        raise core.ToolError(f"mkelf failed for {path}")
    return json.loads(p.stdout)


def scenario_for(inp, k, workdir):
    """Concretise one abstract input of Totality."""
    tdir = os.path.join(workdir, "files")
    names = {"plain": f"{tdir}/libplain{k}.so", "dev": f"/dev/shm/mdw_c02_{os.getpid()}_{k}.so", "version_multibyte": f"{tdir}/lib{k}.so.1.2.3é4",
             "no_version": f"{tdir}/noversion{k}", "many_components": f"{tdir}/lib{k}.so.1.2.3.4.5.6", "deleted": f"{tdir}/gone{k}.so"}
    path = names[inp["name"]]
    mkelf(path, inp["bytes"], idseed=k % 200 + 1)
    chain = {"names": ["", "/lib/libfirst.so", "/lib/libsecond.so.2"]}
    lst = inp["list"]
    if lst in ("cyclic", "dangling", "selfloop", "name_at_end"):
        chain[lst] = True
    if lst == "name_nonutf8":
        chain = {"names_hex": ["", "2f6c69622fffc328", "2f6c69622f6f6b"]}
    if lst == "empty":
        chain = {"names": []}
    if inp["dyn"] == "unterminated":
        chain["unterminated_dynamic"] = True
    if inp["vaddr"] == "gt_base":
        chain["load_vaddr"] = 1 << 62
    tgt = {"threads": [{"mode": "pause", "stack_pages": 2, "sp_off": 4500, "name_hex": b"worker".hex()}],
           "regions": [{"name": "code", "len": 8192, "exec": True, "below": "hole", "above": "hole"}],
           "file_maps": [{"path": path, "off": 0, "len": 0x3000, "exec": True, "delete": inp["name"] == "deleted"}],
           "linker_chain": chain}
    if inp["sp"] == "reserved_tail":
        tgt["file_maps"][0]["guard_after"] = 8
    if inp["thr"] == "vfork":
        tgt["threads"].append({"mode": "vfork"})
    da = {"phnum": {"true": 3, "zero": 0, "larger": 100000, "huge": 1 << 60, "alloc_huge": 1 << 58}[inp["phnum"]],
          "phdr": {"true": {"chain": "phdr"}, "unmapped": "0x30000", "unaligned": {"chain": "phdr", "off": 3}}[inp["phdr"]]}
    w = {"blamed": {"slot": 0}, "direct_auxv": da}
    app = {"small": [{"addr": {"region": "code"}, "len": 64}], "unmapped": [{"addr": "0x30000", "len": 64}],
           "len_over_isize": [{"addr": {"region": "code"}, "len": (1 << 63)}], "len_64TiB": [{"addr": {"region": "code"}, "len": 1 << 46}]}.get(inp["app"])
    if app:
        w["app_memory"] = app
    if inp["umap"] == "plain":
        w["user_mappings"] = [{"start": {"region": "code"}, "size": 4096, "name": "/caller/supplied.so", "id_hex": "0102030405060708"}]
    if inp["umap"] == "wraps":
        w["user_mappings"] = [{"start": {"region": "code"}, "size": U64, "name": "/caller/beyond.so", "id_hex": "0102030405060708"}]   # "from here to the end of the address space", one byte too many
    if inp["tmo"] == "zero":
        w["stop_timeout_ms"] = 0
    if inp["tmo"] == "max":
        w["stop_timeout_max"] = True      # Duration::MAX: "wait for the stop however long it takes"
    sp = {"in_stack": {"thread_sp": 0}, "guard": {"thread_stack": 0, "off": -24}, "unmapped": "0x10000", "top_page": hex(U64 - 7), "misaligned": {"thread_sp": 0, "off": 3}, "zero": 0,
          "reserved_tail": {"file_map": 0, "off": 0x3000 + 0x4000 + 0x128}}
    ip = {"interior": {"region": "code", "off": 300}, "first_bytes": {"region_map": "code", "off": 5}, "last_bytes": {"region_map_end": "code", "off": -3},
          "unmapped": "0x20000", "zero": 0, "max": hex(U64), "page_zero": "0x10"}
    if inp["ip"] == "page_zero":
        tgt["regions"].append({"name": "zero", "page_zero": True, "exec": True})
    if inp["sp"] != "none" or inp["ip"] != "interior":
        w["crash_context"] = {"sp": sp.get(inp["sp"], {"thread_sp": 0}), "ip": ip[inp["ip"]]}
    if inp["sp"] == "reserved_tail":
        w["skip"] = True
        w["principal"] = {"file_map": 0, "off": 0}
    scn = {"id": f"tot/{k}", "target": tgt, "writer": w, "timeout_ms": 3000 if inp["thr"] == "vfork" else 6000, "input": inp, "watch": [path] if inp["name"] == "dev" else []}
    if inp["phnum"] == "zero":
        # an unset count is completed from /proc/<pid>/auxv: the real program headers of the target are used
        da["phdr"] = 0
    return scn, path


def c02(ck):
    quick = ck.tier == "quick"
    util.apalache_inductive(ck, "IpWindowAp", "the bounds of the memory window around the crashing instruction for any word size, mapping and instruction pointer: no overflow (C02), the window is the part of [ip - 128, ip + 128) inside the mapping (C07)",
                            obligations=[("Init", "C02_NoPanic", 0), ("Init", "C07_Window", 0)])
    util.mc_design(ck, "MC_Totality", "MC_Totality_vfork", "the same steps for targets with a thread sleeping in vfork(): the wait for that thread's stop (known finding D22: it has no bound)",
                   workers=2, timeout=600)
    util.mc_design(ck, "MC_Totality", "MC_Totality", "every input that differs from a benign base in at most two of thirteen dimensions (a thread in vfork(), caller's stop timeout, caller-supplied mapping, requested memory region, crash SP/IP class, AT_PHNUM/AT_PHDR class, PT_LOAD vaddr, dynamic section, link_map list shape, mapped-file name and content class) through the steps of a dump; invariants Total, NoDevOpen, WalkBounded; liveness Terminates (the link_map walk)",
                   workers=4, timeout=900)
    mc = core.run_tlc("MC_Totality", "MC_Totality_export", workers=4, timeout=900)
    inputs = mc["printed"].get("REPLAY", [])
    if not inputs:
        raise core.ToolError("MC_Totality exported no inputs")
    # singles always; pairs sampled in the quick tier
    import random
    rnd = random.Random(ck.seed)
    singles = [i for i in inputs if sum(1 for d in BASE if i[d] != BASE[d]) <= 1]
    pairs = [i for i in inputs if sum(1 for d in BASE if i[d] != BASE[d]) == 2]
    # every dump of a target with a thread in vfork() runs into its time budget (finding D22): the single and a few pairs are enough
    vf = [i for i in pairs if i["thr"] == "vfork"]
    pairs = [i for i in pairs if i["thr"] != "vfork"] + rnd.sample(vf, 2 if quick else 6)
    must = [i for i in pairs if i["name"] == "dev" and i["bytes"] != "elf"]          # a file under /dev whose build id cannot be read from memory
    slow = [i for i in pairs if i["list"] in ("cyclic", "selfloop")]
    rest = [i for i in pairs if i not in must and i not in slow]
    chosen = singles + must + ((rnd.sample(rest, 40) + rnd.sample(slow, 2)) if quick else rest + slow)
    scns, files = [], []
    for k, inp in enumerate(chosen):
        s, path = scenario_for(inp, k, ck.work)
        scns.append(s)
        files.append(path)
    try:
        runs = dumps.run_scenarios(ck, scns, "c02", timeout=3000)
    finally:
        for f in files:
            if f.startswith("/dev/shm/") and os.path.exists(f):
                os.remove(f)
    evs = []
    for r in runs:
        inp = r["scn"]["input"]
        d = r["dumps"][0] if r["dumps"] else {}
        cls = "thr=vfork" if inp["thr"] == "vfork" else next((f"{dim}={inp[dim]}" for dim in BASE if inp[dim] != BASE[dim]), "base")
        _, paths = dumps.flatten_soft_errors(d.get("soft_errors_raw", "")) if d.get("outcome") == "ok" else (False, [])
        end = r["end"] or {}
        evs.append({"ev": "dump", "origin": r["id"], "input": inp, "class": cls, "worker": end.get("worker", "?"), "outcome": d.get("outcome", "none"),
                    "error": d.get("error", "")[:200], "devOpened": len(end.get("opened", [])), "dsoFailed": "WriteDSODebugStreamFailed" in paths, "wall_s": end.get("wall_s", 0)})
    pout = os.path.join(ck.work, "pure.ndjson")
    core.drive("pure", pout, seed=ck.seed, random=300 if quick else 20000)
    evs += core.read_ndjson(pout)
    out = os.path.join(ck.work, "c02.ndjson")
    core.export_lines(evs, out)

    def describe(hist, tag):
        e = hist[-1]
        if e["ev"] == "pure":
            return ({"tag": tag}, f"{e['fn']}({e['input']!r}) panicked")
        diff = {d: e["input"][d] for d in BASE if e["input"][d] != BASE[d]}
        return ({"tag": tag}, f"dump with {diff or 'the benign base input'} ({e['origin']}): worker {e['worker']}, outcome {e['outcome']} {e['error']}, /dev files opened {e['devOpened']}, {e['wall_s']:.1f}s")
    v = util.judge_batch(ck, "Trace_Totality", out, "dumps of targets concretising each abstract input (crash registers, direct auxv values, synthetic linker chain incl. cyclic/dangling lists, mapped files with hostile names/contents under inotify) in a watchdogged worker; public parsing entry points on generated inputs",
                         "Totality", describe, traces=len(evs))
    ck.cov["distinct_nontrivial"] = v["counts"]["dump"] + v["counts"]["pure"]
    ck.cov["by_kind"] = v["counts"]
    ck.cov["rule"] = "one case = one abstract input (all single deviations from the base; pairs sampled in quick, all in thorough) concretised and dumped, or one call of a parsing entry point; distinct by construction"
    ck.cov["exhaustive"] = not quick
    ck.cov["decided_by"] = {"classes of inputs, expected soft failure of the linker-data stream, termination of the link_map walk (design level)": "spec",
                            "outcome ok/err/panic/timeout": "watchdogged worker process", "files opened": "inotify IN_OPEN"}
    ck.sample({"input": chosen[3], "event": evs[3]})
    ck.assumptions += ["dev profile (overflow checks on): arithmetic overflow is a panic", "time budget per dump 6 s (a normal dump takes ~10 ms)"]
    return runs
