"""C13: mapping aggregation."""
import json
import os
from . import core, util


def c13(ck):
    quick = ck.tier == "quick"
    mc = core.mc_or_die("MC_MapsAggregate", "MC_MapsAggregate" if quick else "MC_MapsAggregate_thorough", workers=8 if quick else 14,
                        coverage=quick, timeout=3000)
    if quick:
        util.vacuity(ck, mc, "MapsAggregate", ["StepC", "Consume"])
    ck.add_mc(mc, "all sequences of MaxLines maps lines over {gap,contiguous} x permissions x offset classes x names; invariants C13 (Ascending, EveryLineOnce, Hull, MergedOnlyWhenAllowed, GateNamed), Inv_Cover" + (", Inv_Fold" if quick else ""))
    ex = core.mc_or_die("MC_MapsAggregate", "MC_MapsAggregate_export", workers=4, timeout=600)
    cases = ex["printed"].get("REPLAY", [])
    if not cases:
        raise core.ToolError("MC_MapsAggregate exported no cases")
    ck.add_mc(ex, "all sequences of 2 lines over the full alphabet, exported for replay")
    inp = os.path.join(ck.work, "agg.in")
    out = os.path.join(ck.work, "agg.ndjson")
    core.export_lines([cases], inp)
    nrand = 1500 if quick else 30000
    core.drive("aggregate", out, inp=inp, seed=ck.seed, random=nrand, extra=["--live", "--enum", "2" if quick else "3"], timeout=3000)

    def describe(hist, tag):
        e = hist[-1]
        shape = [(l["perms"], l["name"] if not l["path"] else "path", l["end"] == (e["lines"][i + 1]["start"] if i + 1 < len(e["lines"]) else -1)) for i, l in enumerate(e["lines"][:6])]
        return ({"tag": tag, "origin": e.get("origin")},
                f"aggregate() output breaks C13 ({tag}) for a {len(e['lines'])}-line map (origin {e.get('origin')}); first lines {shape}; output {json.dumps(e.get('out', e.get('error')))[:300]}")
    v = util.judge_parallel(ck, "Trace_MapsAggregate", out, "aggregate() on TLC-enumerated 2-line maps, driver-enumerated maps over the model alphabet (3 vDSO positions), random 1..60-line maps and live /proc/*/maps",
                            "MapsAggregate", describe, jobs=6 if quick else 14)
    if v.get("merged", 0) == 0:
        raise core.ToolError("vacuous: no case exercised a merge")
    ck.cov["distinct_nontrivial"] = v.get("merged", 0)
    ck.cov["rule"] = "one case = one maps text + vDSO address; counted as non-trivial when at least one merge happened (output shorter than input); enumerated cases are distinct by construction, random ones are seeded"
    ck.cov["exhaustive"] = True
    ck.cov["decided_by"] = {"ordering, containment, hull, merge legality, gate naming, every merge decision": "spec"}
    ck.sample({"model_case": cases[len(cases) // 2]})
    evs = core.read_ndjson(out) if quick else []
    if evs:
        ck.sample({"recorded_case": evs[-1] if len(json.dumps(evs[-1])) < 3000 else evs[len(cases) + 5]})
    ck.assumptions += ["addresses are projected to ranks among line boundaries (order/equality preserving); the input lines are parsed from the text by the harness's own parser",
                       "maps texts are well-formed (procfs-core parses them)"]
