"""Projections of raw dump records onto the events of Trace_Threads (C04, C05, C06, C07, C20)."""
import json

PAGE = 4096


def limbs(x):
    v = int(x, 16) if isinstance(x, str) else int(x)
    v &= (1 << 64) - 1
    return [(v >> (16 * i)) & 0xffff for i in range(4)]


def ctx_limbs(ctx):
    out = {}
    for k, v in ctx.items():
        out[k] = v if k in ("st", "xmm") else limbs(v)
    return out


def regs_limbs(regs):
    return {k: (v if k in ("st", "xmm") else limbs(v)) for k, v in regs.items()}


def parse_maps(text):
    out = []
    for l in text.splitlines():
        parts = l.split(None, 5)
        if len(parts) < 5:
            continue
        a, b = parts[0].split("-")
        out.append({"s": int(a, 16), "e": int(b, 16), "perms": parts[1], "name": parts[5].strip() if len(parts) > 5 else ""})
    return out


def find_map(maps, a):
    for m in maps:
        if m["s"] <= a < m["e"]:
            return m
    return None


def thread_modes(report):
    return {t["tid"]: t for t in report["threads"]}


def c04_events(run, d):
    if d.get("outcome") != "ok":
        return [{"ev": "failed", "origin": run["id"]}]
    report, scn = run["report"], run["scn"]
    evs = []
    regs = d["oracle"].get("regs", {})
    tmode = thread_modes(report)
    blamed_ctx = d["opts"]["crash_context"] and d["writer"]["blamed"]
    ths = d["streams"]["threads"]["threads"]
    for th in ths:
        tid = th["tid"]
        r = regs.get(str(tid))
        t = tmode.get(tid)
        if r is None or t is None or "ctx" not in th or (blamed_ctx and tid == d["writer"]["blamed"]):
            continue
        sent = t.get("sentinels", {})
        s_ok = all(int(r[k], 16) == int(v, 16) for k, v in sent.items() if not k.startswith("xmm"))
        xmm = r["xmm"]
        s_ok = s_ok and all(xmm[32 * i:32 * i + 32] == bytes.fromhex(sent[f"xmm{i}"])[::-1].hex() for i in range(16) if f"xmm{i}" in sent)
        evs.append({"ev": "c04t", "origin": run["id"], "tid": tid, "ctx": ctx_limbs(th["ctx"]), "ctxSize": th["ctx_size"], "regs": regs_limbs(r), "sentinelsOk": bool(s_ok)})
    rsp0 = {t["tid"] for t in report["threads"] if t.get("mode") == "rsp0"}
    exited = {s["tid"] for s in d["steps"] if s.get("k") == "exit"}
    kernel = set(d["oracle"]["tids"])
    # threads that cannot be attached to: held by another tracer, or a zombie thread-group leader
    unattachable = set((run.get("end") or {}).get("pretraced", []))
    if scn["target"].get("leader_exits"):
        unattachable.add(report["pid"])
    evs.append({"ev": "c04l", "origin": run["id"], "listed": [t["tid"] for t in ths], "expected": sorted(kernel - rsp0 - exited - unattachable),
                "optional": sorted(exited | unattachable)})
    return evs


def c05_event(run, d):
    if d.get("outcome") != "ok":
        return {"ev": "failed", "origin": run["id"]}
    st = d["streams"]
    x = st["exception"]
    blamed = d["writer"]["blamed"]
    bt = next((t for t in st["threads"]["threads"] if t["tid"] == blamed), None)
    exc = {"tid": x["tid"], "code": limbs(x["code"]), "flags": limbs(x["flags"]), "address": limbs(x["address"]), "ctxSize": x["ctx_size"], "ctxRva": x["ctx_rva"]}
    if "ctx" in x:
        exc["ctx"] = ctx_limbs(x["ctx"])
    ev = {"ev": "c05", "origin": run["id"], "withCtx": bool(d["opts"]["crash_context"]), "blamed": blamed, "blamedListed": bt is not None,
          "blamedCtxRva": bt["ctx_rva"] if bt else -1, "exc": exc}
    if bt is not None:
        ev["blamedCtx"] = ctx_limbs(bt["ctx"])
        r = d["oracle"].get("regs", {}).get(str(blamed))
        if r is not None and not ev["withCtx"]:
            ev["blamedRegs"] = regs_limbs(r)
    if ev["withCtx"]:
        s = d["supplied"]
        sup = {k: (v if k in ("st", "xmm") else limbs(v)) for k, v in s.items()}
        ev["supplied"] = sup
        if "ctx" not in exc:
            exc["ctx"] = {k: [0, 0, 0, 0] for k in ("rax",)}
    return ev


def _rel_maps(maps, base):
    hi = base + (1 << 30)
    out = []
    for m in maps:
        if m["e"] <= base or m["s"] >= hi:
            continue
        out.append({"s": max(m["s"], base) - base, "e": min(m["e"], hi) - base, "rw": ("r" in m["perms"][:2] or "w" in m["perms"][:2])})
    return out


def c06_events(run, d):
    if d.get("outcome") != "ok":
        return [{"ev": "failed", "origin": run["id"]}]
    maps = parse_maps(d["oracle"]["maps"])
    ths = d["streams"]["threads"]["threads"]
    n = len(ths)
    limit = d["opts"].get("size_limit")
    lim_eff = limit is not None and (252 + 48 * n + n * 8192 + 65536) > limit
    spc = {c["tid"]: c for c in d["oracle"].get("sp_compare", [])}
    evs = []
    blamed = d["writer"]["blamed"]
    for i, th in enumerate(ths):
        is_crash = bool(d["opts"]["crash_context"]) and th["tid"] == blamed
        sp = int(d["supplied"]["rsp"], 16) if is_crash else int(th["ctx"]["rsp"], 16)
        if sp < 64 * PAGE or sp > (1 << 47):
            continue
        base = (sp & ~(PAGE - 1)) - 16 * PAGE
        rs, rl = th["stack_start"], th["stack_size"]
        if rl == 0 and d["opts"].get("skip") and d["writer"].get("principal") is not None:
            continue        # left out by the skip-if-unreferenced rule: C20 (and C19 for an address that resolves to nothing) judge that
        if rl > 0 and not (base <= rs < base + (1 << 30)):
            # a region nowhere near the stack pointer: certainly not containing it
            rs_rel = 0
        else:
            rs_rel = rs - base if rl > 0 else 0
        c = spc.get(th["tid"])
        running = thread_modes(run["report"]).get(th["tid"], {}).get("mode") in ("heartbeat", "spin")
        evs.append({"ev": "c06t", "origin": run["id"], "tid": th["tid"], "idx": i, "limited": limit is not None, "limEff": bool(lim_eff), "isCrash": is_crash,
                    "sp": sp - base, "maps": _rel_maps(maps, base), "regStart": rs_rel, "regLen": rl,
                    "mismatchFromSp": -1 if (c is None or running or d["opts"]["sanitize"]) else c["mismatch"], "estimateKnown": True})
    return evs


def readable_len(maps, addr, n):
    """How many of the n bytes at addr can be read by a tracer: up to the end of the run of contiguous mappings containing addr
    (inaccessible pages included: /proc/<pid>/mem and PEEKDATA read through them; only unmapped addresses stop a read)."""
    end = addr
    while True:
        m = find_map(maps, end)
        if m is None:
            break
        end = m["e"]
        if end >= addr + n:
            return n
    return max(0, min(n, end - addr))


def _words(hexs, start):
    b = bytes.fromhex(hexs)
    return [int.from_bytes(b[i:i + 8], "little") for i in range(0, len(b) - 7, 8)]


def c20_events(run, d):
    """Only for dumps with skip enabled and a principal address."""
    if d.get("outcome") != "ok":
        return [{"ev": "failed", "origin": run["id"]}]
    maps = parse_maps(d["oracle"]["maps"])
    pa = d["writer"].get("principal")
    pm = find_map(maps, pa) if pa is not None else None
    wf_paths = run.get("_soft", {}).get(id(d))
    evs = []
    ths = d["streams"]["threads"]["threads"]
    smem = {m["tid"]: m for m in d["oracle"].get("stack_mem", [])}
    blamed = d["writer"]["blamed"]
    with_ctx = bool(d["opts"]["crash_context"])
    from . import dumps
    _, paths = dumps.flatten_soft_errors(d.get("soft_errors_raw", ""))
    soft = "PrincipalMappingNotReferenced" in paths
    crash_refs = False
    nthr = len(ths)
    limit = d["opts"].get("size_limit")
    lim_eff = limit is not None and (252 + 48 * nthr + nthr * 8192 + 65536) > limit
    if pm is not None:
        low, high = pm["s"], pm["e"]
        B = low - 64

        def rel(a):
            return 0 if a < B else (high - B + 1000 if a > high + 500 else a - B)
        for i, th in enumerate(ths):
            is_crash = with_ctx and th["tid"] == blamed
            m = smem.get(th["tid"])
            if is_crash:
                ip = int(d["supplied"]["rip"], 16)
                sp = int(d["supplied"]["rsp"], 16)
                sm = next((x for x in d["oracle"].get("stack_mem", []) if x["from"] <= ((sp + 7) & ~7) < x["from"] + len(x["hex"]) // 2), None)
                ws = _words(sm["hex"][2 * (((sp + 7) & ~7) - sm["from"]):], 0) if sm else []
            else:
                if m is None:
                    continue
                ip = int(th["ctx"]["rip"], 16)
                hexs = m["hex"]
                if lim_eff and i >= 20:
                    # under an effective size limit only the 2 KiB chunk that holds the stack pointer is kept (and scanned): words above
                    # it do not count (StackSel: ApplyLimit before Included)
                    sp_ = int(th["ctx"]["rsp"], 16)
                    vstart = sp_ & ~(PAGE - 1)
                    slen = m["from"] + len(hexs) // 2 - vstart
                    if slen > 2048:
                        skipped = (sp_ - vstart) // 2048 * 2048
                        kept_end = vstart + skipped + min(slen - skipped, 2048)
                        hexs = hexs[:2 * max(0, kept_end - m["from"])]
                ws = _words(hexs, m["from"])
            near = [rel(w) for w in ws if B <= w <= high + 64]
            if is_crash:
                crash_refs = (low <= ip < high) or any(low <= w < high for w in ws)
            evs.append({"ev": "c20t", "origin": run["id"], "tid": th["tid"], "prin": {"low": low - B, "high": high - B}, "ip": rel(ip), "words": near,
                        "included": th["stack_size"] > 0, "regionNonEmpty": True, "recordPresent": True, "contextPresent": th["ctx_size"] == 1232})
    evs.append({"ev": "c20s", "origin": run["id"], "outcome": d["outcome"], "softError": soft, "crashThreadReferences": bool(with_ctx and pm is not None and crash_refs)})
    return evs


def c07_event(run, d, app_specs):
    if d.get("outcome") != "ok":
        return {"ev": "failed", "origin": run["id"]}
    maps = parse_maps(d["oracle"]["maps"])
    st = d["streams"]
    regs = st["memlist"]["regions"]
    cmpr = d["oracle"]["mem_compare"]
    tmode = thread_modes(run["report"])
    ths = st["threads"]["threads"]
    live = {t["stack_start"] for t in ths if tmode.get(t["tid"], {}).get("mode") in ("heartbeat", "spin")}
    addrs = sorted({r["start"] for r in regs} | {a for a, _ in app_specs} | {t["stack_start"] for t in ths if t["stack_size"] > 0})
    rank = {a: i + 1 for i, a in enumerate(addrs)}
    regions = [[rank[r["start"]], r["size"], (-1 if (r["start"] in live or d["opts"]["sanitize"] and any(t["stack_start"] == r["start"] for t in ths)) else c["mismatch"])] for r, c in zip(regs, cmpr)]
    ev = {"ev": "c07", "origin": run["id"], "regions": regions, "app": [[rank[a], n] for a, n in app_specs],
          "stacks": [[rank[t["stack_start"]], t["stack_size"]] for t in ths if t["stack_size"] > 0],
          "ipMapped": False, "ipRel": 0, "mapLen": 0, "winKnown": False, "winGot": []}
    if d["opts"]["crash_context"] and any(t["tid"] == d["writer"]["blamed"] for t in ths):
        ip = int(d["supplied"]["rip"], 16)
        m = find_map(maps, ip)
        if m is not None:
            # the dumper looks the IP up in its aggregated mapping list: contiguous same-name lines are one mapping
            s, e = m["s"], m["e"]
            changed = True
            while changed:
                changed = False
                for o in maps:
                    if o["name"] and o["name"] == m["name"]:
                        if o["e"] == s:
                            s, changed = o["s"], True
                        elif o["s"] == e:
                            e, changed = o["e"], True
            ev.update({"ipMapped": True, "ipRel": ip - s, "mapLen": e - s, "winKnown": (e - s) < (1 << 30),
                       "winGot": [[r["start"] - s, r["size"]] for r in regs if s - 256 <= r["start"] <= e]})
    return ev


def c04_spin_events(run, d):
    """Spinner threads: counter in rbx, at [rsp] and in an application word (region `cnt<slot>`)."""
    if d.get("outcome") != "ok":
        return [{"ev": "failed", "origin": run["id"]}]
    evs = []
    report = run["report"]
    stacks = {s["tid"]: s for s in d.get("stack_bytes", [])}
    small = {m["start"]: m["hex"] for m in d.get("mem_small", [])}
    for slot, t in enumerate(report["threads"]):
        if t.get("mode") != "spin":
            continue
        th = next((x for x in d["streams"]["threads"]["threads"] if x["tid"] == t["tid"]), None)
        if th is None or th["tid"] not in stacks:
            continue
        reg = int(th["ctx"]["rbx"], 16)
        sp = int(th["ctx"]["rsp"], 16)
        sb = stacks[th["tid"]]
        off = sp - sb["start"]
        word = int.from_bytes(bytes.fromhex(sb["hex"][2 * off:2 * off + 16]), "little")
        cnt = report["regions"].get(f"cnt{slot}", {}).get("addr")
        if cnt not in small:
            continue
        app = int.from_bytes(bytes.fromhex(small[cnt])[:8], "little")
        base = min(reg, word, app)
        evs.append({"ev": "c04s", "origin": run["id"], "tid": t["tid"], "reg": reg - base, "stackWord": word - base, "appWord": app - base, "abs": reg})
    # order of tracer steps
    steps = d["steps"]
    idx = {k: next((i for i, s in enumerate(steps) if s.get("p") == k), None) for k in ("suspended", "dump:streams_done", "resume:begin")}
    if idx["suspended"] is not None and idx["dump:streams_done"] is not None:
        a, b = idx["suspended"], idx["dump:streams_done"]
        det = sum(1 for s in steps[a:b] if s.get("p") == "detach:before")
        # destination writes after resume are fine (soft-error stream); flushes of target-reading streams are all before streams_done by construction of the hook
        last_flush_idx = max((i for i, s in enumerate(steps) if s.get("p") == "flush"), default=0)
        flushes_after = sum(1 for s in steps[idx["resume:begin"]:] if s.get("p") == "flush") if idx["resume:begin"] is not None else 0
        evs.append({"ev": "c04o", "origin": run["id"], "detachesBeforeLastRead": det, "streamsAfterResume": max(0, flushes_after - 1)})
    return evs
