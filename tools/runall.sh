#!/bin/bash
# runs every registered quick (or $1=thorough) check; prints one line per check; exit 1 if any is non-zero
cd "$(dirname "$0")/.."
tier="${1:-quick}"
rc=0
for p in $(python3 -c "import json; print(' '.join(c['property_id'] for c in json.load(open('MANIFEST.json'))['checks']))"); do
  out=$(./check $p --tier $tier ${2:-} 2>&1); code=$?
  echo "$p exit=$code $(echo "$out" | tail -1)"
  if [ $code -ne 0 ]; then rc=1; echo "$out" | grep -E "VIOLATION|TOOL-ERROR" | head -3; fi
done
exit $rc
