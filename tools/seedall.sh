#!/bin/bash
# Regression of the checks themselves: applies every stored seeded change to /repo in turn, runs the check of the property it
# was made for (quick tier), and reports whether it was caught (exit 1 with a VIOLATION line).  /repo is restored after each.
cd "$(dirname "$0")/.."
[ -z "$(git -C /repo status --porcelain)" ] || { echo "/repo is not clean"; exit 2; }
missed=0
for d in seeded/*/; do
  s=$(basename "$d"); id=${s%%_*}
  [ -f "$d/patch.diff" ] || continue
  if ! git -C /repo apply --check "$PWD/$d/patch.diff" 2>/dev/null; then echo "$s: patch no longer applies (skipped)"; continue; fi
  git -C /repo apply "$PWD/$d/patch.diff"
  out=$(timeout 1200 ./check $id 2>&1); code=$?
  git -C /repo checkout -- .
  if [ $code -eq 1 ] && echo "$out" | grep -q "^VIOLATION property=$id"; then echo "$s: caught ($(echo "$out" | tail -1 | grep -o 'violations=[0-9]*'))"; else echo "$s: NOT caught (exit $code) $(echo "$out" | tail -1 | cut -c1-120)"; missed=$((missed+1)); fi
done
(cd harness && cargo build --offline -q 2>&1 | grep -E "^error" | head -3)
echo "missed=$missed"
exit $missed
