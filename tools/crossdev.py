#!/usr/bin/env python3
"""Development aid: run the cross pool once (n scenarios) and apply every per-property projection + trace specification,
printing the violations / drifts per property.  Not a registered check."""
import json, os, sys
sys.path.insert(0, os.path.dirname(os.path.dirname(os.path.abspath(__file__))))
from vlib import core, util, dumps, threads as th, p_dump, p_stack

n = int(sys.argv[1]) if len(sys.argv) > 1 else 40
seed = int(sys.argv[2]) if len(sys.argv) > 2 else 1
ck = core.Check("X00", "quick", seed)
core.build_harness()
runs = dumps.run_scenarios(ck, dumps.cross_scenarios(False, seed, n=n), "cross")
print("runs", len(runs), "dumps", sum(len(r["dumps"]) for r in runs), "outcomes", {o: sum(1 for r in runs for d in r["dumps"] if d.get("outcome") == o) for o in ("ok", "err", "panic")},
      "no dump", [r["id"] for r in runs if not r["dumps"]][:5])
for r in runs:
    for d in r["dumps"]:
        if d.get("outcome") != "ok":
            print("  ", r["id"], d.get("outcome"), d.get("error", "")[:200])

def judge(name, spec, evs, module):
    out = os.path.join(ck.work, f"cross_{name}.ndjson")
    core.export_lines(evs, out)
    v = core.validate_trace(spec, out)
    print(f"== {name}: events {len(evs)} viol {len(v['viol'])} drift {len(v['drift'])}")
    for (l, tag) in (v["viol"] + v["drift"])[:8]:
        e = evs[l - 1]
        brief = {k: x for k, x in e.items() if k not in ("ctx", "regs", "supplied", "exc", "blamedCtx", "blamedRegs", "maps", "objs", "lines", "entries", "listed", "names")}
        print("   ", tag, json.dumps(brief)[:600])

ok = [(r, d) for r in runs for d in r["dumps"]]
judge("C01", "Trace_Structure", [dumps.c01_event(r, d) for r, d in ok], "DumpSeq")
judge("C04", "Trace_Threads", [e for r, d in ok for e in th.c04_events(r, d)], "ThreadList")
judge("C05", "Trace_Threads", [th.c05_event(r, d) for r, d in ok], "ThreadList")
judge("C06", "Trace_Threads", [e for r, d in ok for e in th.c06_events(r, d)], "ThreadList")
def apps(r, d):
    maps = th.parse_maps(d["oracle"]["maps"])
    return [(a0, th.readable_len(maps, a0, a["len"])) for a in r["scn"]["writer"].get("app_memory", []) for a0 in [p_dump.dumps_resolve(a["addr"], r["report"])]]
judge("C07", "Trace_Threads", [th.c07_event(r, d, apps(r, d)) for r, d in ok], "ThreadList")
judge("C20", "Trace_Threads", [e for r, d in ok if r["scn"]["writer"].get("skip") for e in th.c20_events(r, d)], "ThreadList")
judge("C15", "Trace_ThreadNames", [dumps.names_event(r, d) for r, d in ok], "ThreadNames")
judge("C12", "Trace_SanitizeDump", [e for r, d in ok if r["scn"]["writer"].get("sanitize") for e in p_stack._c12_dump_events(r, d)], "Sanitize")
