#!/bin/bash
# usage: seedrun.sh <patch.diff> <check-id> [<check-id> ...]
# Applies a seeded change to /repo, runs the named checks (quick tier), and reverts the change.
cd "$(dirname "$0")/.."
P="$1"; shift
[ -z "$(git -C /repo status --porcelain)" ] || { echo "/repo is not clean"; exit 2; }
git -C /repo apply "$P" || { echo "patch does not apply"; exit 2; }
for id in "$@"; do
  out=$(./check $id 2>&1); code=$?
  echo "$id exit=$code $(echo "$out" | tail -1)"
  echo "$out" | grep -A1 -E "^VIOLATION" | grep -v "^VIOLATION\|^--" | cut -c1-260 | sort | uniq -c | sort -rn | head -4
done
git -C /repo checkout -- .
git -C /repo status --porcelain
# the harness was last built against the changed tree: rebuild it against the restored one
(cd harness && cargo build --offline -q 2>&1 | grep -E "^error" | head -3)
