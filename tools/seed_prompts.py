#!/usr/bin/env python3
"""Writes the prompt a seeding sub-agent gets for one property: tools/seed_prompt.tmpl with the property's text (id, title, statement,
quantifier - nothing else from /verif) and the agent's scratch worktree.  usage: seed_prompts.py <round> <id> [<id> ...] [--extra FILE]"""
import json
import os
import sys

ROOT = os.path.dirname(os.path.dirname(os.path.abspath(__file__)))


def main():
    args = sys.argv[1:]
    extra = ""
    if "--extra" in args:
        i = args.index("--extra")
        extra = "\n" + open(args[i + 1]).read().strip() + "\n"
        del args[i:i + 2]
    rnd, ids = args[0], args[1:]
    props = {json.loads(l)["id"]: json.loads(l) for l in open(os.path.join(ROOT, "properties.jsonl"))}
    tmpl = open(os.path.join(ROOT, "tools", "seed_prompt.tmpl")).read()
    for pid in ids:
        d = props[pid]
        block = f"{d['id']} — {d['title']}\n\nStatement: {d['statement']}\n\nQuantifier: {d['quantifier']['text']}\n"
        wt = f"/tmp/wt{rnd}_{pid}"
        open(f"/tmp/agent{rnd}_prompt_{pid}.txt", "w").write(tmpl.replace("@WT@", wt).replace("@PROPERTY@", block).replace("@EXTRA@", extra))
        print(f"/tmp/agent{rnd}_prompt_{pid}.txt")


if __name__ == "__main__":
    main()
