#!/bin/bash
# usage: seedcheck.sh <worktree> <demo-test-name>     (run in a scratch worktree prepared by a mutation agent)
# Confirms: with the patch the existing suite passes and the demo fails; without it the demo passes.
# (no `git stash`: the stash is shared between worktrees)
WT="$1"; DEMO="$2"
cd "$WT" || exit 2
export CARGO_NET_OFFLINE=true
P="$WT/_seed/patch.diff"
git checkout -q -- src && git apply "$P" || { echo "patch does not apply"; exit 2; }
echo "== with change: existing suite"
cargo test --offline --no-fail-fast 2>&1 | grep -E "^test result|^test .* FAILED|failed|Running" | grep -v "$DEMO" | tail -30
echo "== with change: demo ($DEMO) (expected: FAIL)"
cargo test --offline --test "$DEMO" 2>&1 | grep -E "^test |test result" | tail -12
echo "== without change: demo (expected: pass)"
git apply -R "$P"
cargo test --offline --test "$DEMO" 2>&1 | grep -E "^test |test result" | tail -12
git apply "$P"
git diff --stat -- src
