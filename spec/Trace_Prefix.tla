---------------------------- MODULE Trace_Prefix ----------------------------
(* C10 on real dumps: after EVERY call the writer made on the destination, what has reached the
   destination (decoded by the independent decoder) must be a consistent truncated minidump.
   One `prefix` event per destination call; `reset` separates dumps.  For dumps aborted by an
   injected destination failure the outcome must be an error (never a panic / a success).      *)
EXTENDS Integers, Sequences, FiniteSets, TLC, Json, IOUtils
Rec == ndJsonDeserialize(IOEnv.TRACE)
HdrLen == 32
EntLen == 12
VARIABLES l, viol, drift, nchk, lastLen, lastSet
vars == <<l, viol, drift, nchk, lastLen, lastSet>>
E == Rec[l]
Has(r, f) == f \in DOMAIN r
NTag(seq, tag) == Cardinality({k \in 1..Len(seq) : seq[k][2] = tag})
Note(cond, seq, tag) == IF cond \/ NTag(seq, tag) >= 60 THEN seq ELSE Append(seq, <<l, tag>>)
Init == l = 1 /\ viol = <<>> /\ drift = <<>> /\ nchk = 0 /\ lastLen = 0 /\ lastSet = {}

(* entry = <<type, rva, size, end of everything the stream references>> *)
EntryOk(e, fileLen) == e[1] = 0 \/ (e[2] + e[3] <= fileLen /\ e[4] <= fileLen)
HeaderAndDir(e) == e.sigOk /\ e.dirComplete /\ e.fileLen >= e.dirRva + EntLen * e.count /\ e.count > 0
PrefixConsistent(e) == e.fileLen > 0 => HeaderAndDir(e) /\ \A k \in 1..Len(e.entries) : EntryOk(e.entries[k], e.fileLen)
SetEntries(e) == {k \in 1..Len(e.entries) : e.entries[k][1] # 0}

Reset == /\ E.ev = "reset" /\ lastLen' = 0 /\ lastSet' = {}
         /\ viol' = Note(~Has(E, "injected") \/ E.outcome = "err", viol, "C10-abort-not-an-error")
         /\ UNCHANGED <<drift, nchk>>
Prefix == /\ E.ev = "prefix"
          /\ viol' = Note(E.fileLen > 0 => HeaderAndDir(E), Note(E.fileLen > 0 /\ HeaderAndDir(E) => \A k \in 1..Len(E.entries) : EntryOk(E.entries[k], E.fileLen), viol, "C10-entry-before-its-bytes"), "C10-header-or-directory-missing")
          \* the destination only grows and directory entries, once set, stay set (DirSection's protocol)
          /\ drift' = Note(E.fileLen >= lastLen /\ lastSet \subseteq SetEntries(E), drift, "prefix-monotone")
          /\ lastLen' = E.fileLen /\ lastSet' = SetEntries(E) /\ nchk' = nchk + 1
Next == l <= Len(Rec) /\ (Reset \/ Prefix) /\ l' = l + 1
Spec == Init /\ [][Next]_vars
Verdict == l = Len(Rec) + 1 =>
   PrintT(<<"VERDICT", ToJson([events |-> Len(Rec), checked |-> nchk, viol |-> viol, drift |-> drift])>>)
Accepted == TLCGet("stats").diameter = Len(Rec) + 1
=============================================================================
