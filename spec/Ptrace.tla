------------------------------- MODULE Ptrace -------------------------------
(***************************************************************************)
(* Tracer / kernel / target model for properties C03 and the schedule part *)
(* of C04.                                                                 *)
(*                                                                         *)
(* Tracer = PtraceDumper (src/linux/ptrace_dumper.rs) driven by            *)
(* MinidumpWriter::dump: stop_process (kill SIGSTOP + poll), enumerate     *)
(* threads, suspend_thread per thread (PTRACE_ATTACH, waitpid loop with    *)
(* re-injection of non-SIGSTOP signals, sandbox-thread check), the stream  *)
(* writers (abstracted to NFaultSteps memory-reading steps, each of which  *)
(* may fail hard), resume_threads (PTRACE_DETACH per thread), the          *)
(* soft-error stream, and Drop (resume_threads again + kill SIGCONT).      *)
(*                                                                         *)
(* Kernel rules modelled (Linux 6.x, checked by experiment, DESIGN App. B):*)
(*  - SIGSTOP sent to the process group-stops every running untraced       *)
(*    thread when some thread dequeues it;                                 *)
(*  - PTRACE_ATTACH queues a thread-private SIGSTOP; a group-stopped       *)
(*    thread moves to ptrace-stop reporting SIGSTOP at once while the      *)
(*    queued one stays pending;                                            *)
(*  - a traced running thread that dequeues a signal stops and reports it; *)
(*    the lowest-numbered pending signal is dequeued first (SIGSTOP = 19   *)
(*    before a realtime signal >= 34), except for the race in which the    *)
(*    signal had been dequeued just before the attach;                     *)
(*  - PTRACE_CONT(sig) delivers sig; PTRACE_DETACH(0) discards the         *)
(*    reported signal; SIGCONT flushes pending stop signals and ends the   *)
(*    group stop; a stopped thread does not run and cannot exit;           *)
(*  - a thread in vfork() sleeps in the kernel until its child execs or    *)
(*    exits (`asleep`, ended by Wake): it takes no signal meanwhile - not  *)
(*    the process-wide SIGSTOP, not the SIGSTOP of PTRACE_ATTACH, which    *)
(*    stays pending - and reports nothing; when it wakes it takes part in  *)
(*    a group stop that is in effect; PTRACE_DETACH of a tracee that is    *)
(*    not in a ptrace stop fails with ESRCH and changes nothing.           *)
(***************************************************************************)
EXTENDS Naturals, Sequences, FiniteSets, TLC
CONSTANTS T,            \* thread ids, 1 is the leader
          Sandbox,      \* subset of T \ {1}: seccomp "trusted" threads running with a null stack pointer
          MaxSend,      \* queued (realtime) signals sent per thread
          RtDecodable,  \* TRUE: the tracer can decode a realtime signal reported by waitpid and re-injects it;
                        \* FALSE: waitpid fails with EINVAL for it (nix cannot represent the signal), the thread is detached with signal 0
          Slow,         \* subset of T \ {1}: threads that sit in vfork() when the dump starts
          WaitGivesUp,  \* FALSE: suspend_thread waits for the attached thread's stop however long it takes - also when the wait is interrupted
                        \* by a signal to the dumping thread (EINTR: it waits again); TRUE: it gives up (after a while, or at the first
                        \* EINTR), "detaches" (ESRCH, taken for "already gone") and drops the thread from its list
          MayExit,      \* TRUE: non-leader threads may exit while running
          NFaultSteps   \* abstract stream steps that read the target; a hard failure may hit any of them

VARIABLES st,        \* thread state: "run", "gstop" (group stop), "tstop" (ptrace stop), "dead"
          traced, pendStop, pendRt, stopsig, reported, sent, delivered, lost,
          pstopped, shStop,           \* process in group stop; process-wide SIGSTOP pending
          asleep,                     \* thread sleeps in the kernel (vfork) and takes no signal
          pc, threads, cur, suspended, softErr, step, ran
vars == <<st, traced, pendStop, pendRt, stopsig, reported, sent, delivered, lost, pstopped, shStop, asleep,
          pc, threads, cur, suspended, softErr, step, ran>>
kvars == <<st, traced, pendStop, pendRt, stopsig, reported, delivered, lost, pstopped, shStop, asleep>>
tvars == <<pc, threads, cur, suspended, softErr, step>>

Alive(t) == st[t] # "dead"
Init ==
  /\ st = [t \in T |-> "run"] /\ traced = [t \in T |-> FALSE]
  /\ pendStop = [t \in T |-> FALSE] /\ pendRt = [t \in T |-> 0]
  /\ stopsig = [t \in T |-> "none"] /\ reported = [t \in T |-> TRUE]
  /\ sent = [t \in T |-> 0] /\ delivered = [t \in T |-> 0] /\ lost = [t \in T |-> 0]
  /\ pstopped = FALSE /\ shStop = FALSE /\ asleep = [t \in T |-> t \in Slow]
  /\ pc = "stop_process" /\ threads = <<>> /\ cur = 1 /\ suspended = FALSE /\ softErr = {} /\ step = 0
  /\ ran = [t \in T |-> FALSE]

(* ------------------------------ environment ------------------------------ *)
Send(t) == /\ Alive(t) /\ sent[t] < MaxSend
           /\ sent' = [sent EXCEPT ![t] = @ + 1] /\ pendRt' = [pendRt EXCEPT ![t] = @ + 1]
           /\ UNCHANGED <<st, traced, pendStop, stopsig, reported, delivered, lost, pstopped, shStop, asleep, tvars, ran>>
Exit(t) == /\ MayExit /\ t # 1 /\ st[t] = "run" /\ ~traced[t] /\ ~asleep[t]
           /\ st' = [st EXCEPT ![t] = "dead"]
           /\ UNCHANGED <<traced, pendStop, pendRt, stopsig, reported, sent, delivered, lost, pstopped, shStop, asleep, tvars, ran>>
Wake(t) == /\ asleep[t] /\ asleep' = [asleep EXCEPT ![t] = FALSE]         \* the vfork child execs or exits
           /\ UNCHANGED <<st, traced, pendStop, pendRt, stopsig, reported, sent, delivered, lost, pstopped, shStop, tvars, ran>>

(* -------------------------------- kernel --------------------------------- *)
Dequeue(t) ==
  /\ st[t] = "run" /\ ~asleep[t]
  /\ \/ /\ pendStop[t] \/ (shStop /\ ~traced[t])          \* a stop signal is dequeued first
        /\ IF traced[t]
             THEN /\ pendStop[t]
                  /\ st' = [st EXCEPT ![t] = "tstop"] /\ stopsig' = [stopsig EXCEPT ![t] = "STOP"]
                  /\ reported' = [reported EXCEPT ![t] = FALSE] /\ pendStop' = [pendStop EXCEPT ![t] = FALSE]
                  /\ UNCHANGED <<pstopped, shStop>>
             ELSE /\ pstopped' = TRUE /\ shStop' = FALSE /\ pendStop' = [pendStop EXCEPT ![t] = FALSE]
                  /\ st' = [u \in T |-> IF st[u] = "run" /\ ~traced[u] /\ ~asleep[u] THEN "gstop" ELSE st[u]]
                  /\ UNCHANGED <<stopsig, reported>>
        /\ UNCHANGED <<pendRt, delivered, ran>>
     \/ /\ ~pendStop[t] /\ ~(shStop /\ ~traced[t]) /\ ~(pstopped /\ ~traced[t]) /\ pendRt[t] > 0
        /\ pendRt' = [pendRt EXCEPT ![t] = @ - 1]
        /\ IF traced[t]
             THEN /\ st' = [st EXCEPT ![t] = "tstop"] /\ stopsig' = [stopsig EXCEPT ![t] = "RT"]
                  /\ reported' = [reported EXCEPT ![t] = FALSE] /\ UNCHANGED <<delivered, ran>>
             ELSE /\ delivered' = [delivered EXCEPT ![t] = @ + 1] /\ ran' = [ran EXCEPT ![t] = TRUE]
                  /\ UNCHANGED <<st, stopsig, reported>>
        /\ UNCHANGED <<pendStop, pstopped, shStop>>
     \* a thread that wakes while the group stop is in effect takes part in it
     \/ /\ ~pendStop[t] /\ ~shStop /\ pstopped /\ ~traced[t]
        /\ st' = [st EXCEPT ![t] = "gstop"]
        /\ UNCHANGED <<pendStop, pendRt, stopsig, reported, delivered, ran, pstopped, shStop>>
     \* the race: the realtime signal had been dequeued just before PTRACE_ATTACH took effect, so it is reported before the attach SIGSTOP
     \/ /\ traced[t] /\ pendStop[t] /\ pendRt[t] > 0
        /\ pendRt' = [pendRt EXCEPT ![t] = @ - 1]
        /\ st' = [st EXCEPT ![t] = "tstop"] /\ stopsig' = [stopsig EXCEPT ![t] = "RT"]
        /\ reported' = [reported EXCEPT ![t] = FALSE]
        /\ UNCHANGED <<pendStop, delivered, ran, pstopped, shStop>>
  /\ UNCHANGED <<traced, sent, lost, asleep, tvars>>
Run(t) == /\ st[t] = "run" /\ ~asleep[t] /\ ~ran[t] /\ ran' = [ran EXCEPT ![t] = TRUE]
          /\ UNCHANGED <<kvars, sent, tvars>>

(* -------------------------------- tracer --------------------------------- *)
Tr(newpc) == pc' = newpc
DropCur == threads' = [i \in 1..(Len(threads)-1) |-> IF i < cur THEN threads[i] ELSE threads[i+1]]
(* kernel effect of PTRACE_DETACH(t, data = 0): the reported signal (if any) is discarded *)
DetachK(t) ==
  /\ traced' = [traced EXCEPT ![t] = FALSE]
  /\ st' = [st EXCEPT ![t] = IF st[t] = "tstop" THEN (IF pstopped THEN "gstop" ELSE "run") ELSE st[t]]
  /\ lost' = [lost EXCEPT ![t] = IF stopsig[t] = "RT" /\ st[t] = "tstop" THEN @ + 1 ELSE @]
  /\ stopsig' = [stopsig EXCEPT ![t] = "none"] /\ reported' = [reported EXCEPT ![t] = TRUE]

StopProcess ==    \* kill(SIGSTOP) succeeded, or the fail point / an error
  /\ pc = "stop_process"
  /\ \/ shStop' = TRUE /\ UNCHANGED softErr
     \/ shStop' = shStop /\ softErr' = softErr \cup {"StopProcessFailed"}
  /\ Tr("poll")
  /\ UNCHANGED <<st, traced, pendStop, pendRt, stopsig, reported, sent, delivered, lost, pstopped, asleep, threads, cur, suspended, step, ran>>
Poll ==           \* the leader is seen stopped, or the poll times out
  /\ pc = "poll"
  /\ \/ st[1] = "gstop" /\ UNCHANGED softErr
     \/ st[1] # "gstop" /\ softErr' = softErr \cup {"StopProcessFailed"}
  /\ Tr("enumerate")
  /\ UNCHANGED <<kvars, sent, threads, cur, suspended, step, ran>>
SeqOf(S) == CHOOSE s \in [1..Cardinality(S) -> S] : \A i, j \in 1..Cardinality(S) : i < j => s[i] < s[j]
Enumerate ==
  /\ pc = "enumerate" /\ threads' = SeqOf({t \in T : Alive(t)}) /\ cur' = 1 /\ Tr("attach")
  /\ UNCHANGED <<kvars, sent, suspended, softErr, step, ran>>
Attach ==         \* suspend_threads: next thread, or all done
  /\ pc = "attach"
  /\ IF cur > Len(threads)
       THEN /\ suspended' = TRUE /\ Tr("streams") /\ step' = 0
            /\ ran' = [t \in T |-> FALSE]                   \* registers and memory are captured from here on
            /\ UNCHANGED <<st, traced, pendStop, stopsig, reported, threads, cur, softErr>>
       ELSE LET t == threads[cur] IN
            IF ~Alive(t)
              THEN /\ DropCur /\ softErr' = softErr \cup {"AttachFailed"} /\ Tr("attach")
                   /\ UNCHANGED <<st, traced, pendStop, stopsig, reported, cur, suspended, step, ran>>
              ELSE /\ traced' = [traced EXCEPT ![t] = TRUE] /\ pendStop' = [pendStop EXCEPT ![t] = TRUE]
                   /\ IF st[t] = "gstop"
                        THEN /\ st' = [st EXCEPT ![t] = "tstop"] /\ stopsig' = [stopsig EXCEPT ![t] = "STOP"]
                             /\ reported' = [reported EXCEPT ![t] = FALSE]
                        ELSE UNCHANGED <<st, stopsig, reported>>
                   /\ Tr("wait") /\ UNCHANGED <<threads, cur, suspended, softErr, step, ran>>
  /\ UNCHANGED <<pendRt, sent, delivered, lost, pstopped, shStop, asleep>>
(* the wait is given up: PTRACE_DETACH of a thread that has not stopped fails with ESRCH, which the detach helper takes for success;
   the thread is dropped from the list (nothing will detach it later), still attached, its SIGSTOP still pending *)
WaitGiveUp ==
  /\ WaitGivesUp /\ pc = "wait"
  /\ LET t == threads[cur] IN ~(st[t] = "tstop" /\ ~reported[t])
  /\ DropCur /\ softErr' = softErr \cup {"WaitPidError"} /\ Tr("attach")
  /\ UNCHANGED <<kvars, sent, cur, suspended, step, ran>>
Wait ==           \* the waitpid loop of suspend_thread
  /\ pc = "wait"
  /\ LET t == threads[cur] IN
     /\ st[t] = "tstop" /\ ~reported[t]
     /\ IF stopsig[t] = "STOP"
          THEN /\ reported' = [reported EXCEPT ![t] = TRUE]
               /\ IF t \in Sandbox                              \* rsp == 0: detach, report DetachSkippedThread, drop
                    THEN /\ traced' = [traced EXCEPT ![t] = FALSE]
                         /\ st' = [st EXCEPT ![t] = IF pstopped THEN "gstop" ELSE "run"]
                         /\ stopsig' = [stopsig EXCEPT ![t] = "none"]
                         /\ DropCur /\ softErr' = softErr \cup {"DetachSkippedThread"} /\ UNCHANGED <<cur, delivered, lost>>
                    ELSE /\ cur' = cur + 1 /\ UNCHANGED <<st, traced, stopsig, delivered, lost, threads, softErr>>
               /\ Tr("attach")
          ELSE IF RtDecodable
            THEN \* ptrace::cont(pid, sig): re-inject; the handler runs when the thread resumes
                 /\ st' = [st EXCEPT ![t] = "run"] /\ delivered' = [delivered EXCEPT ![t] = @ + 1]
                 /\ stopsig' = [stopsig EXCEPT ![t] = "none"] /\ reported' = [reported EXCEPT ![t] = TRUE]
                 /\ Tr("wait") /\ UNCHANGED <<traced, lost, threads, cur, softErr>>
            ELSE \* waitpid -> Err(EINVAL): ptrace_detach(child) (signal 0), Err(WaitPidError), thread dropped from the list
                 /\ DetachK(t) /\ DropCur /\ softErr' = softErr \cup {"WaitPidError"} /\ Tr("attach")
                 /\ UNCHANGED <<delivered, cur>>
  /\ UNCHANGED <<pendStop, pendRt, sent, pstopped, shStop, asleep, suspended, step, ran>>
Streams ==        \* each step reads the target; it may fail hard (then the dump unwinds to Drop)
  /\ pc = "streams"
  /\ \/ /\ step < NFaultSteps /\ step' = step + 1 /\ Tr("streams") /\ UNCHANGED cur
     \/ /\ step < NFaultSteps /\ step' = step /\ Tr("drop") /\ cur' = 1
     \/ /\ step = NFaultSteps /\ step' = step /\ Tr("resume") /\ cur' = 1
  /\ UNCHANGED <<kvars, sent, threads, suspended, softErr, ran>>
(* resume_threads: one PTRACE_DETACH per listed thread, only if `threads_suspended` *)
DetachLoop(here, next) ==
  /\ pc = here
  /\ IF suspended /\ cur <= Len(threads)
       THEN /\ DetachK(threads[cur]) /\ cur' = cur + 1 /\ Tr(here) /\ UNCHANGED suspended
       ELSE /\ suspended' = FALSE /\ cur' = 1 /\ Tr(next) /\ UNCHANGED <<st, traced, stopsig, reported, lost>>
  /\ UNCHANGED <<pendStop, pendRt, sent, delivered, pstopped, shStop, asleep, threads, softErr, step, ran>>
Resume == DetachLoop("resume", "softerr")
SoftErr == pc = "softerr" /\ Tr("drop") /\ UNCHANGED <<kvars, sent, threads, cur, suspended, softErr, step, ran>>
Drop == DetachLoop("drop", "sigcont")
SigCont ==        \* kill(SIGCONT): flushes every pending stop signal, ends the group stop
  /\ pc = "sigcont" /\ Tr("done")
  /\ pstopped' = FALSE /\ shStop' = FALSE /\ pendStop' = [t \in T |-> FALSE]
  /\ st' = [t \in T |-> IF st[t] = "gstop" THEN "run" ELSE st[t]]
  /\ UNCHANGED <<traced, pendRt, stopsig, reported, sent, delivered, lost, asleep, threads, cur, suspended, softErr, step, ran>>

Tracer == StopProcess \/ Poll \/ Enumerate \/ Attach \/ Wait \/ WaitGiveUp \/ Streams \/ Resume \/ SoftErr \/ Drop \/ SigCont
Kernel == \E t \in T : Dequeue(t) \/ Run(t)
Env    == \E t \in T : Send(t) \/ Exit(t) \/ Wake(t)
Next == Tracer \/ Kernel \/ Env
Spec == Init /\ [][Next]_vars /\ WF_vars(Tracer) /\ \A t \in T : WF_vars(Dequeue(t)) /\ WF_vars(Wake(t))

(* ------------------------------ properties ------------------------------- *)
Listed(t) == \E i \in 1..Len(threads) : threads[i] = t
C03_NoneLeftAttached == pc = "done" => \A t \in T : Alive(t) => ~traced[t] /\ st[t] # "tstop"
C03_NoDup  == \A t \in T : delivered[t] <= sent[t]
C03_NoLoss == \A t \in T : lost[t] = 0
C03_Eventually == <>[](pc = "done" /\ \A t \in T : Alive(t) => st[t] = "run" /\ delivered[t] + pendRt[t] = sent[t] /\ (sent[t] = MaxSend => pendRt[t] = 0))
C04_NoRunBetweenCaptures == pc = "streams" => \A t \in T : Listed(t) => ~ran[t]
C04_ListedOnce == \A i, j \in 1..Len(threads) : threads[i] = threads[j] => i = j
C04_SandboxOmitted == pc = "streams" => \A t \in Sandbox : ~Listed(t)
=============================================================================
