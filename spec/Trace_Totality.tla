--------------------------- MODULE Trace_Totality ---------------------------
(* C02 on the real code: every recorded dump (one per abstract input of Totality, concretised by the
   harness: crash-context registers, auxv values, a synthetic linker chain in the target's memory,
   mapped files with hostile names and contents) must return a value within its time budget, never
   panic, and never open a mapped file under /dev; every recorded call of a public parsing entry
   point must return a value.  Conformance: the dump succeeds and reports the linker-data failure
   exactly when Totality says that step yields an error value.                                   *)
EXTENDS Totality, Integers, Json, IOUtils
Rec == ndJsonDeserialize(IOEnv.TRACE)
VARIABLES l, viol, drift, nchk, cnt
tvars == <<vars, l, viol, drift, nchk, cnt>>
E == Rec[l]
Has(r, f) == f \in DOMAIN r
NTag(seq, tag) == Cardinality({k \in 1..Len(seq) : seq[k][2] = tag})
Note(cond, seq, tag) == IF cond \/ NTag(seq, tag) >= 60 THEN seq ELSE Append(seq, <<l, tag>>)
TInit == /\ l = 1 /\ viol = <<>> /\ drift = <<>> /\ nchk = 0 /\ cnt = [dump |-> 0, pure |-> 0]
         /\ inp = Base /\ pc = "trace" /\ outcome = "running" /\ softErrs = {} /\ opened = {} /\ cur = 0 /\ count = 0 /\ dynpos = 0
Dump == /\ E.ev = "dump"
        /\ LET v1 == Note(E.worker # "timeout", viol, "C02-dump-did-not-return-" \o E.class)
               v2 == Note(E.worker = "timeout" \/ (E.worker = "exited" /\ E.outcome \in {"ok", "err"}), v1, "C02-panic-or-crash-" \o E.class)
               v3 == Note(E.devOpened = 0, v2, "C02-opened-a-file-under-dev")
           IN viol' = v3
        /\ drift' = Note((E.input.thr = "vfork" /\ ~WaitHasDeadline) = (E.worker = "timeout"),
                    Note(E.worker = "exited" /\ E.outcome \in {"ok", "err"} => (E.outcome = "err") = AppFails(E.input),
                         Note(E.worker = "exited" /\ E.outcome = "ok" => (E.dsoFailed = DsoFails(E.input)), drift, "linker-data-outcome"), "hard-error-outcome"), "wait-for-the-stop-outcome")
        /\ cnt' = [cnt EXCEPT !.dump = @ + 1] /\ nchk' = nchk + 1
Pure == /\ E.ev = "pure"
        /\ viol' = Note(E.outcome # "panic", viol, "C02-panic-in-" \o E.fn)
        /\ drift' = drift /\ cnt' = [cnt EXCEPT !.pure = @ + 1] /\ nchk' = nchk + 1
TNext == l <= Len(Rec) /\ (Dump \/ Pure) /\ l' = l + 1 /\ UNCHANGED vars
TSpec == TInit /\ [][TNext]_tvars
Verdict == l = Len(Rec) + 1 =>
   PrintT(<<"VERDICT", ToJson([events |-> Len(Rec), checked |-> nchk, counts |-> cnt, viol |-> viol, drift |-> drift])>>)
Accepted == TLCGet("stats").diameter = Len(Rec) + 1
=============================================================================
