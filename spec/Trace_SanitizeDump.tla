------------------------- MODULE Trace_SanitizeDump -------------------------
(* C12 on whole dumps taken with sanitising on (alone and together with the size limit and with skip-if-unreferenced):
   every pointer-sized word of every dumped stack is compared with the same word of the target's memory and classified
   by the harness from /proc/<pid>/maps: position (below / at-or-above the stack pointer / trailing partial word),
   what the dump holds (zero, same as memory, the sentinel, something else), and what the memory word is (small integer,
   address inside the thread's own stack mapping, address inside an executable mapping, anything else).  One event per
   dumped stack carries the count of words for each combination that occurred; this specification says which
   combinations C12 allows. *)
EXTENDS Integers, Sequences, FiniteSets, TLC, Json, IOUtils
Rec == ndJsonDeserialize(IOEnv.TRACE)
VARIABLES l, viol, drift, nchk, nwords
vars == <<l, viol, drift, nchk, nwords>>
E == Rec[l]
NTag(seq, tag) == Cardinality({k \in 1..Len(seq) : seq[k][2] = tag})
Note(cond, seq, tag) == IF cond \/ NTag(seq, tag) >= 60 THEN seq ELSE Append(seq, <<l, tag>>)
Init == l = 1 /\ viol = <<>> /\ drift = <<>> /\ nchk = 0 /\ nwords = 0
Keeps == {"small", "ownstack", "exec"}
(* c = [pos, dump, mem, n]: n words at position pos whose dumped value relates to memory as `dump` and whose memory value is of class `mem` *)
Allowed(c) == CASE c.pos = "below" -> c.dump = "zero"
                [] c.pos = "tail"  -> c.dump = "zero"
                [] OTHER           -> IF c.mem \in Keeps THEN c.dump = "same" ELSE c.dump \in {"sentinel"} \/ (c.dump = "same" /\ c.mem = "sentinel")
Stack == /\ E.ev = "c12d"
         /\ LET v1 == Note(E.sameLength, viol, "C12-region-length-changed")
                v2 == Note(\A k \in 1..Len(E.combos) : Allowed(E.combos[k]), v1, "C12-word-in-dump")
            IN viol' = v2
         /\ drift' = drift /\ nchk' = nchk + 1
         /\ nwords' = nwords + Len(E.combos)
Failed == E.ev = "failed" /\ UNCHANGED <<viol, drift, nchk, nwords>>
Next == l <= Len(Rec) /\ (Stack \/ Failed) /\ l' = l + 1
Spec == Init /\ [][Next]_vars
Verdict == l = Len(Rec) + 1 =>
   PrintT(<<"VERDICT", ToJson([events |-> Len(Rec), checked |-> nchk, combos |-> nwords, viol |-> viol, drift |-> drift])>>)
Accepted == TLCGet("stats").diameter = Len(Rec) + 1
=============================================================================
