-------------------------- MODULE Trace_ProcStreams --------------------------
(* C18 on real dumps: the OS / process information streams against what the kernel reports for the
   (blocked) target, read by the harness: raw copies, memory-info list vs /proc/<pid>/maps lines
   (ProcStreams!MemInfoOf), handle descriptors vs /proc/<pid>/fd, system information vs
   /proc/cpuinfo + uname, linker debug list vs the chain the resolved auxv leads to.           *)
EXTENDS ProcStreams, Integers, Json, IOUtils
Rec == ndJsonDeserialize(IOEnv.TRACE)
VARIABLES l, viol, drift, nchk, cnt
tvars == <<vars, l, viol, drift, nchk, cnt>>
E == Rec[l]
Has(r, f) == f \in DOMAIN r
NTag(seq, tag) == Cardinality({k \in 1..Len(seq) : seq[k][2] = tag})
Note(cond, seq, tag) == IF cond \/ NTag(seq, tag) >= 60 THEN seq ELSE Append(seq, <<l, tag>>)
TInit == /\ l = 1 /\ viol = <<>> /\ drift = <<>> /\ nchk = 0 /\ cnt = [raw |-> 0, meminfo |-> 0, handles |-> 0, sysinfo |-> 0, dso |-> 0]
         /\ direct = Zero4 /\ proc = Zero4 /\ mem = [hasDebug |-> FALSE, len |-> 0] /\ lines = <<>> /\ fds = {} /\ pc = "trace"
         /\ auxv = Zero4 /\ dso = <<>> /\ meminfo = <<>> /\ handles = {}
Inc(f) == cnt' = [cnt EXCEPT ![f] = @ + 1]
Raw == /\ E.ev = "raw"
       /\ viol' = Note(E.present /\ E.mismatch = -1 /\ E.len = E.fileLen, viol, "C18-raw-stream-differs-" \o E.name)
       /\ drift' = drift /\ Inc("raw") /\ nchk' = nchk + 1
MemInfoEv ==
  /\ E.ev = "meminfo"
  /\ LET want == MemInfoList(E.lines)
         got == E.entries
         sameShape == Len(got) = Len(E.lines) /\ E.sizeOk
         v1 == Note(sameShape, viol, "C18-memory-info-entry-count")
         v2 == Note(sameShape => \A k \in 1..Len(got) : got[k].base = want[k].base /\ got[k].size = want[k].size, v1, "C18-memory-info-range")
         v3 == Note(sameShape => \A k \in 1..Len(got) : E.lines[k].plain => (got[k].prot = want[k].prot /\ got[k].type = want[k].type), v2, "C18-memory-info-protection-or-type")
     IN viol' = v3
  /\ drift' = Note(Len(E.entries) = Len(E.lines) => \A k \in 1..Len(E.entries) : E.entries[k] = MemInfoOf(E.lines[k]), drift, "memory-info")
  /\ Inc("meminfo") /\ nchk' = nchk + 1
HandlesEv ==
  /\ E.ev = "handles"
  /\ LET want == {<<E.fds[k].fd, E.fds[k].link, E.fds[k].mode>> : k \in 1..Len(E.fds)}
         got == {<<E.descs[k].fd, E.descs[k].name, E.descs[k].attr>> : k \in 1..Len(E.descs)}
     IN viol' = Note(E.present /\ E.sizeOk /\ got = want /\ Len(E.descs) = Cardinality(want), viol, "C18-handle-descriptors-differ")
  /\ drift' = drift /\ Inc("handles") /\ nchk' = nchk + 1
SysInfoEv ==
  /\ E.ev = "sysinfo"
  /\ viol' = Note(E.got = E.want, viol, "C18-system-information-differs")
  /\ drift' = drift /\ Inc("sysinfo") /\ nchk' = nchk + 1
DsoEv ==
  /\ E.ev = "dso"
  /\ LET res == Resolve(E.direct, E.proc)                                  \* 0/1 flags: which source is non-zero; the harness resolved the addresses
     IN viol' = Note(IF E.expectStream THEN E.present /\ E.got = E.want /\ E.brkOk /\ E.countOk ELSE ~E.present \/ E.got = E.want, viol, "C18-linker-list-differs")
  /\ drift' = Note(E.usedDirect = (E.direct.phdr # 0), drift, "auxv-resolution")
  /\ Inc("dso") /\ nchk' = nchk + 1
(* every scenario is a legal target under a legal configuration: its streams have to exist *)
Failed == E.ev = "failed" /\ viol' = Note(FALSE, viol, "C18-dump-of-a-legal-target-failed") /\ UNCHANGED <<drift, nchk, cnt>>
TNext == l <= Len(Rec) /\ (Raw \/ MemInfoEv \/ HandlesEv \/ SysInfoEv \/ DsoEv \/ Failed) /\ l' = l + 1 /\ UNCHANGED vars
TSpec == TInit /\ [][TNext]_tvars
Verdict == l = Len(Rec) + 1 =>
   PrintT(<<"VERDICT", ToJson([events |-> Len(Rec), checked |-> nchk, counts |-> cnt, viol |-> viol, drift |-> drift])>>)
Accepted == TLCGet("stats").diameter = Len(Rec) + 1
=============================================================================
