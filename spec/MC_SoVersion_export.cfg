SPECIFICATION Spec
CONSTANT MaxComps = 5
INVARIANTS Emit
CHECK_DEADLOCK FALSE
