----------------------------- MODULE Trace_Reuse -----------------------------
(* C19 on real histories of dumps taken with ONE writer: every image is judged as the dump a fresh
   writer would produce at that moment (DumpSeq!C19 on recorded values): the memory list holds
   exactly this dump's regions, each inside this image with the target's bytes; the exception
   stream's context is this image's blamed-thread context (or empty when that thread is not
   listed); stacks are filtered by this dump's principal mapping only; the caller's entry address and
   mappings, which stay configured, are honoured by every dump.                        *)
EXTENDS Integers, Sequences, FiniteSets, TLC, Json, IOUtils
Rec == ndJsonDeserialize(IOEnv.TRACE)
VARIABLES l, viol, drift, nchk, nlater
vars == <<l, viol, drift, nchk, nlater>>
E == Rec[l]
NTag(seq, tag) == Cardinality({k \in 1..Len(seq) : seq[k][2] = tag})
Note(cond, seq, tag) == IF cond \/ NTag(seq, tag) >= 60 THEN seq ELSE Append(seq, <<l, tag>>)
Init == l = 1 /\ viol = <<>> /\ drift = <<>> /\ nchk = 0 /\ nlater = 0
CtxSize == 1232
Dump == /\ E.ev = "c19"
        /\ LET v1 == Note(E.outcome = (IF "expectErr" \in DOMAIN E /\ E.expectErr THEN "err" ELSE "ok"), viol, "C19-later-dump-failed")
               v2 == Note(E.outcome = "ok" => E.memCount = E.expMem /\ E.memOk, v1, "C19-memory-regions-of-an-earlier-dump")
               v3 == Note(E.outcome = "ok" => IF E.blamedListed THEN E.excCtxRva = E.blamedCtxRva /\ E.excCtxSize = CtxSize
                                              ELSE E.excCtxSize = 0, v2, "C19-crashing-context-of-an-earlier-dump")
               v4 == Note(E.outcome = "ok" /\ E.skip /\ ~E.principalResolves => E.nStacks = 0, v3, "C19-principal-mapping-of-an-earlier-dump")
               v5 == Note(E.outcome = "ok" => E.entryOk /\ E.userOk, v4, "C19-caller-supplied-option-not-applied-in-a-later-dump")
           IN viol' = v5
        /\ drift' = drift /\ nchk' = nchk + 1 /\ nlater' = nlater + (IF E.dumpNo > 1 THEN 1 ELSE 0)
Next == l <= Len(Rec) /\ Dump /\ l' = l + 1
Spec == Init /\ [][Next]_vars
Verdict == l = Len(Rec) + 1 =>
   PrintT(<<"VERDICT", ToJson([events |-> Len(Rec), checked |-> nchk, later |-> nlater, viol |-> viol, drift |-> drift])>>)
Accepted == TLCGet("stats").diameter = Len(Rec) + 1
=============================================================================
