----------------------------- MODULE Trace_Reuse -----------------------------
(* C19 on real histories of dumps taken with ONE writer: every image is judged as the dump a fresh
   writer would produce at that moment (DumpSeq!C19 on recorded values): the memory list holds
   exactly this dump's regions, each inside this image with the target's bytes; the exception
   stream's context is this image's blamed-thread context (or empty when that thread is not
   listed); stacks are filtered by this dump's principal mapping only; the caller's entry address and
   mappings, which stay configured, are honoured by every dump; no dump changes what the caller has
   configured; and two dumps of one history taken under the same configuration give the threads that
   did not move in between the same stack regions (a fresh writer's, since the first of them was one). *)
EXTENDS Integers, Sequences, FiniteSets, TLC, Json, IOUtils
Rec == ndJsonDeserialize(IOEnv.TRACE)
VARIABLES l, viol, drift, nchk, nlater, first     \* first: configuration key -> parked stacks of the first successful dump of this history under it
vars == <<l, viol, drift, nchk, nlater, first>>
E == Rec[l]
NTag(seq, tag) == Cardinality({k \in 1..Len(seq) : seq[k][2] = tag})
Note(cond, seq, tag) == IF cond \/ NTag(seq, tag) >= 60 THEN seq ELSE Append(seq, <<l, tag>>)
Init == l = 1 /\ viol = <<>> /\ drift = <<>> /\ nchk = 0 /\ nlater = 0 /\ first = <<>>
CtxSize == 1232
Dump == /\ E.ev = "c19"
        /\ LET v1 == Note(E.outcome = (IF "expectErr" \in DOMAIN E /\ E.expectErr THEN "err" ELSE "ok"), viol, "C19-later-dump-failed")
               v2 == Note(E.outcome = "ok" => E.memCount = E.expMem /\ E.memOk, v1, "C19-memory-regions-of-an-earlier-dump")
               v3 == Note(E.outcome = "ok" => IF E.blamedListed THEN E.excCtxRva = E.blamedCtxRva /\ E.excCtxSize = CtxSize
                                              ELSE E.excCtxSize = 0, v2, "C19-crashing-context-of-an-earlier-dump")
               v4 == Note(E.outcome = "ok" /\ E.skip /\ ~E.principalResolves => E.nStacks = 0, v3, "C19-principal-mapping-of-an-earlier-dump")
               v5 == Note(E.outcome = "ok" => E.entryOk /\ E.userOk, v4, "C19-caller-supplied-option-not-applied-in-a-later-dump")
               known == IF E.dumpNo = 1 THEN <<>> ELSE first          \* a new history starts with its dump no. 1
               v6 == Note(E.cfgChanged = "", v5, "C19-caller-configuration-changed-by-a-dump")
               v7 == Note(E.outcome = "ok" /\ E.cfgKey \in DOMAIN known => E.parkedStacks = known[E.cfgKey], v6, "C19-stacks-differ-from-an-earlier-dump-under-the-same-configuration")
           IN /\ viol' = v7
              /\ first' = IF E.outcome = "ok" /\ E.cfgKey \notin DOMAIN known THEN (E.cfgKey :> E.parkedStacks) @@ known ELSE known
        /\ drift' = drift /\ nchk' = nchk + 1 /\ nlater' = nlater + (IF E.dumpNo > 1 THEN 1 ELSE 0)
Next == l <= Len(Rec) /\ Dump /\ l' = l + 1
Spec == Init /\ [][Next]_vars
Verdict == l = Len(Rec) + 1 =>
   PrintT(<<"VERDICT", ToJson([events |-> Len(Rec), checked |-> nchk, later |-> nlater, viol |-> viol, drift |-> drift])>>)
Accepted == TLCGet("stats").diameter = Len(Rec) + 1
=============================================================================
