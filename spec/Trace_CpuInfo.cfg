SPECIFICATION TSpec
CONSTANTS
  MaxFree = 3
  MaxAround = 1
INVARIANT Verdict
POSTCONDITION Accepted
CHECK_DEADLOCK FALSE
