SPECIFICATION Spec
CONSTANTS
  MaxThreads = 3
  MaxDumps = 1
  ResetOnDump = TRUE
  LimitConsumed = FALSE
  OwnCtxWhenUnlisted = TRUE
  AuxCounts = {0, 1}
  Limits = {0, 3, 4}
  PlaceByNamedIndex = TRUE
INVARIANTS C01 C11 C19
CHECK_DEADLOCK FALSE
