----------------------------- MODULE StatusFile -----------------------------
(***************************************************************************)
(* Model of CommonThreadInfo::get_ppid_and_tgid (thread_info.rs): the scan *)
(* of /proc/<tid>/status for the "Tgid:" and "PPid:" lines that precedes   *)
(* the capture of every thread's registers.  The file is a sequence of     *)
(* lines; the loop is transcribed (the six-byte key test, the parse, the   *)
(* "-1 = not found" check at the end).  A thread can only be listed with   *)
(* its registers (property C04) when this step yields a value, so the      *)
(* model says for which files it must: whenever both lines are present     *)
(* with a number - zero included (PPid 0: the parent lives outside the     *)
(* pid namespace) - wherever they stand and whatever else the file holds.  *)
(***************************************************************************)
EXTENDS Integers, Sequences, FiniteSets, TLC
CONSTANT MaxLines
Keys == {"Tgid", "PPid", "Name", "Uid"}
Vals == {"7", "0", "x", ""}                  \* a pid, zero, not a number, nothing
Line == [kind : {"kv"}, key : Keys, val : Vals] \cup [kind : {"short"}]       \* "short": fewer than six bytes (the kernel writes none)
(* the key test looks at the first six bytes of a line: "Uid:\t" with nothing after it has five *)
IsShort(ln) == ln.kind = "short" \/ (ln.kind = "kv" /\ ln.key = "Uid" /\ ln.val = "")
IntOf == [v \in {"7", "0"} |-> IF v = "7" THEN 7 ELSE 0]
Parsable(v) == v \in DOMAIN IntOf

(* declarative reading: the last Tgid / PPid line counts; any unparsable one of them, or a short line, is an error; both must occur *)
Hits(f, k) == {i \in 1..Len(f) : f[i].kind = "kv" /\ f[i].key = k}
Last(S) == CHOOSE x \in S : \A y \in S : x >= y
Broken(f) == \E i \in 1..Len(f) : IsShort(f[i]) \/ (f[i].kind = "kv" /\ f[i].key \in {"Tgid", "PPid"} /\ ~Parsable(f[i].val))
Parse(f) == IF Broken(f) \/ Hits(f, "Tgid") = {} \/ Hits(f, "PPid") = {} THEN [ok |-> FALSE]
            ELSE [ok |-> TRUE, tgid |-> IntOf[f[Last(Hits(f, "Tgid"))].val], ppid |-> IntOf[f[Last(Hits(f, "PPid"))].val]]

VARIABLES file, i, ppid, tgid, pc, res
vars == <<file, i, ppid, tgid, pc, res>>
Init == /\ file \in UNION {[1..n -> Line] : n \in 0..MaxLines}
        /\ i = 1 /\ ppid = -1 /\ tgid = -1 /\ pc = "line" /\ res = [ok |-> FALSE]
Step == /\ pc = "line"
        /\ IF i > Len(file) THEN pc' = "finish" /\ UNCHANGED <<i, ppid, tgid, res>>
           ELSE LET ln == file[i] IN
             IF IsShort(ln) THEN pc' = "done" /\ res' = [ok |-> FALSE] /\ UNCHANGED <<i, ppid, tgid>>                  \* l.get(0..6) is None
             ELSE IF ln.key \in {"Tgid", "PPid"} /\ ~Parsable(ln.val) THEN pc' = "done" /\ res' = [ok |-> FALSE] /\ UNCHANGED <<i, ppid, tgid>>   \* parse::<Pid>()?
             ELSE /\ tgid' = IF ln.key = "Tgid" THEN IntOf[ln.val] ELSE tgid
                  /\ ppid' = IF ln.key = "PPid" THEN IntOf[ln.val] ELSE ppid
                  /\ i' = i + 1 /\ UNCHANGED <<pc, res>>
        /\ UNCHANGED file
Finish == /\ pc = "finish"
          /\ res' = IF ppid = -1 \/ tgid = -1 THEN [ok |-> FALSE] ELSE [ok |-> TRUE, tgid |-> tgid, ppid |-> ppid]
          /\ pc' = "done" /\ UNCHANGED <<file, i, ppid, tgid>>
Next == Step \/ Finish
Spec == Init /\ [][Next]_vars /\ WF_vars(Next)
LoopIsParse == pc = "done" => res = Parse(file)
(* C04: what the kernel can write (both lines, numbers >= 0, no short line) is always accepted *)
KernelFilesAccepted == pc = "done" /\ ~Broken(file) /\ Hits(file, "Tgid") # {} /\ Hits(file, "PPid") # {} => res.ok
Terminates == <>(pc = "done")
=============================================================================
