------------------------------ MODULE Totality ------------------------------
(***************************************************************************)
(* Property C02: a dump request is total.  The model walks the steps of a  *)
(* dump that consume target- or caller-controlled values, each over the    *)
(* classes its case analysis distinguishes, and gives every step only two  *)
(* ways out: a value or an error value.  The loops that follow             *)
(* target-controlled data are modelled with their loop variables so that   *)
(* TLC checks termination: the guard-page walk of get_stack_info (bounded  *)
(* by the guard distance), the scan of the dynamic section (ends at        *)
(* DT_NULL or at the first unreadable entry) and the walk along the        *)
(* linker's link_map list (target-controlled `l_next` pointers: the list   *)
(* may be cyclic).  `BoundedWalk` says whether the link_map walk has a     *)
(* bound of its own.  The steps come in the order of generate_dump: wait   *)
(* for the stop, thread list (crash stack, IP window), module list (caller- *)
(* supplied mappings, build id, SONAME), requested memory, linker data.     *)
(***************************************************************************)
EXTENDS Naturals, Sequences, FiniteSets, TLC
CONSTANTS BoundedWalk,   \* TRUE: the link_map walk stops after MaxLinkMaps entries; FALSE: it follows l_next until 0 or an unreadable address
          MaxLinkMaps, NNodes,
          CheckedDeadline,   \* TRUE: the deadline of the wait for the group stop is computed with a checked addition (none if it overflows); FALSE: `now + timeout`
          SatWindow,         \* TRUE: the bounds ip - 128 / ip + 128 of the window around the crashing instruction are formed with saturating arithmetic; FALSE: plain `-` / `+` (see ap/IpWindowAp)
          CheckedExtent,     \* TRUE: the end of a caller-supplied mapping is computed with a saturating / checked addition; FALSE: `start + size`
          WaitHasDeadline,   \* TRUE: the wait for an attached thread's stop gives up after some time; FALSE: waitpid(tid, __WALL) without a bound
          StopOnDecodeError  \* TRUE: the SONAME scan of a module's dynamic section gives up at the first entry it cannot decode; FALSE: it skips it and asks for the next

SpClass  == {"none", "in_stack", "guard", "unmapped", "top_page", "misaligned", "zero", "reserved_tail"}   \* reserved_tail: in the inaccessible reservation behind a module's text, which is folded
                                                                                                           \* into the module (with the skip rule on and that module the principal one: the stack copy is shorter than the SP offset)
IpClass  == {"interior", "first_bytes", "last_bytes", "unmapped", "zero", "max", "page_zero"}   \* page_zero: in a page mapped at address 0 (fewer bytes before it than half the window)
PhnumClass == {"true", "zero", "larger", "huge", "alloc_huge"}   \* huge: count * entry size overflows; alloc_huge: it does not, but no such buffer can be allocated
AppClass == {"none", "small", "unmapped", "len_over_isize", "len_64TiB"}   \* a caller-requested memory region
PhdrClass == {"true", "unmapped", "unaligned"}
VaddrClass == {"le_base", "gt_base"}
DynClass == {"terminated", "unterminated"}
ListClass == {"acyclic", "cyclic", "selfloop", "dangling", "name_nonutf8", "name_at_end", "empty"}
NameClass == {"plain", "dev", "version_multibyte", "no_version", "many_components", "deleted"}
BytesClass == {"elf", "non_elf", "elf_corrupt", "elf_undyn", "elf_badnote", "elf_binnote"}   \* elf_undyn: an image whose dynamic section has no DT_NULL within its declared size;
                                                                            \* elf_badnote: its note segment / section starts with a note that cannot be decoded
                                                                            \* (its name does not fit); elf_binnote: ... whose name is not text - another decoding error
TmoClass == {"finite", "zero", "max"}                           \* the caller's stop timeout: some milliseconds, none at all, Duration::MAX ("wait for ever")
UmapClass == {"none", "plain", "wraps"}                         \* a caller-supplied mapping: none, one somewhere, one whose start + size exceeds the address space
ThrClass == {"stoppable", "vfork"}                              \* a thread of the target: one that stops when told to, one that sleeps in vfork() (no signal reaches it until its child execs or exits)
NDyn == 3                                                       \* entries of a module's dynamic section before its end / DT_NULL
Input == [sp : SpClass, ip : IpClass, phnum : PhnumClass, phdr : PhdrClass, vaddr : VaddrClass, dyn : DynClass,
          list : ListClass, name : NameClass, bytes : BytesClass, app : AppClass, tmo : TmoClass, umap : UmapClass, thr : ThrClass]
Base == [sp |-> "none", ip |-> "interior", phnum |-> "true", phdr |-> "true", vaddr |-> "le_base", dyn |-> "terminated",
         list |-> "acyclic", name |-> "plain", bytes |-> "elf", app |-> "none", tmo |-> "finite", umap |-> "none", thr |-> "stoppable"]
Dims == DOMAIN Base
(* all inputs that differ from the benign base vector in at most two dimensions (built up, not filtered out of Input: that has ~5 * 10^7 members) *)
Vals == [sp |-> SpClass, ip |-> IpClass, phnum |-> PhnumClass, phdr |-> PhdrClass, vaddr |-> VaddrClass, dyn |-> DynClass, list |-> ListClass,
         name |-> NameClass, bytes |-> BytesClass, app |-> AppClass, tmo |-> TmoClass, umap |-> UmapClass, thr |-> ThrClass]
NearBase == UNION {{[Base EXCEPT ![d1] = v1, ![d2] = v2] : v1 \in Vals[d1], v2 \in Vals[d2]} : d1 \in Dims, d2 \in Dims}

(* the link_map graph for a list class: next[k] = successor node, 0 = end of list, NNodes + 1 = unreadable address *)
NextOf(cls) == CASE cls = "cyclic"   -> [k \in 1..NNodes |-> IF k = NNodes THEN 1 ELSE k + 1]
                 [] cls = "selfloop" -> [k \in 1..NNodes |-> k]
                 [] cls = "dangling" -> [k \in 1..NNodes |-> IF k = NNodes THEN NNodes + 1 ELSE k + 1]
                 [] OTHER            -> [k \in 1..NNodes |-> IF k = NNodes THEN 0 ELSE k + 1]

VARIABLES inp, pc, outcome, softErrs, opened, cur, count, dynpos
vars == <<inp, pc, outcome, softErrs, opened, cur, count, dynpos>>
Init == /\ inp \in NearBase /\ pc = "deadline" /\ outcome = "running" /\ softErrs = {} /\ opened = {} /\ cur = 0 /\ count = 0 /\ dynpos = 0
Go(next) == pc' = next /\ UNCHANGED <<inp, outcome, opened, cur, count, dynpos>>
(* which step of the linker-data stream yields an error value, as a function of the input (the steps below follow it) *)
(* an unset (zero) AT_PHNUM makes the writer complete the auxiliary values from /proc/<pid>/auxv: the harness then leaves AT_PHDR
   unset too, and the linker data that is followed is the real program's, whatever the synthetic chain looks like *)
Real(i)       == i.phnum = "zero"
EffList(i)    == IF Real(i) THEN "acyclic" ELSE i.list
PhdrFails(i)  == ~Real(i) /\ (i.phdr # "true" \/ i.phnum \in {"larger", "huge", "alloc_huge"})
(* a caller-requested region that cannot be copied is a hard error of the dump: an error value, nothing else *)
AppFails(i)   == i.app \in {"unmapped", "len_over_isize", "len_64TiB"}
BaseFails(i)  == ~Real(i) /\ i.vaddr = "gt_base"
DynFails(i)   == ~Real(i) /\ i.dyn = "unterminated"
WalkFails(i)  == EffList(i) = "dangling"
NamesFail(i)  == EffList(i) = "name_nonutf8"
DsoFails(i)   == PhdrFails(i) \/ BaseFails(i) \/ DynFails(i) \/ WalkFails(i) \/ NamesFail(i)
(* stop_process: `end = now + timeout` before polling for the group stop.  Instant + Duration panics when the sum cannot be
   represented, which Duration::MAX guarantees; a checked addition gives "no deadline" instead (the target of the model stops) *)
Deadline  == /\ pc = "deadline"
             /\ IF inp.tmo = "max" /\ ~CheckedDeadline
                  THEN pc' = "done" /\ outcome' = "panic" /\ UNCHANGED <<inp, opened, cur, count, dynpos>>
                  ELSE Go("attachwait")
             /\ UNCHANGED softErrs
(* suspend_thread: PTRACE_ATTACH, then waitpid(tid, __WALL) until the thread reports its stop.  A thread in vfork() takes no
   signal while its child neither execs nor exits (the model's child does neither), so no report comes *)
AttachWait == /\ pc = "attachwait"
              /\ IF inp.thr = "vfork" /\ ~WaitHasDeadline
                   THEN UNCHANGED <<pc, inp, outcome, opened, cur, count, dynpos>>       \* still waiting
                   ELSE Go("stack")
              /\ UNCHANGED softErrs
(* get_stack_info on the crash stack pointer: Ok(region) or Err(NoStackPointerMapping); never anything else *)
StackStep == pc = "stack" /\ Go("ipwindow") /\ UNCHANGED softErrs
IpWindow  == /\ pc = "ipwindow"
             /\ IF inp.ip = "page_zero" /\ ~SatWindow
                  THEN pc' = "done" /\ outcome' = "panic" /\ UNCHANGED <<inp, opened, cur, count, dynpos>>
                  ELSE Go("usermaps")
             /\ UNCHANGED softErrs
(* copy_from_process(ptr, length): the buffer for `length` bytes is requested fallibly; failure to get it, or to read, is Err *)
AppMem    == /\ pc = "appmem"
             /\ IF AppFails(inp) THEN pc' = "done" /\ outcome' = "err" /\ UNCHANGED <<inp, opened, cur, count, dynpos>>
                ELSE Go("phdr")
             /\ UNCHANGED softErrs
(* dso_debug: read AT_PHNUM program headers at AT_PHDR *)
PhdrStep  == /\ pc = "phdr"
             /\ IF ~PhdrFails(inp)
                  THEN Go("base") /\ UNCHANGED softErrs
                  ELSE Go("finish") /\ softErrs' = softErrs \cup {"WriteDSODebugStreamFailed"}      \* short / failed read, absurd count: an error value
BaseStep  == /\ pc = "base"
             /\ IF ~BaseFails(inp) THEN Go("dynscan") /\ UNCHANGED softErrs
                ELSE Go("finish") /\ softErrs' = softErrs \cup {"WriteDSODebugStreamFailed"}
DynScan   == /\ pc = "dynscan"
             /\ IF ~DynFails(inp) THEN pc' = "walk" /\ cur' = (IF EffList(inp) = "empty" THEN 0 ELSE 1) /\ count' = 0 /\ UNCHANGED <<inp, outcome, opened, softErrs, dynpos>>
                ELSE Go("finish") /\ softErrs' = softErrs \cup {"WriteDSODebugStreamFailed"}
(* while curr_map != 0 { read link_map at curr_map; curr_map = l_next } *)
Walk      == /\ pc = "walk"
             /\ IF cur = 0 \/ (BoundedWalk /\ count >= MaxLinkMaps)
                  THEN pc' = "names" /\ UNCHANGED <<cur, count, softErrs>>
                  ELSE IF cur = NNodes + 1
                    THEN pc' = "finish" /\ softErrs' = softErrs \cup {"WriteDSODebugStreamFailed"} /\ UNCHANGED <<cur, count>>
                    ELSE pc' = "walk" /\ cur' = NextOf(EffList(inp))[cur] /\ count' = (IF BoundedWalk THEN count + 1 ELSE count) /\ UNCHANGED softErrs
             /\ UNCHANGED <<inp, outcome, opened, dynpos>>
Names     == /\ pc = "names"
             /\ IF NamesFail(inp) THEN softErrs' = softErrs \cup {"WriteDSODebugStreamFailed"} ELSE UNCHANGED softErrs
             /\ Go("finish")
(* is_contained_in: every mapping of the target is compared with the extent [start, start + size] of every caller-supplied mapping;
   with overflow checks on (the profile the checks build), an unrepresentable sum is a panic *)
UserMaps  == /\ pc = "usermaps"
             /\ IF inp.umap = "wraps" /\ ~CheckedExtent
                  THEN pc' = "done" /\ outcome' = "panic" /\ UNCHANGED <<inp, opened, cur, count, dynpos>>
                  ELSE Go("modules")
             /\ UNCHANGED softErrs
(* module list: build id from memory, else from the file unless it lives under /dev; name / version from the path *)
Modules   == /\ pc = "modules"
             /\ opened' = IF inp.bytes \in {"non_elf", "elf_corrupt"} /\ inp.name # "dev" /\ inp.name # "deleted" THEN opened \cup {"file"} ELSE opened
             /\ IF inp.bytes \in {"elf", "elf_undyn", "elf_badnote", "elf_binnote"}
                  THEN pc' = "notescan" /\ UNCHANGED <<outcome, dynpos>>            \* an ELF header: the notes are searched for a build id
                  ELSE pc' = "appmem" /\ UNCHANGED <<outcome, dynpos>>
             /\ UNCHANGED <<inp, softErrs, cur, count>>
(* for note in NoteDataIterator { let Ok(note) = note else { break }; .. }: the iterator does not move past a note it cannot
   decode; the scan gives up there (the id then comes from the text section), or - if it skipped errors - would ask again for ever *)
NoteScan  == /\ pc = "notescan"
             /\ IF inp.bytes \in {"elf_badnote", "elf_binnote"} /\ ~StopOnDecodeError
                  THEN UNCHANGED <<pc, dynpos>>
                  ELSE pc' = "soscan" /\ dynpos' = 1
             /\ UNCHANGED <<inp, outcome, softErrs, opened, cur, count>>
(* for dyn in DynIter(dynamic section) { match dyn.d_tag ... DT_NULL => break }: entry NDyn + 1 is DT_NULL in a well-formed
   image; in an "elf_undyn" image it lies beyond the declared size and cannot be decoded, and asking again gives the same answer *)
SoScan    == /\ pc = "soscan"
             /\ IF dynpos <= NDyn
                  THEN dynpos' = dynpos + 1 /\ UNCHANGED <<pc, outcome>>
                  ELSE IF inp.bytes = "elf_undyn" /\ ~StopOnDecodeError
                    THEN UNCHANGED <<pc, outcome, dynpos>>                          \* skip the undecodable entry, ask for the next: the same one
                    ELSE pc' = "appmem" /\ UNCHANGED <<outcome, dynpos>>            \* DT_NULL, or the lookup gives up with an error value (no SONAME)
             /\ UNCHANGED <<inp, softErrs, opened, cur, count>>
Finish    == pc = "finish" /\ pc' = "done" /\ outcome' = "ok" /\ UNCHANGED <<inp, softErrs, opened, cur, count, dynpos>>
Next == Deadline \/ AttachWait \/ UserMaps \/ Finish \/ StackStep \/ IpWindow \/ AppMem \/ PhdrStep \/ BaseStep \/ DynScan \/ Walk \/ Names \/ Modules \/ NoteScan \/ SoScan
Spec == Init /\ [][Next]_vars /\ WF_vars(Next)

Total == outcome \in {"running", "ok", "err"}
HardErrorIsAppMem == pc = "done" /\ outcome # "panic" => (outcome = "err") = AppFails(inp)
NoDevOpen == inp.name = "dev" => opened = {}
Terminates == <>(pc = "done")
WalkBounded == BoundedWalk => count <= MaxLinkMaps
(* the step machine and the closed form agree on when the linker-data stream fails softly *)
DsoFailsIsTheSteps == pc = "done" /\ outcome = "ok" => (("WriteDSODebugStreamFailed" \in softErrs) = DsoFails(inp))
=============================================================================
