---------------------------- MODULE Trace_DirOps ----------------------------
(* Validates recorded executions of the real Buffer + DirSection over a recording destination
   against DirOps: every recorded public call must be the corresponding DirOps action (same
   resulting image length, destination position and destination calls), and property C09 is
   evaluated on the OBSERVED destination content after every call.                           *)
EXTENDS DirOps, Integers, Json, IOUtils, FiniteSets
Rec == ndJsonDeserialize(IOEnv.TRACE)
VARIABLES l, viol, drift, nchk
tvars == <<vars, l, viol, drift, nchk>>
E == Rec[l]
Has(r, f) == f \in DOMAIN r
NTag(seq, tag) == Cardinality({k \in 1..Len(seq) : seq[k][2] = tag})
Note(cond, seq, tag) == IF cond \/ NTag(seq, tag) >= 60 THEN seq ELSE Append(seq, <<l, tag>>)
TInit == /\ l = 1 /\ viol = <<>> /\ drift = <<>> /\ nchk = 0
         /\ imgLen = 0 /\ flushed = 0 /\ idx = 0 /\ start = 0 /\ fileHi = 0 /\ fpos = 0
         /\ lastGrow = [off |-> 0, len |-> 0] /\ nops = 0

(* ---- property C09 on observed values: o = observation, st = start offset, fl = image prefix that
        the API contract says has been flushed ---- *)
WriteInImage(c, st, len) == c[1] # "write" \/ (c[2] >= st /\ c[2] + c[3] <= st + len)
P_C09(o, st, fl) ==
  /\ o.prefixIntact                                   \* nothing before the start offset modified
  /\ o.tailMod = -1                                   \* nothing beyond the end of the image modified
  /\ o.fileHi <= st + o.imgLen
  /\ o.lcp >= fl                                      \* destination[start..] = image[..flushed)
  /\ \A k \in 1..Len(o.calls) : WriteInImage(o.calls[k], st, o.imgLen)
P_Flushed(o, st) == o.fileHi = st + o.imgLen /\ o.lcp = o.imgLen   \* after a flush the whole image is there

Reset == E.ev = "reset" /\ UNCHANGED <<vars, viol, drift, nchk>>
New == /\ E.ev = "new" /\ ~Has(E, "error")
       /\ start' = E.start /\ imgLen' = HdrLen + E.slots * EntLen /\ flushed' = 0 /\ idx' = 0
       /\ fpos' = E.start /\ fileHi' = E.start /\ lastGrow' = [off |-> 0, len |-> 0] /\ nops' = 0
       /\ viol' = Note(P_C09(E.obs, E.start, 0), viol, "C09")
       /\ drift' = Note(E.obs.imgLen = imgLen' /\ E.dirPos = HdrLen /\ E.obs.calls = <<<<"pos", E.start, 0>>>>, drift, "new")
       /\ nchk' = nchk + 1
TGrow == /\ E.ev = "grow" /\ Grow(E.n)
         /\ IF Has(E.obs, "synth")       \* real dump: growth is inferred from the next flush, nothing was observed here
              THEN UNCHANGED <<viol, drift, nchk>>
              ELSE /\ viol' = Note(P_C09(E.obs, start, flushed), viol, "C09")
                   /\ drift' = Note(E.obs.imgLen = imgLen' /\ E.obs.fpos = fpos' /\ E.obs.calls = <<>>, drift, "grow")
                   /\ nchk' = nchk + 1
TFlush == /\ E.ev = "flush" /\ ~Has(E, "error")
          /\ IF E.entry THEN FlushEntry ELSE FlushNone
          /\ viol' = Note(P_C09(E.obs, start, imgLen) /\ P_Flushed(E.obs, start), viol, "C09")
          /\ drift' = Note(/\ E.obs.fpos = fpos' /\ E.obs.imgLen = imgLen /\ E.obs.fileHi = fileHi'
                           /\ E.obs.calls = CallsOf(E.entry), drift, "flush")
          /\ nchk' = nchk + 1
(* in-contract calls on a destination that does not fail must succeed *)
TError == /\ E.ev \in {"new", "flush"} /\ Has(E, "error")
          /\ viol' = Append(viol, <<l, "C09-error">>) /\ UNCHANGED <<vars, drift, nchk>>
TNext == l <= Len(Rec) /\ (Reset \/ New \/ TGrow \/ TFlush \/ TError) /\ l' = l + 1
TSpec == TInit /\ [][TNext]_tvars
Verdict == l = Len(Rec) + 1 =>
   PrintT(<<"VERDICT", ToJson([events |-> Len(Rec), checked |-> nchk, viol |-> viol, drift |-> drift])>>)
Accepted == TLCGet("stats").diameter = Len(Rec) + 1
=============================================================================
