SPECIFICATION Spec
CONSTANTS
  R = 24
  W = 8
  MaxN = 20
  TailFix = TRUE
INVARIANTS StepwiseIsFunction Emit
CHECK_DEADLOCK FALSE
