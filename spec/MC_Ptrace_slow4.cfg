SPECIFICATION Spec
CONSTANTS
  T = {1, 2, 3, 4}
  Sandbox = {4}
  MaxSend = 1
  RtDecodable = TRUE
  Slow = {2}
  WaitGivesUp = FALSE
  MayExit = FALSE
  NFaultSteps = 1
INVARIANTS C03_NoneLeftAttached C03_NoDup C03_NoLoss C04_NoRunBetweenCaptures C04_ListedOnce C04_SandboxOmitted
PROPERTY C03_Eventually
CHECK_DEADLOCK FALSE
