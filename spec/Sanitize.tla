------------------------------ MODULE Sanitize ------------------------------
(***************************************************************************)
(* Model of PtraceDumper::sanitize_stack_copy                              *)
(* (src/linux/ptrace_dumper.rs:538-645) with its three optimisations: the  *)
(* cached stack mapping, the last-hit cache and the 2^11-bit bucket        *)
(* pre-filter.  The function is modelled step by step (build the bitmap,   *)
(* zero below the stack pointer, classify one word at a time, zero the     *)
(* partial tail); property C12 is the *direct* classifier stated without   *)
(* the optimisations.                                                      *)
(*                                                                         *)
(* An address is a pair [b, o]: bucket number (address >> 21 in the code)  *)
(* and offset inside the bucket, so that 64-bit addresses fit TLC's        *)
(* integers.  BucketSize and NBits are parameters: 2^21 and 2^11 when      *)
(* traces of the real code are validated, 4 and 4 when model checking      *)
(* (which keeps the aliasing classes of the pre-filter).                   *)
(***************************************************************************)
EXTENDS Integers, Sequences, FiniteSets, TLC
CONSTANTS BucketSize, NBits,
          Small,         \* magnitude below which an integer is kept (4096 in the code)
          SignedSmall    \* TRUE: |w| <= Small as a signed integer; FALSE: the comparison as written in the tree

(* ---- addresses as pairs ---- *)
LT(a, c) == a.b < c.b \/ (a.b = c.b /\ a.o < c.o)
LE(a, c) == a.b < c.b \/ (a.b = c.b /\ a.o <= c.o)
Contains(m, a) == LE(m.start, a) /\ LT(a, m.end)
Bit(b) == b % NBits
(* a stack word: `big` = magnitude too large to matter as an integer; otherwise `s` is its signed value;
   [b, o] is the word read as an (unsigned) address *)
IsSmallTree(w) == ~w.big /\ w.s >= 0 /\ w.s <= Small       \* `addr <= 4096 as usize && addr_signed >= -4096`
IsSmallSigned(w) == ~w.big /\ w.s >= -Small /\ w.s <= Small
IsSmall(w) == IF SignedSmall THEN IsSmallSigned(w) ELSE IsSmallTree(w)

(* could_hit_mapping: `for bit in (start >> shift)..=(end >> shift)` over the executable mappings *)
BitmapOf(maps) == UNION { {Bit(b) : b \in maps[k].start.b .. maps[k].end.b} : k \in {j \in 1..Len(maps) : maps[j].exec} }
FindMapping(maps, a) == IF \E k \in 1..Len(maps) : Contains(maps[k], a)
                        THEN CHOOSE k \in 1..Len(maps) : Contains(maps[k], a) /\ \A j \in 1..(k-1) : ~Contains(maps[j], a)
                        ELSE 0

(* one iteration of the word loop: returns the verdict and the new last-hit cache *)
ClassifyWord(maps, stackIdx, bitmap, lastHit, w) ==
  LET keepSmall == IsSmall(w)
      keepStack == stackIdx # 0 /\ Contains(maps[stackIdx], w)
      keepLast  == lastHit # 0 /\ Contains(maps[lastHit], w)
      bitSet    == Bit(w.b) \in bitmap
      hit       == FindMapping(maps, w)
      keepExec  == bitSet /\ hit # 0 /\ maps[hit].exec
  IN [keep |-> keepSmall \/ keepStack \/ keepLast \/ keepExec,
      lastHit |-> IF ~keepSmall /\ ~keepStack /\ ~keepLast /\ keepExec THEN hit ELSE lastHit]

RECURSIVE Run(_, _, _, _, _, _)
Run(maps, stackIdx, bitmap, lastHit, words, k) ==
  IF k > Len(words) THEN <<>>
  ELSE LET r == ClassifyWord(maps, stackIdx, bitmap, lastHit, words[k])
       IN <<IF r.keep THEN "k" ELSE "d">> \o Run(maps, stackIdx, bitmap, r.lastHit, words, k + 1)
(* the whole function on the words at/above the stack pointer *)
SanitizeAll(maps, stackIdx, words) == Run(maps, stackIdx, BitmapOf(maps), 0, words, 1)

(* ---- property C12: the direct classifier, no optimisations ---- *)
Allowed(maps, stackIdx, w) ==
  \/ IsSmallSigned(w)
  \/ (stackIdx # 0 /\ Contains(maps[stackIdx], w))
  \/ \E k \in 1..Len(maps) : maps[k].exec /\ Contains(maps[k], w)
Expected(maps, stackIdx, words) == [j \in 1..Len(words) |-> IF Allowed(maps, stackIdx, words[j]) THEN "k" ELSE "d"]
(* the region layout: bytes below the (word-aligned-up) stack pointer offset are zeroed, then whole words,
   then a partial tail that is zeroed; the length never changes.  W = word size. *)
AlignedOff(spOff, W) == ((spOff + W - 1) \div W) * W
NumWords(len, spOff, W) == IF AlignedOff(spOff, W) >= len THEN 0 ELSE (len - AlignedOff(spOff, W)) \div W
PrefilterSoundFor(maps) ==
  \A k \in 1..Len(maps) : maps[k].exec => \A b \in maps[k].start.b .. maps[k].end.b : Bit(b) \in BitmapOf(maps)

(* ------------------------------- the state machine ------------------------------- *)
CONSTANTS Layouts,     \* candidate mapping layouts (sequences of mappings), model checking only
          WordPool,    \* candidate words
          MaxWords
VARIABLES maps, stackIdx, words, out, i, lastHit, bitmap, pc
vars == <<maps, stackIdx, words, out, i, lastHit, bitmap, pc>>
Init == /\ maps \in Layouts
        /\ stackIdx \in 0..1
        /\ words \in UNION {[1..n -> WordPool] : n \in 1..MaxWords}
        /\ out = <<>> /\ i = 1 /\ lastHit = 0 /\ bitmap = {} /\ pc = "bitmap"
BuildBitmap == /\ pc = "bitmap" /\ bitmap' = BitmapOf(maps) /\ pc' = "words"
               /\ UNCHANGED <<maps, stackIdx, words, out, i, lastHit>>
Classify == /\ pc = "words" /\ i <= Len(words)
            /\ LET r == ClassifyWord(maps, stackIdx, bitmap, lastHit, words[i]) IN
               /\ out' = Append(out, IF r.keep THEN "k" ELSE "d") /\ lastHit' = r.lastHit
            /\ i' = i + 1 /\ UNCHANGED <<maps, stackIdx, words, bitmap, pc>>
Done == pc = "words" /\ i > Len(words) /\ pc' = "done" /\ UNCHANGED <<maps, stackIdx, words, out, i, lastHit, bitmap>>
Next == BuildBitmap \/ Classify \/ Done
Spec == Init /\ [][Next]_vars

C12 == pc = "done" => out = Expected(maps, stackIdx, words)
PrefilterSound == pc # "bitmap" => PrefilterSoundFor(maps)
StepwiseIsRun == pc = "done" => out = SanitizeAll(maps, stackIdx, words)
=============================================================================
