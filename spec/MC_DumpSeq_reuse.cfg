SPECIFICATION Spec
CONSTANTS
  MaxThreads = 2
  MaxDumps = 2
  ResetOnDump = TRUE
  LimitConsumed = FALSE
  OwnCtxWhenUnlisted = TRUE
  AuxCounts = {1}
  Limits = {0, 3, 4}
  PlaceByNamedIndex = TRUE
INVARIANTS C01 C11 C19
CHECK_DEADLOCK FALSE
