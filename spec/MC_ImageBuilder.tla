-------------------------- MODULE MC_ImageBuilder --------------------------
(* Bounded instance of ImageBuilder for TLC, plus a history variable that is exported as one
   JSON line per complete history (spec -> implementation replay).                          *)
EXTENDS ImageBuilder, Json
VARIABLE hist
mcvars == <<vars, hist>>
Exp == [len |-> Len(img'), off |-> last'.off, size |-> last'.size, lo |-> last'.lo, hi |-> last'.hi]
Log(r) == hist' = Append(hist, r @@ [exp |-> Exp])
MCInit == Init /\ hist = <<>>
MCNext ==
  /\ nops < MaxOps
  /\ \/ \E sz \in Sizes : \/ Alloc(sz)    /\ Log([op |-> "alloc", sz |-> sz])
                          \/ AllocVal(sz) /\ Log([op |-> "allocval", sz |-> sz])
     \/ \E sz \in Sizes, n \in Counts : \/ AllocArray(sz, n) /\ Log([op |-> "allocarray", sz |-> sz, n |-> n])
                                        \/ AllocFrom(sz, n)  /\ Log([op |-> "allocfrom", sz |-> sz, n |-> n])
     \/ \E n \in Counts : \/ Bytes(n)  /\ Log([op |-> "bytes", n |-> n])
                          \/ String(n) /\ Log([op |-> "string", n |-> n])
     \/ \E h \in 1..Len(slots) : \/ SetValue(h) /\ Log([op |-> "setvalue", h |-> h])
                                 \/ \E i \in 0..2 : SetAt(h, i) /\ Log([op |-> "setat", h |-> h, i |-> i])
MCSpec == MCInit /\ [][MCNext]_mcvars
Emit == nops = MaxOps => PrintT(<<"REPLAY", ToJson(hist)>>)
=============================================================================
