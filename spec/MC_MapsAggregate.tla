------------------------- MODULE MC_MapsAggregate -------------------------
EXTENDS MapsAggregate, Json
Emit == Len(lines) = MaxLines => PrintT(<<"REPLAY", ToJson([lines |-> lines, gate |-> Gate, exp |-> infos])>>)
=============================================================================
