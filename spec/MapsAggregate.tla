--------------------------- MODULE MapsAggregate ---------------------------
(***************************************************************************)
(* Model of MappingInfo::aggregate (src/linux/maps_reader.rs:96-196): the  *)
(* fold that turns the lines of /proc/<pid>/maps into the mapping list,    *)
(* with its three merge rules and the linux-gate renaming.  `Step` is one  *)
(* iteration of the `for mm in memory_maps` loop; the action `Consume`     *)
(* applies it to a nondeterministically chosen next line.                  *)
(*                                                                         *)
(* Addresses are abstract naturals (only order, equality and differences   *)
(* matter to the algorithm).                                               *)
(***************************************************************************)
EXTENDS Naturals, Sequences, FiniteSets, TLC
CONSTANTS MaxLines,   \* bound on the number of lines (model checking)
          Names,      \* path names (they contain '/')
          PermSet,    \* permission strings offered to Next (model checking)
          Gate        \* start address of the vDSO reported by the auxiliary vector (0 = none)

(* permission strings as the kernel prints them; "---p" is PRIVATE with no access: the linker's reserved gap *)
Perms == {"---p", "r--p", "r-xp", "rw-p"}
IsExecP(p) == p \in {"--xp", "--xs", "r-xp", "r-xs", "-wxp", "-wxs", "rwxp", "rwxs"}
PrivOnly(p) == p = "---p"
(* the context of one aggregation: the vDSO address and which names are paths (contain '/') *)
Cx == [gate |-> Gate, paths |-> Names]
IsPathC(cx, n) == n \in cx.paths
IsPath(n) == IsPathC(Cx, n)
GateName == "linux-gate.so"
EndOf(m) == m.start + m.size

(* one iteration of the loop: (infos, cover) -> (infos', cover'); cover[i] = index of the output
   element line i was put into (ghost, for the properties) *)
StepC(cx, infos, cover, mm) ==
  LET isGate == cx.gate # 0 /\ ~IsPathC(cx, mm.name) /\ mm.start = cx.gate
      name   == IF isGate THEN GateName ELSE mm.name
      off    == IF isGate THEN 0 ELSE mm.off
      n      == Len(infos)
      prev   == infos[n]
      rule1  == n >= 1 /\ mm.start = EndOf(prev) /\ name # "none" /\ name = prev.name
      rule2  == n >= 1 /\ ~rule1 /\ mm.start = EndOf(prev) /\ prev.exec /\ IsPathC(cx, prev.name)
                  /\ (off = 0 \/ off = EndOf(prev)) /\ PrivOnly(mm.perms)
      pp     == infos[n-1]
      emptyPg == n >= 2 /\ IsPathC(cx, pp.name) /\ EndOf(pp) = prev.start
                  /\ (prev.off = 0 /\ prev.privonly /\ prev.name = "none") /\ EndOf(prev) = mm.start
      rule3  == ~rule1 /\ ~rule2 /\ emptyPg /\ name = pp.name
  IN
  IF rule1 THEN
     [infos |-> [infos EXCEPT ![n] = [prev EXCEPT !.size = mm.end - prev.start, !.sysend = mm.end,
                                                  !.exec = prev.exec \/ IsExecP(mm.perms), !.privonly = prev.privonly /\ PrivOnly(mm.perms)]],
      cover |-> Append(cover, n), rule |-> 1]
  ELSE IF rule2 THEN
     [infos |-> [infos EXCEPT ![n] = [prev EXCEPT !.size = mm.end - prev.start]],
      cover |-> Append(cover, n), rule |-> 2]
  ELSE IF rule3 THEN
     [infos |-> [SubSeq(infos, 1, n-1) EXCEPT ![n-1] = [pp EXCEPT !.size = mm.end - pp.start, !.sysend = mm.end,
                                                  !.exec = pp.exec \/ IsExecP(mm.perms), !.privonly = pp.privonly /\ PrivOnly(mm.perms)]],
      cover |-> [i \in 1..(Len(cover)+1) |-> IF i = Len(cover)+1 THEN n-1 ELSE IF cover[i] = n THEN n-1 ELSE cover[i]],
      rule |-> 3]
  ELSE
     [infos |-> Append(infos, [start |-> mm.start, size |-> mm.end - mm.start, sysend |-> mm.end, off |-> off,
                               exec |-> IsExecP(mm.perms), privonly |-> PrivOnly(mm.perms), name |-> name]),
      cover |-> Append(cover, n+1), rule |-> 0]

Step(infos, cover, mm) == StepC(Cx, infos, cover, mm)
RECURSIVE FoldC(_, _, _, _, _)
FoldC(cx, infos, cover, ls, k) == IF k > Len(ls) THEN [infos |-> infos, cover |-> cover]
                                  ELSE LET r == StepC(cx, infos, cover, ls[k]) IN FoldC(cx, r.infos, r.cover, ls, k + 1)
AggregateC(cx, ls) == FoldC(cx, <<>>, <<>>, ls, 1)
Aggregate(ls) == AggregateC(Cx, ls)

(* ------------------------- property C13, as predicates over (lines, output) ------------------------- *)
(* ls: the input lines; out: the produced list (records with start, size, name); nothing else is used *)
Inside(ln, m) == m.start <= ln.start /\ ln.end <= EndOf(m)
Ascending(out) == \A i \in 1..(Len(out)-1) : EndOf(out[i]) <= out[i+1].start
MembersOf(ls, out, j) == {i \in 1..Len(ls) : Inside(ls[i], out[j])}
EveryLineOnce(ls, out) == \A i \in 1..Len(ls) : Cardinality({j \in 1..Len(out) : Inside(ls[i], out[j])}) = 1
MinOf(S) == CHOOSE a \in S : \A b \in S : a <= b
MaxOf(S) == CHOOSE a \in S : \A b \in S : a >= b
Hull(ls, out) == \A j \in 1..Len(out) : LET M == MembersOf(ls, out, j) IN
           /\ M # {}
           /\ \A c \in MinOf(M)..MaxOf(M) : c \in M                 \* the merged lines are consecutive
           /\ out[j].start = ls[MinOf(M)].start /\ EndOf(out[j]) = ls[MaxOf(M)].end
NameAfterGate(cx, ln) == IF cx.gate # 0 /\ ~IsPathC(cx, ln.name) /\ ln.start = cx.gate THEN GateName ELSE ln.name
MergedOnlyWhenAllowed(cx, ls, out) ==
  \A j \in 1..Len(out) : \A i \in MembersOf(ls, out, j) : (i + 1) \in MembersOf(ls, out, j) =>
      /\ ls[i].end = ls[i+1].start                                    \* contiguous
      /\ \/ (NameAfterGate(cx, ls[i]) = NameAfterGate(cx, ls[i+1]) /\ NameAfterGate(cx, ls[i]) # "none")   \* same name
         \/ (PrivOnly(ls[i+1].perms) /\ IsPathC(cx, out[j].name))     \* reserved gap after a file mapping
         \/ (PrivOnly(ls[i].perms) /\ IsPathC(cx, out[j].name))       \* ... or between two parts of it
GateNamed(cx, ls, out) ==      \* the derived mapping that starts at the vDSO address carries the gate name
  cx.gate # 0 => \A j \in 1..Len(out) :
                 (out[j].start = cx.gate /\ \E i \in 1..Len(ls) : ls[i].start = cx.gate /\ ~IsPathC(cx, ls[i].name))
                    => out[j].name = GateName
C13C(cx, ls, out) == Ascending(out) /\ EveryLineOnce(ls, out) /\ Hull(ls, out) /\ MergedOnlyWhenAllowed(cx, ls, out) /\ GateNamed(cx, ls, out)
C13(ls, out) == C13C(Cx, ls, out)

(* ------------------------------- the state machine ------------------------------- *)
VARIABLES lines, infos, cover
vars == <<lines, infos, cover>>
Init == lines = <<>> /\ infos = <<>> /\ cover = <<>>
LastEnd == IF lines = <<>> THEN 1 ELSE lines[Len(lines)].end
Consume(mm) == LET r == Step(infos, cover, mm) IN
               /\ lines' = Append(lines, mm) /\ infos' = r.infos /\ cover' = r.cover
Next == /\ Len(lines) < MaxLines
        /\ \E gap \in {0, 1}, p \in PermSet, o \in {0, 1, 2}, nm \in Names \cup {"none", "[vdso]"} :
              Consume([start |-> LastEnd + gap, end |-> LastEnd + gap + 1, perms |-> p,
                       off |-> IF o = 2 THEN LastEnd ELSE o, name |-> nm])
Spec == Init /\ [][Next]_vars

Inv_C13 == C13(lines, infos)
(* the ghost `cover` agrees with containment: the property predicates talk about the same grouping *)
Inv_Cover == /\ Len(cover) = Len(lines)
             /\ \A i \in 1..Len(lines) : cover[i] \in 1..Len(infos) /\ Inside(lines[i], infos[cover[i]])
(* the fold is what the step-by-step machine computes *)
Inv_Fold == Aggregate(lines).infos = infos
=============================================================================
