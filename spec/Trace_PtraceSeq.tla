-------------------------- MODULE Trace_PtraceSeq --------------------------
(***************************************************************************)
(* Validates the recorded sequence of tracer steps of ONE dump (hook       *)
(* events, signal sends, thread exits, final observation) against the      *)
(* Ptrace model.  Every recorded event must be the corresponding Ptrace    *)
(* action; the kernel's steps (a thread dequeuing a signal, a thread       *)
(* running) are not recorded and are inferred by TLC: at most MaxSilent of *)
(* them between two recorded events.  The furthest event reached is kept   *)
(* in a TLC register; the trace is accepted when some behaviour of the     *)
(* model consumes all of it, ending in a state that agrees with what was   *)
(* observed in /proc and in the target's handler counters.                 *)
(*                                                                         *)
(* Run with -workers 1 and the depth-first queue (StateDeque).             *)
(***************************************************************************)
EXTENDS Ptrace, Json, IOUtils, TLCExt
Rec == ndJsonDeserialize(IOEnv.TRACE)
Hdr == Rec[1]                            \* {"ev":"header","n":threads,"sandbox":[..],"slow":[..],"maxsend":k,"steps":flushes}
TraceT == 1..Hdr.n
TraceSandbox == {Hdr.sandbox[k] : k \in 1..Len(Hdr.sandbox)}
TraceSlow == {Hdr.slow[k] : k \in 1..Len(Hdr.slow)}          \* threads that sit in vfork() when the dump starts
TraceMaxSend == Hdr.maxsend
TraceSteps == Hdr.steps
VARIABLES l, silent
tv == <<vars, l, silent>>
MaxSilent == 3
TInit == TLCSet(1, 1) /\ Init /\ l = 2 /\ silent = 0
Is(name) == l <= Len(Rec) /\ Rec[l].ev = name
E == Rec[l]
Consume == l' = l + 1 /\ silent' = 0

T_StopProcess == Is("StopProcess") /\ StopProcess /\ (shStop' = E.ok) /\ Consume
T_Poll        == Is("Poll") /\ Poll /\ (("StopProcessFailed" \in softErr') = ~E.stopped) /\ Consume
T_Enumerate   == Is("Enumerate") /\ Enumerate /\ threads' = E.tids /\ Consume
T_AttachOk    == Is("AttachOk") /\ pc = "attach" /\ cur <= Len(threads) /\ threads[cur] = E.t /\ Alive(E.t) /\ Attach /\ Consume
T_AttachFail  == Is("AttachFail") /\ pc = "attach" /\ cur <= Len(threads) /\ threads[cur] = E.t /\ ~Alive(E.t) /\ Attach /\ Consume
T_Wait        == Is("Wait") /\ pc = "wait" /\ threads[cur] = E.t /\ stopsig[E.t] = E.sig /\ Wait /\ Consume
T_Suspended   == Is("Suspended") /\ pc = "attach" /\ cur > Len(threads) /\ Attach /\ Len(threads) = E.n /\ Consume
T_Stream      == Is("Stream") /\ pc = "streams" /\ step < NFaultSteps /\ Streams /\ pc' = "streams" /\ Consume
T_StreamsDone == Is("StreamsDone") /\ pc = "streams" /\ step = NFaultSteps /\ Streams /\ pc' = "resume" /\ Consume
T_Abort       == Is("Abort") /\ pc = "streams" /\ step < NFaultSteps /\ Streams /\ pc' = "drop" /\ Consume
T_Detach      == Is("Detach") /\ pc \in {"resume", "drop"} /\ suspended /\ cur <= Len(threads) /\ threads[cur] = E.t
                 /\ (Resume \/ Drop) /\ Consume
T_ResumeEnd   == Is("ResumeEnd") /\ pc \in {"resume", "drop"} /\ (~suspended \/ cur > Len(threads)) /\ (Resume \/ Drop) /\ Consume
T_SigCont     == Is("SigCont") /\ SigCont /\ Consume
T_Send        == Is("Send") /\ Send(E.t) /\ Consume
T_Exit        == Is("Exit") /\ Exit(E.t) /\ Consume
(* black-box observation after the dump: the model state must agree with it *)
T_Observe     == Is("Observe") /\ pc = "done"
                 /\ (\A u \in T : E.alive[u] = Alive(u))
                 /\ (\A w \in T : Alive(w) => (/\ delivered[w] = E.delivered[w] /\ (E.quiescent => pendRt[w] = 0)
                                                /\ (E.tracer[w] = 0) = ~traced[w]
                                                /\ E.stopped[w] = (st[w] # "run")))
                 /\ UNCHANGED vars /\ Consume
(* unrecorded steps: the kernel, and the tracer's step between resume and drop that has no hook *)
(* before the final observation every queued signal may still have to be dequeued, and every thread to run again *)
MaxSilentNow == IF Is("Observe") THEN MaxSilent + 2 * Hdr.maxsend + 2 * Hdr.n ELSE MaxSilent
Silent == /\ silent < MaxSilentNow /\ l' = l /\ silent' = silent + 1
          /\ \/ \E t \in T : Dequeue(t) \/ Run(t) \/ Wake(t)
             \/ SoftErr
TNext == T_StopProcess \/ T_Poll \/ T_Enumerate \/ T_AttachOk \/ T_AttachFail \/ T_Wait \/ T_Suspended \/ T_Stream \/ T_StreamsDone
         \/ T_Abort \/ T_Detach \/ T_ResumeEnd \/ T_SigCont \/ T_Send \/ T_Exit \/ T_Observe \/ Silent
TSpec == TInit /\ [][TNext]_tv
Progress == TLCSet(1, IF TLCGet(1) < l THEN l ELSE TLCGet(1))      \* CONSTRAINT: remember the furthest event reached
Accepted == PrintT(<<"VERDICT", ToJson([events |-> Len(Rec), reached |-> TLCGet(1) - 1,
                                         firstUnmatched |-> IF TLCGet(1) <= Len(Rec) THEN Rec[TLCGet(1)] ELSE [ev |-> "none"]])>>)
=============================================================================
