------------------------------- MODULE DumpSeq -------------------------------
(***************************************************************************)
(* Model of MinidumpWriter::dump / generate_dump                            *)
(* (src/linux/minidump_writer.rs:144-444) as an allocator of objects in     *)
(* the image: every stream writer appends, in the code's allocation order,  *)
(* the objects it creates (count header immediately followed by its array,  *)
(* per-thread stack then context, strings before or after their records,    *)
(* ...) and returns a directory entry.  Sizes are symbolic (1 cell per      *)
(* record).  The writer object survives a call: `memBlocks`, `crashCtx`     *)
(* and `principal` are fields of the writer, not of the call - whether they *)
(* are reset at the start of a dump is the constant ResetOnDump.            *)
(* The caller's size limit is a field of the writer too (`limit`): a dump   *)
(* reads it to decide whether stacks beyond the first KeepFull threads are  *)
(* shortened; `LimitConsumed` says whether a dump also writes it (a budget  *)
(* that shrinks) - the caller's settings are not the dump's to change.      *)
(* Properties: C01 (structure), C11 (soft failures), C19 (no carry-over).   *)
(***************************************************************************)
EXTENDS Naturals, Sequences, FiniteSets, TLC
CONSTANTS MaxThreads, MaxDumps,
          Limits,             \* the limits a caller may configure (0 = none), in cells
          AuxCounts,          \* the numbers of modules / handles / link maps a scenario may have ({0, 1}; {1} where they do not matter)
          OwnCtxWhenUnlisted, \* TRUE: with a crash context supplied and the blamed thread not in the list, the exception stream stores the supplied
                              \* context itself; FALSE: its context location stays empty
          LimitConsumed,      \* TRUE: a dump lowers the writer's limit by what its stacks took; FALSE: it only reads it
          ResetOnDump,        \* TRUE: writer state reset at the start of dump(); FALSE: never reset
          PlaceByNamedIndex   \* thread-name slot function (see ThreadNames)
NSlots == 8   \* thread list, modules, memory list, exception, system info, best-effort X (dso debug), thread names, handles
VARIABLES withCtx,    \* this dump's scenario: a crash context is supplied
          blamedListed, \* this dump's scenario: the blamed thread (thread 1) is in the thread list (not dropped at suspend)
          threads,    \* this dump's scenario: Seq of [named : BOOLEAN, hasStack : BOOLEAN]
          appRegs,    \* 0..1 application regions
          nmods, nhandles, ndsos,
          xFails,     \* best-effort stream X fails softly in this dump
          len,        \* image length
          objs,       \* set of [k, off, len, own]
          dir,        \* Seq of [ty, off, len] (ty = 0 : unused)
          memBlocks,  \* writer-persistent: Seq of [off, len, dump]
          crashCtx,   \* writer-persistent: [off, len, dump] or NoCtx
          limit,      \* writer-persistent: the size limit in force (0 = none)
          callerLimit,\* what the caller configured (never touched by the model's writer: the yardstick)
          softErrs, dumpNo, pc
vars == <<withCtx, blamedListed, threads, appRegs, nmods, nhandles, ndsos, xFails, len, objs, dir, memBlocks, crashCtx, limit, callerLimit, softErrs, dumpNo, pc>>
KeepFull == 1        \* the first KeepFull threads always keep their whole stack (20 in the code)
FullStack == 2       \* cells of a whole stack; a shortened one has 1
NStacks(ths) == Cardinality({i \in 1..Len(ths) : ths[i].hasStack})
(* the decision of thread_list_stream::write: the estimate (every thread's whole stack) against the limit *)
Shortens(ths, lim) == lim # 0 /\ FullStack * NStacks(ths) > lim
StackLen(ths, i, lim) == IF i > KeepFull /\ Shortens(ths, lim) THEN 1 ELSE FullStack
NoCtx == [off |-> 0, len |-> 0, dump |-> 0]
Scenario == /\ threads' \in UNION {[1..n -> [named : BOOLEAN, hasStack : BOOLEAN]] : n \in 1..MaxThreads}
            /\ withCtx' \in BOOLEAN /\ blamedListed' \in BOOLEAN
            /\ appRegs' \in 0..1 /\ xFails' \in BOOLEAN /\ nmods' \in AuxCounts /\ nhandles' \in AuxCounts /\ ndsos' \in AuxCounts
Init == /\ withCtx = FALSE /\ blamedListed = TRUE /\ threads = <<>> /\ appRegs = 0 /\ nmods = 0 /\ nhandles = 0 /\ ndsos = 0 /\ xFails = FALSE /\ len = 0 /\ objs = {} /\ dir = <<>>
        /\ memBlocks = <<>> /\ crashCtx = NoCtx /\ softErrs = {} /\ dumpNo = 0 /\ pc = "idle"
        /\ limit \in Limits /\ callerLimit = limit
Begin == /\ pc = "idle" /\ dumpNo < MaxDumps /\ Scenario
         /\ dumpNo' = dumpNo + 1 /\ len' = 1 + NSlots           \* header + directory
         /\ objs' = {[k |-> "hdr", off |-> 0, len |-> 1, own |-> 0], [k |-> "dir", off |-> 1, len |-> NSlots, own |-> 0]}
         /\ dir' = <<>> /\ softErrs' = {}
         /\ IF ResetOnDump THEN memBlocks' = <<>> /\ crashCtx' = NoCtx ELSE UNCHANGED <<memBlocks, crashCtx>>
         /\ pc' = "threads" /\ UNCHANGED <<limit, callerLimit>>
(* sequential allocation: a list of [k, len, own] appended at `base` *)
RECURSIVE Place(_, _)
Place(items, base) == IF items = <<>> THEN {} ELSE
      {[k |-> Head(items).k, off |-> base, len |-> Head(items).len, own |-> Head(items).own]} \cup Place(Tail(items), base + Head(items).len)
RECURSIVE Sum(_)
Sum(items) == IF items = <<>> THEN 0 ELSE Head(items).len + Sum(Tail(items))
Keep == <<withCtx, blamedListed, threads, appRegs, nmods, nhandles, ndsos, xFails, dumpNo, callerLimit>>
ThreadList ==    \* thread_list_stream::write: header+array, then per thread (stack), context
  /\ pc = "threads"
  /\ LET n == Len(threads)
         arr == <<[k |-> "s:threads", len |-> 1 + n, own |-> 0]>>
         per == [i \in 1..n |-> IF threads[i].hasStack THEN <<[k |-> "stack", len |-> StackLen(threads, i, limit), own |-> i], [k |-> "ctx", len |-> 1, own |-> i]>>
                                                       ELSE <<[k |-> "ctx", len |-> 1, own |-> i]>>]
         flat == LET RECURSIVE F(_) F(j) == IF j > n THEN <<>> ELSE per[j] \o F(j+1) IN F(1)
         placed == Place(arr \o flat, len)
         stacks == {o \in placed : o.k = "stack"}
         ord == CHOOSE sq \in [1..Cardinality(stacks) -> stacks] : \A a, b \in 1..Cardinality(stacks) : a < b => sq[a].off < sq[b].off
     IN /\ objs' = objs \cup placed
        /\ len' = len + Sum(arr \o flat)
        /\ dir' = Append(dir, [ty |-> 3, off |-> len, len |-> 1 + n])
        /\ memBlocks' = memBlocks \o [j \in 1..Cardinality(stacks) |-> [off |-> ord[j].off, len |-> ord[j].len, dump |-> dumpNo]]
        /\ limit' = IF LimitConsumed /\ limit # 0 THEN (IF limit > Sum(flat) THEN limit - Sum(flat) ELSE 1) ELSE limit
        /\ crashCtx' = IF blamedListed      \* blamed = thread 1; when it is not listed nothing is recorded here
                         THEN LET c == CHOOSE o \in placed : o.k = "ctx" /\ o.own = 1 IN [off |-> c.off, len |-> 1, dump |-> dumpNo]
                         ELSE crashCtx
  /\ pc' = "modules" /\ UNCHANGED <<Keep, softErrs>>
Modules ==       \* mappings::write: per module cv record, name string; then header+array
  /\ pc = "modules"
  /\ LET per == IF nmods = 1 THEN <<[k |-> "cv", len |-> 1, own |-> 1], [k |-> "modname", len |-> 1, own |-> 1]>> ELSE <<>>
         arr == <<[k |-> "s:modules", len |-> 1 + nmods, own |-> 0]>>
         base == len + Sum(per)
     IN /\ objs' = objs \cup Place(per \o arr, len)
        /\ dir' = Append(dir, [ty |-> 4, off |-> base, len |-> 1 + nmods]) /\ len' = len + Sum(per \o arr)
  /\ pc' = "app" /\ UNCHANGED <<Keep, memBlocks, crashCtx, softErrs, limit>>
AppMem ==        \* app_memory::write: blobs only, no directory entry
  /\ pc = "app"
  /\ IF appRegs = 1
       THEN /\ objs' = objs \cup {[k |-> "app", off |-> len, len |-> 1, own |-> 0]} /\ len' = len + 1
            /\ memBlocks' = Append(memBlocks, [off |-> len, len |-> 1, dump |-> dumpNo])
       ELSE UNCHANGED <<objs, len, memBlocks>>
  /\ pc' = "memlist" /\ UNCHANGED <<Keep, dir, crashCtx, softErrs, limit>>
MemList ==       \* memory_list_stream::write: header + every descriptor in memory_blocks
  /\ pc = "memlist"
  /\ objs' = objs \cup {[k |-> "s:memlist", off |-> len, len |-> 1 + Len(memBlocks), own |-> 0]}
                  \cup {[k |-> "memdesc", off |-> memBlocks[j].off, len |-> memBlocks[j].len, own |-> j] : j \in 1..Len(memBlocks)}
  /\ dir' = Append(dir, [ty |-> 5, off |-> len, len |-> 1 + Len(memBlocks)])
  /\ len' = len + 1 + Len(memBlocks)
  /\ pc' = "exception" /\ UNCHANGED <<Keep, memBlocks, crashCtx, softErrs, limit>>
Exception ==     \* exception_stream::write: record pointing at the crashing-thread context
  /\ pc = "exception"
  /\ IF crashCtx.len = 0 /\ withCtx /\ OwnCtxWhenUnlisted
       THEN \* no thread entry carries the supplied context: it is stored here, then the record
            /\ objs' = objs \cup {[k |-> "ctx", off |-> len, len |-> 1, own |-> 0], [k |-> "excctx", off |-> len, len |-> 1, own |-> 0],
                                  [k |-> "s:exception", off |-> len + 1, len |-> 1, own |-> 0]}
            /\ dir' = Append(dir, [ty |-> 6, off |-> len + 1, len |-> 1]) /\ len' = len + 2
       ELSE /\ objs' = objs \cup {[k |-> "s:exception", off |-> len, len |-> 1, own |-> 0], [k |-> "excctx", off |-> crashCtx.off, len |-> crashCtx.len, own |-> 0]}
            /\ dir' = Append(dir, [ty |-> 6, off |-> len, len |-> 1]) /\ len' = len + 1
  /\ pc' = "sysinfo" /\ UNCHANGED <<Keep, memBlocks, crashCtx, softErrs, limit>>
SysInfo ==       \* systeminfo_stream::write: record allocated first, then the OS version string
  /\ pc = "sysinfo"
  /\ objs' = objs \cup Place(<<[k |-> "s:sysinfo", len |-> 1, own |-> 0], [k |-> "csd", len |-> 1, own |-> 0]>>, len)
  /\ dir' = Append(dir, [ty |-> 7, off |-> len, len |-> 1]) /\ len' = len + 2
  /\ pc' = "x" /\ UNCHANGED <<Keep, memBlocks, crashCtx, softErrs, limit>>
BestEffortX ==   \* dso debug stream as the representative best-effort stream: link-map array, names, record + dynamic copy
  /\ pc = "x"
  /\ IF xFails THEN /\ dir' = Append(dir, [ty |-> 0, off |-> 0, len |-> 0]) /\ softErrs' = softErrs \cup {"X"} /\ UNCHANGED <<objs, len>>
               ELSE LET per == IF ndsos = 1 THEN <<[k |-> "linkmaps", len |-> 1, own |-> 0], [k |-> "dsoname", len |-> 1, own |-> 1]>> ELSE <<>>
                        base == len + Sum(per)
                    IN /\ objs' = objs \cup Place(per \o <<[k |-> "s:x", len |-> 2, own |-> 0]>>, len) /\ len' = len + Sum(per) + 2
                       /\ dir' = Append(dir, [ty |-> 9, off |-> base, len |-> 2]) /\ UNCHANGED softErrs
  /\ pc' = "names" /\ UNCHANGED <<Keep, memBlocks, crashCtx, limit>>
Names ==         \* thread_names_stream::write (see ThreadNames)
  /\ pc = "names"
  /\ LET n == Len(threads)
         named == {i \in 1..n : threads[i].named}
         c == Cardinality(named)
         arrOff == len
         strOff(i) == arrOff + 1 + c + Cardinality({j \in named : j < i})        \* strings of length 1, in thread order
         slot(i) == IF PlaceByNamedIndex THEN Cardinality({j \in named : j < i}) ELSE i - 1
         entries == {[k |-> "nameent", off |-> arrOff + 1 + slot(i), len |-> 1, own |-> i] : i \in named}
         strings == {[k |-> "namestr", off |-> strOff(i), len |-> 1, own |-> i] : i \in named}
     IN /\ objs' = objs \cup {[k |-> "s:names", off |-> arrOff, len |-> 1 + c, own |-> 0]} \cup entries \cup strings
        /\ dir' = Append(dir, [ty |-> 24, off |-> arrOff, len |-> 1 + c])
        /\ len' = len + 1 + 2 * c
  /\ pc' = "handles" /\ UNCHANGED <<Keep, memBlocks, crashCtx, softErrs, limit>>
Handles ==       \* handle_data_stream::write: name strings first (while collecting), then header + descriptors
  /\ pc = "handles"
  /\ LET per == IF nhandles = 1 THEN <<[k |-> "handlename", len |-> 1, own |-> 1]>> ELSE <<>>
         base == len + Sum(per)
     IN /\ objs' = objs \cup Place(per \o <<[k |-> "s:handles", len |-> 1 + nhandles, own |-> 0]>>, len)
        /\ dir' = Append(dir, [ty |-> 12, off |-> base, len |-> 1 + nhandles]) /\ len' = len + Sum(per) + 1 + nhandles
  /\ pc' = "ret" /\ UNCHANGED <<Keep, memBlocks, crashCtx, softErrs, limit>>
Return == pc = "ret" /\ pc' = "idle" /\ UNCHANGED <<Keep, len, objs, dir, memBlocks, crashCtx, softErrs, limit>>
(* a hard error at any stage (an unreadable application region, the destination failing): dump() returns Err, whatever the
   writer has accumulated so far stays in it, and the writer can be asked again *)
Abort == pc \notin {"idle", "ret"} /\ pc' = "idle" /\ UNCHANGED <<Keep, len, objs, dir, memBlocks, crashCtx, softErrs, limit>>
Next == Begin \/ ThreadList \/ Modules \/ AppMem \/ MemList \/ Exception \/ SysInfo \/ BestEffortX \/ Names \/ Handles \/ Return \/ Abort
Spec == Init /\ [][Next]_vars

(* ---- properties, evaluated when a dump returns ---- *)
AtReturn == pc = "ret"
Inside(o) == o.off + o.len <= len
Disjoint(a, b) == a.off + a.len <= b.off \/ b.off + b.len <= a.off
Top == {o \in objs : o.k \in {"hdr", "dir", "stack", "ctx", "app", "namestr", "cv", "modname", "csd", "linkmaps", "dsoname", "handlename",
                              "s:threads", "s:modules", "s:memlist", "s:exception", "s:sysinfo", "s:x", "s:names", "s:handles"}}
C01 == AtReturn =>
   /\ Len(dir) = NSlots
   /\ \A a, b \in 1..Len(dir) : a # b /\ dir[a].ty # 0 => dir[a].ty # dir[b].ty
   /\ \A o \in objs : o.len > 0 => Inside(o)
   /\ \A a, b \in Top : a # b => Disjoint(a, b)
   /\ \A e \in {o \in objs : o.k = "nameent"} :                                   \* entries lie in their array, one per slot
        /\ \E s \in objs : s.k = "s:names" /\ s.off < e.off /\ e.off < s.off + s.len
        /\ \A e2 \in {o \in objs : o.k = "nameent"} : e2 # e => e2.off # e.off
   \* a memory descriptor / the exception context name a blob of THIS image of the intended kind (the two intended aliases)
   /\ \A m \in {o \in objs : o.k = "memdesc"} : \E b \in objs : b.k \in {"stack", "app"} /\ b.off = m.off /\ b.len = m.len
   /\ \A x \in {o \in objs : o.k = "excctx"} : x.len > 0 => \E b \in objs : b.k = "ctx" /\ b.off = x.off
C11 == AtReturn => /\ (softErrs = {}) <=> ~xFails
                   /\ \A i \in 1..Len(dir) : (dir[i].ty = 0) <=> (i = 6 /\ xFails)
C19 == AtReturn =>
   /\ \A j \in 1..Len(memBlocks) : memBlocks[j].dump = dumpNo
   /\ Len(memBlocks) = Cardinality({i \in 1..Len(threads) : threads[i].hasStack}) + appRegs
   /\ (blamedListed => crashCtx.dump = dumpNo) /\ (~blamedListed => crashCtx = NoCtx)
   \* C05: with a crash context the exception record points at a context (the blamed thread's entry's when it is listed); without one
   \* and without the thread there is none
   /\ \A x \in {o \in objs : o.k = "excctx"} : /\ (withCtx \/ blamedListed) => x.len = 1
                                               /\ (~withCtx /\ ~blamedListed) => x.len = 0
                                               /\ blamedListed => \E b \in objs : b.k = "ctx" /\ b.own = 1 /\ b.off = x.off
   \* the caller's settings are as the caller left them, and this image's stacks are those a fresh writer with these settings takes
   /\ limit = callerLimit
   /\ \A o \in {x \in objs : x.k = "stack"} : o.len = StackLen(threads, o.own, callerLimit)
=============================================================================
