SPECIFICATION Spec
CONSTANTS
  MaxLines = 3
INVARIANTS Emit
CHECK_DEADLOCK FALSE
