SPECIFICATION Spec
CONSTANTS
  NSlots = 3
  MaxBody = 2
  Starts = {0, 2}
  TailLen = 3
  MaxBlobs = 1
  FlushFirst = TRUE
  WriteAll = TRUE
INVARIANTS C10_PrefixConsistent
CHECK_DEADLOCK FALSE
