SPECIFICATION Spec
CONSTANT TranslateVaddr = TRUE
INVARIANTS Total Emit
CHECK_DEADLOCK FALSE
