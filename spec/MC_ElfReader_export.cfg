SPECIFICATION Spec
CONSTANT TranslateVaddr = TRUE
CONSTANT NoteAlignPerSegment = TRUE
CONSTANT RemoteNameCap = FALSE
INVARIANTS Total Emit
CHECK_DEADLOCK FALSE
