SPECIFICATION Spec
CONSTANT TranslateVaddr = TRUE
CONSTANT RemoteNameCap = FALSE
INVARIANTS Total Emit
CHECK_DEADLOCK FALSE
