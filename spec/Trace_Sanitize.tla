--------------------------- MODULE Trace_Sanitize ---------------------------
(* Judges recorded calls of the real sanitize_stack_copy: property C12 (the direct classifier of
   Sanitize, plus the layout clauses) on the observed output, and conformance of the observed
   per-word decisions with the step-by-step model (pre-filter + caches).                     *)
EXTENDS Sanitize, Json, IOUtils, FiniteSets
Rec == ndJsonDeserialize(IOEnv.TRACE)
VARIABLES l, viol, drift, nchk, nwords
tvars == <<vars, l, viol, drift, nchk, nwords>>
E == Rec[l]
Has(r, f) == f \in DOMAIN r
NTag(seq, tag) == Cardinality({k \in 1..Len(seq) : seq[k][2] = tag})
Note(cond, seq, tag) == IF cond \/ NTag(seq, tag) >= 60 THEN seq ELSE Append(seq, <<l, tag>>)
TInit == /\ l = 1 /\ viol = <<>> /\ drift = <<>> /\ nchk = 0 /\ nwords = 0
         /\ maps = <<>> /\ stackIdx = 0 /\ words = <<>> /\ out = <<>> /\ i = 1 /\ lastHit = 0 /\ bitmap = {} /\ pc = "trace"
W == 8
Agrees(obs, exp) == obs = exp \/ obs = "kd"          \* "kd": the input word already was the sentinel value
NegSmall(w) == ~w.big /\ w.s < 0 /\ w.s >= -Small
Case == /\ E.ev = "case" /\ Has(E, "out")
        /\ LET want == Expected(E.maps, E.stackIdx, E.words)
               model == SanitizeAll(E.maps, E.stackIdx, E.words)
               shapeOk == Len(E.out) = Len(E.words) /\ Len(E.words) = NumWords(E.len, E.spOff, W)
               bad == IF shapeOk THEN {j \in 1..Len(E.words) : ~Agrees(E.out[j], want[j])} ELSE {}
               v1 == Note(shapeOk /\ E.lenKept, viol, "C12-shape")
               v2 == Note(E.belowZero /\ E.tailZero, v1, "C12-zeroing")
               \* a qualifying word must survive, a non-qualifying one must be replaced; the class of the
               \* misjudged word is part of the tag so that distinct defects stay distinguishable
               v3 == Note(\A j \in bad : ~NegSmall(E.words[j]), v2, "C12-negative-small-int-defaced")
               v4 == Note(\A j \in bad : NegSmall(E.words[j]), v3, "C12-word")
           IN /\ viol' = v4
              /\ drift' = Note(shapeOk => \A j \in 1..Len(E.words) : Agrees(E.out[j], model[j]), drift, "sanitize")
        /\ nchk' = nchk + 1 /\ nwords' = nwords + Len(E.words)
(* the function is total over region lengths, including lengths shorter than the stack-pointer offset *)
Failed == /\ E.ev = "case" /\ ~Has(E, "out")
          /\ viol' = Note(FALSE, viol, IF Has(E, "panic") THEN (IF AlignedOff(E.spOff, W) > E.len THEN "C12-panic-region-shorter-than-sp-offset" ELSE "C12-panic") ELSE "C12-error")
          /\ UNCHANGED <<drift, nchk, nwords>>
TNext == l <= Len(Rec) /\ (Case \/ Failed) /\ l' = l + 1 /\ UNCHANGED vars
TSpec == TInit /\ [][TNext]_tvars
Verdict == l = Len(Rec) + 1 =>
   PrintT(<<"VERDICT", ToJson([events |-> Len(Rec), checked |-> nchk, words |-> nwords, viol |-> viol, drift |-> drift])>>)
Accepted == TLCGet("stats").diameter = Len(Rec) + 1
=============================================================================
