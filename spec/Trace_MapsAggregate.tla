------------------------- MODULE Trace_MapsAggregate -------------------------
(* Judges recorded input/output pairs of the real MappingInfo::aggregate.  Per case: the property
   C13 is evaluated on the OBSERVED output against the input lines (nothing of the model is used
   for that), and the observed output is compared with what MapsAggregate's fold computes for the
   same lines (conformance: every merge decision of the code is the model's).                  *)
EXTENDS MapsAggregate, Integers, Json, IOUtils, FiniteSets
Rec == ndJsonDeserialize(IOEnv.TRACE)
VARIABLES l, viol, drift, nchk, nmerge
tvars == <<vars, l, viol, drift, nchk, nmerge>>
E == Rec[l]
Has(r, f) == f \in DOMAIN r
NTag(seq, tag) == Cardinality({k \in 1..Len(seq) : seq[k][2] = tag})
Note(cond, seq, tag) == IF cond \/ NTag(seq, tag) >= 60 THEN seq ELSE Append(seq, <<l, tag>>)
TInit == Init /\ l = 1 /\ viol = <<>> /\ drift = <<>> /\ nchk = 0 /\ nmerge = 0
CxOf(e) == [gate |-> e.gate, paths |-> {e.lines[i].name : i \in {k \in 1..Len(e.lines) : e.lines[k].path}}]
Strip(m) == [start |-> m.start, size |-> m.size, sysend |-> m.sysend, off |-> m.off, exec |-> m.exec,
             privonly |-> m.privonly, name |-> m.name]
Case == /\ E.ev = "case" /\ Has(E, "out")
        /\ LET cx == CxOf(E)
               model == AggregateC(cx, E.lines).infos
               obs == [j \in 1..Len(E.out) |-> Strip(E.out[j])]
           IN /\ viol' = Note(C13C(cx, E.lines, E.out), viol, "C13")
              /\ drift' = Note(obs = model, drift, "aggregate")
              /\ nmerge' = nmerge + (IF Len(E.out) < Len(E.lines) THEN 1 ELSE 0)
        /\ nchk' = nchk + 1
(* a well-formed map must aggregate: an error or a panic is a failure of the function, not of C13's shape *)
Failed == /\ E.ev = "case" /\ ~Has(E, "out")
          /\ viol' = Note(FALSE, viol, "C13-failed") /\ UNCHANGED <<drift, nchk, nmerge>>
TNext == l <= Len(Rec) /\ (Case \/ Failed) /\ l' = l + 1 /\ UNCHANGED vars
TSpec == TInit /\ [][TNext]_tvars
Verdict == l = Len(Rec) + 1 =>
   PrintT(<<"VERDICT", ToJson([events |-> Len(Rec), checked |-> nchk, merged |-> nmerge, viol |-> viol, drift |-> drift])>>)
Accepted == TLCGet("stats").diameter = Len(Rec) + 1
=============================================================================
