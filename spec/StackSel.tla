------------------------------ MODULE StackSel ------------------------------
(***************************************************************************)
(* Model of the per-thread stack selection of the thread list:             *)
(*   PtraceDumper::get_stack_info (ptrace_dumper.rs:493-526): round the    *)
(*     stack pointer down to its page, then walk up page by page while the *)
(*     page is not in a readable-or-writable mapping and the guard         *)
(*     distance is not exceeded;                                           *)
(*   fill_thread_stack (thread_list_stream.rs:177-232): apply the size     *)
(*     limit to extra threads, apply the skip-if-unreferenced rule         *)
(*     (MappingInfo::stack_has_pointer_to_mapping, maps_reader.rs:220-251).*)
(* The walk is a loop with its own program counter so that TLC checks its  *)
(* termination and bound.  Properties: C06 (region contains the live       *)
(* stack), C20 (inclusion rule).                                           *)
(***************************************************************************)
EXTENDS Integers, Sequences, FiniteSets, TLC
CONSTANTS P,            \* page size
          Cap,          \* LIMIT_MAX_EXTRA_THREAD_STACK_LEN (2048 in the code)
          GuardPages,   \* guard distance in pages (1 MiB / page size)
          BaseThreads,  \* LIMIT_BASE_THREAD_COUNT (20): threads before this list position are never shortened
          ChunkSkip,    \* TRUE: when shortening, skip whole Cap-sized chunks below the stack pointer; FALSE: keep the first Cap bytes of the region
          HalfOpen      \* TRUE: the principal mapping is [low, high); FALSE: its upper bound is treated as inside

(* mappings: Seq of [s, e, rw] ascending and disjoint; rw = readable or writable (may_be_stack) *)
Find(maps, a) == IF \E k \in 1..Len(maps) : maps[k].s <= a /\ a < maps[k].e
                 THEN CHOOSE k \in 1..Len(maps) : maps[k].s <= a /\ a < maps[k].e ELSE 0
PageOf(a) == a - (a % P)
MayBeStack(maps, k) == k # 0 /\ maps[k].rw
NoRegion == [start |-> 0, len |-> 0]

(* get_stack_info as a function: the walk, then the region from the page reached to the end of its mapping *)
RECURSIVE WalkFrom(_, _, _)
WalkFrom(maps, cur, limit) ==
  IF ~MayBeStack(maps, Find(maps, cur)) /\ cur <= limit THEN WalkFrom(maps, cur + P, limit) ELSE cur
StackInfo(maps, sp) ==
  LET cur == WalkFrom(maps, PageOf(sp), PageOf(sp) + GuardPages * P)
      k == Find(maps, cur)
  IN IF k = 0 THEN NoRegion ELSE [start |-> cur, len |-> maps[k].e - cur]
(* the size limit applies to threads at list position >= BaseThreads, never to the crash-context thread *)
Shorten(idx, limited, isCrash) == limited /\ idx >= BaseThreads /\ ~isCrash
ApplyLimit(region, sp, shorten) ==
  IF region.len > 0 /\ shorten /\ region.len > Cap
    THEN LET st == IF ChunkSkip /\ sp >= region.start THEN region.start + ((sp - region.start) \div Cap) * Cap ELSE region.start
             rest == region.start + region.len - st
         IN [start |-> st, len |-> IF rest < Cap THEN rest ELSE Cap]
    ELSE region
InPrin(prin, a) == IF HalfOpen THEN prin.low <= a /\ a < prin.high ELSE prin.low <= a /\ a <= prin.high
(* words: the pointer-aligned words at/above the stack pointer inside the captured region *)
Included(region, prin, ip, words) == region.len > 0 /\ (InPrin(prin, ip) \/ \E j \in DOMAIN words : InPrin(prin, words[j]))

(* ------------------------- properties as predicates ------------------------- *)
SpReadable(maps, sp) == MayBeStack(maps, Find(maps, sp))
C06For(maps, sp, idx, limited, isCrash, region) ==
   IF SpReadable(maps, sp)
     THEN LET unshortened == region.start = PageOf(sp) /\ region.start + region.len = maps[Find(maps, sp)].e IN
          /\ region.start <= sp /\ sp < region.start + region.len
          /\ (unshortened \/ (Shorten(idx, limited, isCrash) /\ region.len <= Cap))
     ELSE region.len = 0 \/ (/\ region.start > sp /\ region.start <= PageOf(sp) + (GuardPages + 1) * P
                            /\ MayBeStack(maps, Find(maps, region.start))
                            \* it BEGINS at that mapping, the first plausible one above the stack pointer - also when shortened
                            /\ region.start = maps[Find(maps, region.start)].s
                            /\ ~\E k \in DOMAIN maps : MayBeStack(maps, k) /\ maps[k].s > sp /\ maps[k].s < region.start
                            /\ (region.start + region.len = maps[Find(maps, region.start)].e \/ (Shorten(idx, limited, isCrash) /\ region.len <= Cap)))
C20For(prin, ip, words, region, included) ==
   region.len > 0 => (included <=> ((prin.low <= ip /\ ip < prin.high) \/ \E j \in DOMAIN words : prin.low <= words[j] /\ words[j] < prin.high))

(* ------------------------------- the state machine ------------------------------- *)
CONSTANTS Layouts, MaxAddr
VARIABLES maps, sp, idx, limited, isCrash, ip, words, prin, cur, steps, region, included, pc
vars == <<maps, sp, idx, limited, isCrash, ip, words, prin, cur, steps, region, included, pc>>
Init == /\ maps \in Layouts
        /\ sp \in P..(5*P - 1) /\ idx \in {BaseThreads - 1, BaseThreads} /\ limited \in BOOLEAN /\ isCrash \in BOOLEAN
        /\ prin = [low |-> 6*P, high |-> 7*P]
        /\ ip \in {6*P - 1, 6*P, 7*P - 1, 7*P, 7*P + 1}
        /\ words \in [0..1 -> {0, 6*P - 1, 6*P, 7*P - 1, 7*P, 7*P + 1}]
        /\ cur = PageOf(sp) /\ steps = 0 /\ region = NoRegion /\ included = FALSE /\ pc = "walk"
Walk == /\ pc = "walk"
        /\ IF ~MayBeStack(maps, Find(maps, cur)) /\ cur <= PageOf(sp) + GuardPages * P
             THEN cur' = cur + P /\ steps' = steps + 1 /\ UNCHANGED <<pc, region>>
             ELSE /\ pc' = "limit" /\ UNCHANGED <<cur, steps>>
                  /\ LET k == Find(maps, cur) IN
                     region' = IF k = 0 THEN NoRegion ELSE [start |-> cur, len |-> maps[k].e - cur]
        /\ UNCHANGED <<maps, sp, idx, limited, isCrash, ip, words, prin, included>>
Limit == /\ pc = "limit" /\ region' = ApplyLimit(region, sp, Shorten(idx, limited, isCrash))
         /\ pc' = "skip" /\ UNCHANGED <<maps, sp, idx, limited, isCrash, ip, words, prin, cur, steps, included>>
Skip == /\ pc = "skip" /\ included' = Included(region, prin, ip, words)
        /\ pc' = "done" /\ UNCHANGED <<maps, sp, idx, limited, isCrash, ip, words, prin, cur, steps, region>>
Next == Walk \/ Limit \/ Skip
Spec == Init /\ [][Next]_vars /\ WF_vars(Next)

C06 == pc \in {"skip", "done"} => C06For(maps, sp, idx, limited, isCrash, region)
C20 == pc = "done" => C20For(prin, ip, words, region, included)
WalkIsFunction == pc \in {"limit"} => region = StackInfo(maps, sp)
Terminates == <>(pc = "done")
WalkBounded == steps <= GuardPages + 2
=============================================================================
