SPECIFICATION Spec
CONSTANTS
  R = 24
  W = 8
  MaxN = 20
  TailFix = TRUE
INVARIANTS C17 StepwiseIsFunction
CHECK_DEADLOCK FALSE
