----------------------------- MODULE MemReader -----------------------------
(***************************************************************************)
(* Model of src/linux/mem_reader.rs: the three strategies for reading the  *)
(* target's memory, over a target whose bytes [0, R) are readable and      *)
(* everything from R on is not (a region that ends at an unmapped page).   *)
(*   vmem   : process_vm_readv - returns the count up to the first         *)
(*            unreadable byte (partial reads are successes)                *)
(*   file   : pread on /proc/<pid>/mem with read_exact - all or error      *)
(*   ptrace : PTRACE_PEEKDATA one word at a time, then one more word for   *)
(*            the partial tail                                             *)
(* `TailFix` selects how the partial tail is read: FALSE = the word that   *)
(* STARTS at the tail (may cross into unreadable memory); TRUE = fall back *)
(* to the word that ENDS at the end of the range.                          *)
(***************************************************************************)
EXTENDS Naturals, Sequences, TLC
CONSTANTS R, W, MaxN, TailFix
VARIABLES s, n, style, k, got, res, pc
vars == <<s, n, style, k, got, res, pc>>
Min(a, b) == IF a < b THEN a ELSE b
Readable(a, len) == a + len <= R
(* the result of each strategy as a function of (s, n): [res, got] *)
VmemResult(s0, n0) == IF s0 >= R THEN [res |-> "err", got |-> 0] ELSE [res |-> "ok", got |-> Min(n0, R - s0)]
FileResult(s0, n0) == IF Readable(s0, n0) THEN [res |-> "ok", got |-> n0] ELSE [res |-> "err", got |-> 0]
PtraceResult(s0, n0) ==
  LET full == n0 \div W
      rem == n0 % W
      wordsOk == \A j \in 0..(full - 1) : Readable(s0 + j * W, W)
      tailOk == rem = 0 \/ Readable(s0 + full * W, W) \/ (TailFix /\ s0 + n0 >= W /\ Readable(s0 + n0 - W, W))
  IN IF wordsOk /\ tailOk THEN [res |-> "ok", got |-> n0] ELSE [res |-> "err", got |-> 0]
ResultOf(st, s0, n0) == CASE st = "vmem" -> VmemResult(s0, n0) [] st = "file" -> FileResult(s0, n0) [] OTHER -> PtraceResult(s0, n0)
(* C17 as a predicate on an observed outcome *)
C17For(s0, n0, r, g, prefixOk) ==
  IF Readable(s0, n0) THEN r = "ok" /\ g = n0 /\ prefixOk
  ELSE r = "err" \/ (r = "ok" /\ g < n0 /\ prefixOk)

Init == /\ s \in 0..(R-1) /\ n \in 1..MaxN /\ style \in {"vmem", "file", "ptrace"}
        /\ k = 0 /\ got = 0 /\ res = "none" /\ pc = "go"
Vmem == /\ pc = "go" /\ style = "vmem"
        /\ got' = Min(n, R - s) /\ res' = "ok" /\ pc' = "done" /\ UNCHANGED <<s, n, style, k>>
File == /\ pc = "go" /\ style = "file"
        /\ IF Readable(s, n) THEN got' = n /\ res' = "ok" ELSE got' = 0 /\ res' = "err"
        /\ pc' = "done" /\ UNCHANGED <<s, n, style, k>>
PtraceWord == /\ pc = "go" /\ style = "ptrace" /\ (k + 1) * W <= n     \* one PEEKDATA per full word
              /\ IF Readable(s + k * W, W) THEN k' = k + 1 /\ UNCHANGED <<res, pc, got>>
                                           ELSE res' = "err" /\ pc' = "done" /\ got' = 0 /\ UNCHANGED k
              /\ UNCHANGED <<s, n, style>>
PtraceTail == /\ pc = "go" /\ style = "ptrace" /\ (k + 1) * W > n
              /\ LET rem == n - k * W IN
                 IF rem = 0 THEN got' = n /\ res' = "ok"
                 ELSE IF Readable(s + k * W, W) \/ (TailFix /\ s + n >= W /\ Readable(s + n - W, W))
                        THEN got' = n /\ res' = "ok" ELSE got' = 0 /\ res' = "err"
              /\ pc' = "done" /\ UNCHANGED <<s, n, style, k>>
Next == Vmem \/ File \/ PtraceWord \/ PtraceTail
Spec == Init /\ [][Next]_vars
C17 == pc = "done" => C17For(s, n, res, got, TRUE)
StepwiseIsFunction == pc = "done" => [res |-> res, got |-> got] = ResultOf(style, s, n)
=============================================================================
