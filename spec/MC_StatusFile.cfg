SPECIFICATION Spec
CONSTANTS
  MaxLines = 4
INVARIANTS LoopIsParse KernelFilesAccepted
PROPERTY Terminates
CHECK_DEADLOCK FALSE
