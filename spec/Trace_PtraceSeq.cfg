SPECIFICATION TSpec
CONSTANTS
  T <- TraceT
  Sandbox <- TraceSandbox
  MaxSend <- TraceMaxSend
  NFaultSteps <- TraceSteps
  RtDecodable = TRUE
  Slow <- TraceSlow
  WaitGivesUp = FALSE
  MayExit = TRUE
CONSTRAINT Progress
POSTCONDITION Accepted
CHECK_DEADLOCK FALSE
