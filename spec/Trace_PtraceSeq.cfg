SPECIFICATION TSpec
CONSTANTS
  T <- TraceT
  Sandbox <- TraceSandbox
  MaxSend <- TraceMaxSend
  NFaultSteps <- TraceSteps
  RtDecodable = TRUE
  MayExit = TRUE
CONSTRAINT Progress
POSTCONDITION Accepted
CHECK_DEADLOCK FALSE
