SPECIFICATION Spec
CONSTANTS
  P = 4
  Cap = 2
  GuardPages = 2
  BaseThreads = 20
  ChunkSkip = TRUE
  HalfOpen = TRUE
  MaxAddr = 40
  Layouts <- MCLayouts
INVARIANTS C20
CHECK_DEADLOCK FALSE
