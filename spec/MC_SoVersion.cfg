SPECIFICATION Spec
CONSTANT MaxComps = 5
INVARIANTS ParseIsDecl RunIsSteps
PROPERTY Terminates
CHECK_DEADLOCK FALSE
