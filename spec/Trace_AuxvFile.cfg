SPECIFICATION TSpec
CONSTANTS
  MaxPairs = 3
INVARIANT Verdict
POSTCONDITION Accepted
CHECK_DEADLOCK FALSE
