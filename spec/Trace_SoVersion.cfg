SPECIFICATION TSpec
CONSTANT MaxComps = 5
INVARIANT Verdict
POSTCONDITION Accepted
CHECK_DEADLOCK FALSE
