-------------------------- MODULE Trace_ModuleList --------------------------
(* C08 on real dumps: the decoded module list against ModuleList!Modules applied to the target's
   mapping groups (from /proc/<pid>/maps) with the build id / SONAME an independent ELF reader
   finds, the entry point, and the caller-supplied mappings.                                    *)
EXTENDS ModuleList, Integers, Json, IOUtils
Rec == ndJsonDeserialize(IOEnv.TRACE)
VARIABLES l, viol, drift, nchk, nmods
tvars == <<vars, l, viol, drift, nchk, nmods>>
E == Rec[l]
NTag(seq, tag) == Cardinality({k \in 1..Len(seq) : seq[k][2] = tag})
Note(cond, seq, tag) == IF cond \/ NTag(seq, tag) >= 60 THEN seq ELSE Append(seq, <<l, tag>>)
TInit == /\ l = 1 /\ viol = <<>> /\ drift = <<>> /\ nchk = 0 /\ nmods = 0
         /\ maps = <<>> /\ entry = 0 /\ user = <<>> /\ out = <<>> /\ pc = "trace"
BpEL == 1114654028          \* the CV signature of an ELF build id record
NameWanted(m) == CASE NameKind(m) = "path" -> m.path [] NameKind(m) = "appended" -> m.appended [] OTHER -> m.replaced
Mods == /\ E.ev = "modules"
        /\ LET want == Modules(E.cands, E.entry, E.user)
               got == E.got
               same(k) == /\ got[k].start = want[k].start /\ got[k].size = want[k].size
                          /\ got[k].id = want[k].id /\ got[k].sig = BpEL
                          /\ got[k].name = (IF want[k].isUser THEN want[k].path ELSE NameWanted(want[k]))
               v1 == Note(E.sizeOk /\ Len(got) = Len(want), viol, "C08-wrong-set-of-modules")
               v2 == Note(Len(got) = Len(want) => \A k \in 1..Len(got) : got[k].start = want[k].start /\ got[k].size = want[k].size, v1, "C08-module-order-or-extent")
               v3 == Note(Len(got) = Len(want) => \A k \in 1..Len(got) : got[k].start = want[k].start => (got[k].id = want[k].id /\ got[k].sig = BpEL), v2, "C08-debug-id-differs")
               v4 == Note(Len(got) = Len(want) => \A k \in 1..Len(got) : got[k].start = want[k].start => got[k].name = (IF want[k].isUser THEN want[k].path ELSE NameWanted(want[k])), v3, "C08-module-name-differs")
               v5 == Note(\A a, b \in 1..Len(got) : a # b /\ ~got[a].isUser /\ ~got[b].isUser => (got[a].endRank <= got[b].start \/ got[b].endRank <= got[a].start), v4, "C08-modules-overlap")
           IN viol' = v5
        /\ drift' = drift /\ nchk' = nchk + 1 /\ nmods' = nmods + Len(E.got)
Failed == E.ev = "failed" /\ UNCHANGED <<viol, drift, nchk, nmods>>
TNext == l <= Len(Rec) /\ (Mods \/ Failed) /\ l' = l + 1 /\ UNCHANGED vars
TSpec == TInit /\ [][TNext]_tvars
Verdict == l = Len(Rec) + 1 =>
   PrintT(<<"VERDICT", ToJson([events |-> Len(Rec), checked |-> nchk, modules |-> nmods, viol |-> viol, drift |-> drift])>>)
Accepted == TLCGet("stats").diameter = Len(Rec) + 1
=============================================================================
