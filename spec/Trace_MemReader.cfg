SPECIFICATION TSpec
CONSTANTS
  R = 24
  W = 8
  MaxN = 20
  TailFix = TRUE
INVARIANT Verdict
POSTCONDITION Accepted
CHECK_DEADLOCK FALSE
