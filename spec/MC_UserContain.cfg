SPECIFICATION Spec
CONSTANTS
  MaxUsers = 2
  Top = 4
  Extent = "saturating"
INVARIANTS C08_SuppressedIffContained C02_NoPanic
PROPERTY Terminates
CHECK_DEADLOCK FALSE
