SPECIFICATION Spec
CONSTANTS
  MaxUsers = 2
  Addr = 4
INVARIANT C08_SuppressedIffContained
PROPERTY Terminates
CHECK_DEADLOCK FALSE
