---------------------------- MODULE MC_StackSel ----------------------------
EXTENDS StackSel
MCLayouts == { <<[s |-> 2*P, e |-> 4*P, rw |-> TRUE]>>,                                             \* plain stack
               <<[s |-> 2*P, e |-> 3*P, rw |-> FALSE], [s |-> 3*P, e |-> 5*P, rw |-> TRUE]>>,      \* guard page below the stack
               <<[s |-> 4*P, e |-> 5*P, rw |-> TRUE]>>,                                             \* hole below the stack
               <<[s |-> P, e |-> 2*P, rw |-> TRUE], [s |-> 2*P, e |-> 5*P, rw |-> TRUE]>> }        \* another mapping directly below
=============================================================================
