SPECIFICATION Spec
CONSTANTS
  MaxThreads = 2
INVARIANTS SoftNeverHard SoftErrorsExact
CHECK_DEADLOCK FALSE
