----------------------------- MODULE SoftErrors -----------------------------
(***************************************************************************)
(* Model of the best-effort steps of a dump and of the soft-error tree     *)
(* they feed (ptrace_dumper.rs:196-233 `init`, suspend_threads,            *)
(* minidump_writer.rs:160-178 and the `match ... Err(e) => soft_errors.push`*)
(* blocks of generate_dump, 298-421).  A fault plan says which best-effort *)
(* steps fail; the model walks the steps in the code's order, appending    *)
(* the path of every failure to `errs` and recording which directory       *)
(* entries are left zero.  Properties (C11): the dump result is ok for     *)
(* every plan, only the failed streams' entries are zero, and `errs` is    *)
(* exactly the failures of the plan.                                       *)
(***************************************************************************)
EXTENDS Naturals, Sequences, FiniteSets, TLC
(* a plan: [fp : subset of fail points, nameFail : Nat (threads whose name read fails), threads : Nat (threads enumerated),
            exited : Nat (threads gone before attach), refused : Nat (threads another tracer holds: attach gives EPERM),
            rsp0 : Nat (sandbox threads), prinNotRef : BOOLEAN,
            dsoFail : BOOLEAN, handlesFail : BOOLEAN] *)
FailPoints == {"StopProcess", "FillMissingAuxvInfo", "ThreadName", "SuspendThreads", "CpuInfoFileOpen"}
(* files the writer copies (and partly parses) whose reading can fail: plan.unreadable is the set that cannot be opened *)
Files == {"cpuinfo", "release", "cmdline", "environ", "auxv", "limits"}
CopyError == [cpuinfo |-> "WriteCpuInfoFailed/IOError", release |-> "WriteOsReleaseInfoFailed/IOError", cmdline |-> "WriteCommandLineFailed/IOError",
              environ |-> "WriteEnvironmentFailed/IOError", auxv |-> "WriteAuxvFailed/IOError", limits |-> "WriteLimitsFailed/IOError"]
Rep(n, x) == [k \in 1..n |-> x]
StepNames == <<"stop_process", "fill_auxv", "enumerate_threads", "suspend_threads", "no_threads_left", "principal",
               "sysinfo", "cpuinfo", "release", "cmdline", "environ", "auxv", "dso_debug", "limits", "handles">>     \* generate_dump's order
(* what each step appends to the soft-error tree, as paths, in order *)
Contribution(step, p) ==
  CASE step = "stop_process"      -> IF "StopProcess" \in p.fp THEN <<"InitErrors/StopProcessFailed/Stop">> ELSE <<>>
    [] step = "fill_auxv"         -> IF p.auxvComplete THEN <<>>                                      \* nothing is missing: the file is not opened
                                     ELSE (IF "auxv" \in p.unreadable THEN <<"InitErrors/FillMissingAuxvInfoErrors/IOError">> ELSE <<>>)       \* the read of the first pair fails
                                          \o (IF "FillMissingAuxvInfo" \in p.fp THEN <<"InitErrors/FillMissingAuxvInfoErrors/InvalidFormat">> ELSE <<>>)
    [] step = "enumerate_threads" -> Rep(IF "ThreadName" \in p.fp THEN p.threads ELSE p.nameFail, "InitErrors/EnumerateThreadsErrors/ReadThreadNameFailed")
    [] step = "suspend_threads"   -> Rep(p.exited + p.refused, "SuspendThreadsErrors/PtraceAttachError") \o Rep(p.rsp0, "SuspendThreadsErrors/DetachSkippedThread")
                                      \o (IF "SuspendThreads" \in p.fp THEN <<"SuspendThreadsErrors/PtraceAttachError">> ELSE <<>>)
    [] step = "no_threads_left"   -> IF p.threads = p.exited + p.refused + p.rsp0 THEN <<"SuspendNoThreadsLeft">> ELSE <<>>
    [] step = "principal"         -> IF p.prinNotRef THEN <<"PrincipalMappingNotReferenced">> ELSE <<>>
    [] step = "sysinfo"           -> IF "CpuInfoFileOpen" \in p.fp \/ "cpuinfo" \in p.unreadable THEN <<"WriteSystemInfoErrors/WriteCpuInformationFailed/IOError">> ELSE <<>>
    [] step \in Files             -> IF step \in p.unreadable THEN <<CopyError[step]>> ELSE <<>>
    [] step = "dso_debug"         -> IF p.dsoFail THEN <<"WriteDSODebugStreamFailed">> ELSE <<>>
    [] step = "handles"           -> IF p.handlesFail THEN <<"WriteHandleDataStreamFailed">> ELSE <<>>
    [] OTHER -> <<>>
ZeroEntry(step, p) == (step = "dso_debug" /\ p.dsoFail) \/ (step = "handles" /\ p.handlesFail) \/ (step \in Files /\ step \in p.unreadable)
RECURSIVE ErrSeqFrom(_, _)
ErrSeqFrom(k, p) == IF k > Len(StepNames) THEN <<>> ELSE Contribution(StepNames[k], p) \o ErrSeqFrom(k + 1, p)
ErrSeq(p) == ErrSeqFrom(1, p)
(* bags as functions path |-> count *)
BagOf(s) == [x \in {s[k] : k \in 1..Len(s)} |-> Cardinality({k \in 1..Len(s) : s[k] = x})]

CONSTANTS MaxThreads
VARIABLES plan, step, errs, zero, result
vars == <<plan, step, errs, zero, result>>
Init == /\ plan \in [fp : SUBSET FailPoints, nameFail : 0..1, threads : 1..MaxThreads, exited : 0..1, refused : 0..1, rsp0 : 0..1, prinNotRef : BOOLEAN,
                     dsoFail : BOOLEAN, handlesFail : BOOLEAN, auxvComplete : BOOLEAN, unreadable : SUBSET Files]
        /\ plan.exited + plan.refused + plan.rsp0 <= plan.threads /\ plan.nameFail <= plan.threads
        /\ ("auxv" \in plan.unreadable /\ ~plan.auxvComplete => plan.dsoFail)       \* without program-header values there is no linker data
        /\ step = 1 /\ errs = <<>> /\ zero = {} /\ result = "running"
Advance == /\ result = "running" /\ step <= Len(StepNames)
           /\ errs' = errs \o Contribution(StepNames[step], plan)      \* a failing best-effort step pushes and goes on
           /\ zero' = IF ZeroEntry(StepNames[step], plan) THEN zero \cup {StepNames[step]} ELSE zero
           /\ step' = step + 1 /\ UNCHANGED <<plan, result>>
Finish == /\ result = "running" /\ step > Len(StepNames) /\ result' = "ok" /\ UNCHANGED <<plan, step, errs, zero>>
Next == Advance \/ Finish
Spec == Init /\ [][Next]_vars
SoftNeverHard == result \in {"running", "ok"}
SoftErrorsExact == result = "ok" => /\ errs = ErrSeq(plan)
                                    /\ (errs = <<>>) <=> (ErrSeq(plan) = <<>>)
                                    /\ zero = {s \in {StepNames[k] : k \in 1..Len(StepNames)} : ZeroEntry(s, plan)}
=============================================================================
