------------------------------ MODULE CpuInfo ------------------------------
(***************************************************************************)
(* Model of write_cpu_information (dumper_cpu_info/x86_mips.rs): the scan   *)
(* of /proc/cpuinfo that fills family / model / stepping / vendor and the  *)
(* processor count of the system-information stream (property C18), and    *)
(* whose failure is a soft error (property C11).  The file is a sequence   *)
(* of lines; the loop over the lines and, inside it, the loop over the     *)
(* four-entry table are transcribed step by step, including the two        *)
(* quirks of the code: only the first table entry ("processor") keeps      *)
(* being updated, and the vendor test sits inside the table loop.          *)
(*                                                                         *)
(* Parse(lines) is the declarative reading of the same file (first         *)
(* parsable family / model / stepping, last parsable processor, last       *)
(* non-empty vendor); the invariant says the loop computes exactly that.   *)
(***************************************************************************)
EXTENDS Integers, Sequences, FiniteSets, Bitwise, TLC
CONSTANTS MaxFree,      \* length of the freely chosen part of the file
          MaxAround     \* lines freely chosen before and after a complete block of four good lines

Names == <<"processor", "model", "stepping", "cpu family">>      \* the table, in the code's order
Fields == {"processor", "model", "stepping", "cpu family", "vendor_id", "model name"}
(* values as they stand after trimming; IntOf = what str::parse::<i32> yields, absent = parse error *)
Values == {"0", "7", "300", "", "x"}
IntOf == [v \in {"0", "7", "300"} |-> CASE v = "0" -> 0 [] v = "7" -> 7 [] v = "300" -> 300]
Parsable(v) == v \in DOMAIN IntOf
Line == [kind : {"blank"}] \cup [kind : {"nocolon"}, field : {"processor", "vendor_id"}] \cup [kind : {"kv"}, field : Fields, value : Values]
Good == << [kind |-> "kv", field |-> "processor", value |-> "0"], [kind |-> "kv", field |-> "vendor_id", value |-> "x"],
           [kind |-> "kv", field |-> "cpu family", value |-> "7"], [kind |-> "kv", field |-> "model", value |-> "300"],
           [kind |-> "kv", field |-> "stepping", value |-> "7"] >>
SeqsUpTo(S, n) == UNION {[1..k -> S] : k \in 0..n}

(* ---------------- declarative reading ---------------- *)
IsKV(ln, f) == ln.kind = "kv" /\ ln.field = f
Hits(lines, f) == {k \in 1..Len(lines) : IsKV(lines[k], f) /\ Parsable(lines[k].value)}
Min(S) == CHOOSE x \in S : \A y \in S : x <= y
Max(S) == CHOOSE x \in S : \A y \in S : x >= y
FirstVal(lines, f) == IntOf[lines[Min(Hits(lines, f))].value]
LastVal(lines, f)  == IntOf[lines[Max(Hits(lines, f))].value]
VendorHits(lines) == {k \in 1..Len(lines) : IsKV(lines[k], "vendor_id") /\ lines[k].value # ""}
Parse(lines) ==
  IF \E f \in {"processor", "model", "stepping", "cpu family"} : Hits(lines, f) = {}
    THEN [ok |-> FALSE]
    ELSE [ok |-> TRUE,
          nproc |-> (LastVal(lines, "processor") + 1) % 256,                                   \* as u8
          level |-> FirstVal(lines, "cpu family") % 65536,                                      \* as u16
          revision |-> ((FirstVal(lines, "model") * 256) | FirstVal(lines, "stepping")) % 65536,  \* ((model << 8) | stepping) as u16
          vendor |-> IF VendorHits(lines) = {} THEN "" ELSE lines[Max(VendorHits(lines))].value]

(* ---------------- the loop ---------------- *)
VARIABLES lines, i, e, first, tbl, vendor, pc, res
vars == <<lines, i, e, first, tbl, vendor, pc, res>>
Tbl0 == [k \in 1..4 |-> [value |-> (IF k = 1 THEN -1 ELSE 0), found |-> FALSE]]
Init == /\ lines \in {a \o b : a \in SeqsUpTo(Line, MaxFree), b \in {<<>>}}
                 \cup {a \o Good \o b : a \in SeqsUpTo(Line, MaxAround), b \in SeqsUpTo(Line, MaxAround)}
        /\ i = 1 /\ e = 1 /\ first = TRUE /\ tbl = Tbl0 /\ vendor = "" /\ pc = "line" /\ res = [ok |-> FALSE]
(* for line in lines: skip blank lines and lines without a colon, otherwise run the table loop *)
NextLine == /\ pc = "line"
            /\ IF i > Len(lines) THEN pc' = "finish" /\ UNCHANGED <<i, e, first>>
               ELSE IF lines[i].kind # "kv" THEN i' = i + 1 /\ UNCHANGED <<pc, e, first>>
               ELSE pc' = "entry" /\ e' = 1 /\ first' = TRUE /\ UNCHANGED i
            /\ UNCHANGED <<lines, tbl, vendor, res>>
(* one iteration of `for entry in cpu_info_table.iter_mut()` *)
Entry == /\ pc = "entry"
         /\ LET ln == lines[i] IN
            IF e > 4 THEN pc' = "line" /\ i' = i + 1 /\ UNCHANGED <<e, first, tbl, vendor>>
            ELSE IF ~first /\ tbl[e].found
              THEN e' = e + 1 /\ UNCHANGED <<pc, i, first, tbl, vendor>>                           \* `continue`: repeated values are ignored
            ELSE IF ln.field = Names[e] /\ ~Parsable(ln.value)
              THEN e' = e + 1 /\ first' = FALSE /\ UNCHANGED <<pc, i, tbl, vendor>>                \* parse error: `continue`
            ELSE /\ tbl' = IF ln.field = Names[e] THEN [tbl EXCEPT ![e] = [value |-> IntOf[ln.value], found |-> TRUE]] ELSE tbl
                 /\ vendor' = IF ln.field = "vendor_id" /\ ln.value # "" THEN ln.value ELSE vendor
                 /\ e' = e + 1 /\ first' = FALSE /\ UNCHANGED <<pc, i>>
         /\ UNCHANGED <<lines, res>>
Finish == /\ pc = "finish"
          /\ res' = IF \E k \in 1..4 : ~tbl[k].found THEN [ok |-> FALSE]
                    ELSE [ok |-> TRUE, nproc |-> (tbl[1].value + 1) % 256, level |-> tbl[4].value % 65536,
                          revision |-> ((tbl[2].value * 256) | tbl[3].value) % 65536, vendor |-> vendor]
          /\ pc' = "done" /\ UNCHANGED <<lines, i, e, first, tbl, vendor>>
Next == NextLine \/ Entry \/ Finish
Spec == Init /\ [][Next]_vars /\ WF_vars(Next)

(* C18 (system information from cpuinfo) / C11: the loop computes the declarative reading, and fails exactly when a field is missing *)
LoopIsParse == pc = "done" => res = Parse(lines)
OnlyProcessorIsUpdated == \A k \in 2..4 : tbl[k].found => tbl[k].value = FirstVal(SubSeq(lines, 1, IF pc = "entry" THEN i ELSE i - 1), Names[k])
Terminates == <>(pc = "done")
=============================================================================
