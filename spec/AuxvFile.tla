------------------------------ MODULE AuxvFile ------------------------------
(***************************************************************************)
(* Model of how the writer completes the auxiliary-vector information from *)
(* /proc/<pid>/auxv (auxv/reader.rs ProcfsAuxvIter + auxv/mod.rs           *)
(* try_filling_missing_info): the file is a sequence of (key, value) pairs *)
(* that ends with an AT_NULL pair, or just ends (EOF between pairs), or    *)
(* ends inside a pair.  The iterator's `keep_going` flag and the loop of   *)
(* the caller are transcribed.  Property C18: a value supplied by the      *)
(* caller wins; otherwise the FIRST pair with that key before the first    *)
(* AT_NULL is used; property C11: a file that ends before AT_NULL is a     *)
(* soft error (InvalidFormat) and everything read before it still counts.  *)
(***************************************************************************)
EXTENDS Naturals, Sequences, FiniteSets, TLC
CONSTANTS MaxPairs
Keys == {"phnum", "phdr", "gate", "entry"}
FileKeys == Keys \cup {"null", "other"}
Vals == {"a", "b"}                        \* two distinguishable values per key ("a" = the first one the harness writes, "b" = a later, different one)
Pair == [key : FileKeys, val : Vals]
Ending == {"none", "partial"}             \* after the pairs: nothing (clean EOF), or a truncated pair
File == [pairs : UNION {[1..n -> Pair] : n \in 0..MaxPairs}, ending : Ending]
Direct == [Keys -> {"unset", "d"}]        \* what the caller supplied

(* ---------------- declarative reading ---------------- *)
NullAt(f) == {k \in 1..Len(f.pairs) : f.pairs[k].key = "null"}
Upto(f) == IF NullAt(f) = {} THEN Len(f.pairs) ELSE (CHOOSE k \in NullAt(f) : \A j \in NullAt(f) : k <= j) - 1
FirstOf(f, key) == LET S == {k \in 1..Upto(f) : f.pairs[k].key = key} IN
                   IF S = {} THEN "unset" ELSE f.pairs[CHOOSE k \in S : \A j \in S : k <= j].val
Complete(d) == \A k \in Keys : d[k] # "unset"
Resolved(d, f) == [k \in Keys |-> IF d[k] # "unset" THEN "d" ELSE IF Complete(d) THEN "unset" ELSE FirstOf(f, k)]
(* the file is read only when something is missing; it is ill-formed when no AT_NULL precedes its end *)
InvalidFormat(d, f) == ~Complete(d) /\ NullAt(f) = {}

(* ---------------- the loops ---------------- *)
VARIABLES direct, file, pos, keepGoing, info, softErr, pc
vars == <<direct, file, pos, keepGoing, info, softErr, pc>>
Init == /\ direct \in Direct /\ file \in File
        /\ pos = 1 /\ keepGoing = TRUE /\ info = direct /\ softErr = FALSE /\ pc = "start"
Start == /\ pc = "start"
         /\ pc' = IF Complete(direct) THEN "done" ELSE "next"          \* is_complete(): the file is not even opened
         /\ UNCHANGED <<direct, file, pos, keepGoing, info, softErr>>
(* ProcfsAuxvIter::next followed by the body of the caller's for loop *)
IterNext == /\ pc = "next"
            /\ IF ~keepGoing THEN pc' = "done" /\ UNCHANGED <<pos, keepGoing, info, softErr>>
               ELSE IF pos > Len(file.pairs)
                 THEN \* no complete pair left: EOF (n == 0) with nothing or part of a pair read - InvalidFormat, and the iterator is finished
                      /\ keepGoing' = FALSE /\ softErr' = TRUE /\ pc' = "next" /\ UNCHANGED <<pos, info>>
               ELSE IF file.pairs[pos].key = "null"
                 THEN keepGoing' = FALSE /\ pc' = "next" /\ UNCHANGED <<pos, info, softErr>>        \* returns None (keep_going stays false)
               ELSE /\ pos' = pos + 1 /\ pc' = "next" /\ UNCHANGED <<keepGoing, softErr>>
                    /\ LET p == file.pairs[pos] IN
                       info' = IF p.key \in Keys /\ info[p.key] = "unset" THEN [info EXCEPT ![p.key] = p.val] ELSE info
            /\ UNCHANGED <<direct, file>>
Next == Start \/ IterNext
Spec == Init /\ [][Next]_vars /\ WF_vars(Next)

C18_DirectFirstThenFirstPair == pc = "done" => info = Resolved(direct, file)
C11_TruncationIsSoft == pc = "done" => softErr = InvalidFormat(direct, file)
Terminates == <>(pc = "done")
=============================================================================
