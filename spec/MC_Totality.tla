----------------------------- MODULE MC_Totality -----------------------------
EXTENDS Totality, Json
Emit == pc = "done" \/ (pc = "attachwait" /\ inp.thr = "vfork") => PrintT(<<"REPLAY", ToJson(inp)>>)
(* the inputs are checked in two parts, so that what is known about targets with a thread in vfork() (finding D22: the wait for
   its stop has no bound) stays apart from everything else *)
SpecMain  == Init /\ inp.thr = "stoppable" /\ [][Next]_vars /\ WF_vars(Next)
SpecVfork == Init /\ inp.thr = "vfork" /\ [][Next]_vars /\ WF_vars(Next)
=============================================================================
