SPECIFICATION TSpec
CONSTANTS
  MaxNodes = 0
  MaxLines = 0
INVARIANT Verdict
POSTCONDITION Accepted
CHECK_DEADLOCK FALSE
