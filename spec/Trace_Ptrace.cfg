SPECIFICATION Spec
CONSTANTS
  RtDecodable = TRUE
INVARIANT Verdict
POSTCONDITION Accepted
CHECK_DEADLOCK FALSE
