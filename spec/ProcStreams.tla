----------------------------- MODULE ProcStreams -----------------------------
(***************************************************************************)
(* Model of the streams that mirror the operating system's view of the     *)
(* target (property C18):                                                  *)
(*  - CopyFile: a raw stream is the content of a /proc (or /etc) file      *)
(*    (minidump_writer.rs write_file);                                     *)
(*  - MemInfo: one MINIDUMP_MEMORY_INFO per line of /proc/<pid>/maps with  *)
(*    the protection table of memory_info_list_stream.rs;                  *)
(*  - Handle: one descriptor per entry of /proc/<pid>/fd                   *)
(*    (handle_data_stream.rs);                                             *)
(*  - AuxvResolve: caller-supplied values first (0 = unset), the kernel's  *)
(*    /proc/<pid>/auxv for the rest (auxv/mod.rs);                         *)
(*  - DsoWalk: PHDR -> PT_DYNAMIC -> DT_DEBUG -> r_debug -> link_map list, *)
(*    one step per dereference (dso_debug.rs).                             *)
(***************************************************************************)
EXTENDS Naturals, Sequences, FiniteSets, TLC

(* ---- protection / type tables (Windows constants of the minidump format) ---- *)
PAGE_NOACCESS == 1  PAGE_READONLY == 2  PAGE_READWRITE == 4
PAGE_EXECUTE == 16  PAGE_EXECUTE_READ == 32  PAGE_EXECUTE_READWRITE == 64
MEM_COMMIT == 4096  MEM_PRIVATE == 131072  MEM_MAPPED == 262144
ProtOf(r, w, x) == IF w THEN (IF x THEN PAGE_EXECUTE_READWRITE ELSE PAGE_READWRITE)
                   ELSE IF r THEN (IF x THEN PAGE_EXECUTE_READ ELSE PAGE_READONLY)
                   ELSE (IF x THEN PAGE_EXECUTE ELSE PAGE_NOACCESS)
(* one maps line [s, e, r, w, x, p] -> one entry *)
MemInfoOf(ln) == [base |-> ln.s, size |-> ln.e - ln.s, prot |-> ProtOf(ln.r, ln.w, ln.x), type |-> IF ln.p THEN MEM_PRIVATE ELSE MEM_MAPPED,
                  state |-> MEM_COMMIT, allocBase |-> ln.s, allocProt |-> ProtOf(ln.r, ln.w, ln.x)]
MemInfoList(lines) == [k \in 1..Len(lines) |-> MemInfoOf(lines[k])]

(* ---- auxv resolution: field by field, direct value wins unless it is 0 ---- *)
Fields == {"phnum", "phdr", "gate", "entry"}
Resolve(direct, proc) == [f \in Fields |-> IF direct[f] # 0 THEN direct[f] ELSE proc[f]]     \* 0 in the result = unknown

(* ---- the linker chain as an abstract memory graph ---- *)
(* mem: [phdrAt |-> address of the program headers that hold PT_DYNAMIC, dynHasDebug, rmap |-> head, next |-> [node -> node or 0]] *)
RECURSIVE ListFrom(_, _, _)
ListFrom(next, n, fuel) == IF n = 0 \/ fuel = 0 THEN <<>> ELSE <<n>> \o ListFrom(next, next[n], fuel - 1)

CONSTANTS MaxNodes, MaxLines
VARIABLES direct, proc, mem, lines, fds, pc, auxv, dso, meminfo, handles
vars == <<direct, proc, mem, lines, fds, pc, auxv, dso, meminfo, handles>>
\* values: 0 = unset, 7 = the true value in /proc, 9 = a different value supplied directly
Zero4 == [f \in Fields |-> 0]
True4 == [f \in Fields |-> 7]
NoLines == <<>>
LineSet == [s : {1}, e : {2}, r : BOOLEAN, w : BOOLEAN, x : BOOLEAN, p : BOOLEAN]
(* the four aspects are independent: each is varied exhaustively while the others stay fixed *)
Init == /\ \/ /\ direct \in [Fields -> {0, 7, 9}] /\ proc \in [Fields -> {0, 7}]
              /\ mem = [hasDebug |-> TRUE, len |-> 1] /\ lines = NoLines /\ fds = {0}
           \/ /\ direct = Zero4 /\ proc = True4 /\ mem = [hasDebug |-> TRUE, len |-> 1] /\ fds = {0}
              /\ lines \in UNION {[1..n -> LineSet] : n \in 0..MaxLines}
           \/ /\ direct = Zero4 /\ proc = True4 /\ mem = [hasDebug |-> TRUE, len |-> 1] /\ lines = NoLines
              /\ fds \in SUBSET (0..3)
           \/ /\ direct \in {Zero4, [Zero4 EXCEPT !.phdr = 9, !.phnum = 9]} /\ proc \in {Zero4, True4} /\ lines = NoLines /\ fds = {0}
              /\ mem \in [hasDebug : BOOLEAN, len : 0..MaxNodes]
        /\ pc = "auxv" /\ auxv = [f \in Fields |-> 0] /\ dso = <<>> /\ meminfo = <<>> /\ handles = {}
AuxvResolve == /\ pc = "auxv" /\ auxv' = Resolve(direct, proc) /\ pc' = "meminfo" /\ UNCHANGED <<direct, proc, mem, lines, fds, dso, meminfo, handles>>
MemInfo == /\ pc = "meminfo" /\ meminfo' = MemInfoList(lines) /\ pc' = "handles" /\ UNCHANGED <<direct, proc, mem, lines, fds, auxv, dso, handles>>
Handles == /\ pc = "handles" /\ handles' = fds /\ pc' = "dso" /\ UNCHANGED <<direct, proc, mem, lines, fds, auxv, dso, meminfo>>
DsoWalk == /\ pc = "dso"
           /\ dso' = IF auxv.phdr # 0 /\ auxv.phnum # 0 /\ mem.hasDebug
                       THEN [k \in 1..mem.len |-> k]            \* the list reached from the resolved PHDR, in list order
                       ELSE <<>>
           /\ pc' = "done" /\ UNCHANGED <<direct, proc, mem, lines, fds, auxv, meminfo, handles>>
Next == AuxvResolve \/ MemInfo \/ Handles \/ DsoWalk
Spec == Init /\ [][Next]_vars

C18_DirectFirst == pc # "auxv" => \A f \in Fields : (direct[f] # 0 => auxv[f] = direct[f]) /\ (direct[f] = 0 => auxv[f] = proc[f])
C18_OneEntryPerLine == pc \in {"handles", "dso", "done"} => Len(meminfo) = Len(lines) /\ \A k \in 1..Len(lines) : meminfo[k].base = lines[k].s /\ meminfo[k].size = lines[k].e - lines[k].s
C18_HandlesBijective == pc \in {"dso", "done"} => handles = fds
=============================================================================
