-------------------------- MODULE Trace_StatusFile --------------------------
(* C04 on the real writer under generated /proc/<tid>/status contents (private mount namespace): whenever StatusFile says the
   file yields the two ids, the dump succeeds and lists the thread with a register context; conformance: otherwise it fails. *)
EXTENDS StatusFile, Json, IOUtils
Rec == ndJsonDeserialize(IOEnv.TRACE)
VARIABLES l, viol, drift, nchk, cnt
tvars == <<vars, l, viol, drift, nchk, cnt>>
E == Rec[l]
NTag(seq, tag) == Cardinality({k \in 1..Len(seq) : seq[k][2] = tag})
Note(cond, seq, tag) == IF cond \/ NTag(seq, tag) >= 60 THEN seq ELSE Append(seq, <<l, tag>>)
TInit == /\ l = 1 /\ viol = <<>> /\ drift = <<>> /\ nchk = 0 /\ cnt = [accepted |-> 0, rejected |-> 0]
         /\ file = <<>> /\ i = 1 /\ ppid = -1 /\ tgid = -1 /\ pc = "trace" /\ res = [ok |-> FALSE]
Case == /\ E.ev = "status"
        /\ LET want == Parse(E.lines) IN
           /\ viol' = Note(want.ok => E.outcome = "ok" /\ E.listedWithContext, viol, "C04-thread-not-listed-for-a-status-file-the-kernel-can-write")
           /\ drift' = Note(~want.ok => E.outcome = "err", drift, "status-file-rejection")
           /\ cnt' = IF want.ok THEN [cnt EXCEPT !.accepted = @ + 1] ELSE [cnt EXCEPT !.rejected = @ + 1]
        /\ nchk' = nchk + 1
TNext == l <= Len(Rec) /\ Case /\ l' = l + 1 /\ UNCHANGED vars
TSpec == TInit /\ [][TNext]_tvars
Verdict == l = Len(Rec) + 1 =>
   PrintT(<<"VERDICT", ToJson([events |-> Len(Rec), checked |-> nchk, counts |-> cnt, viol |-> viol, drift |-> drift])>>)
Accepted == TLCGet("stats").diameter = Len(Rec) + 1
=============================================================================
