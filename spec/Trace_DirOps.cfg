SPECIFICATION TSpec
CONSTANTS
  NSlots = 1000000
  MaxOps = 0
  Sizes = {}
  Starts = {}
  HdrLen = 32
  EntLen = 12
  FlushFirst = TRUE
INVARIANT Verdict
POSTCONDITION Accepted
CHECK_DEADLOCK FALSE
