SPECIFICATION TSpec
CONSTANTS
  NSlots = 1000000
  MaxOps = 0
  Sizes = {}
  Starts = {}
  HdrLen = 32
  EntLen = 12
  FlushFirst = FALSE
INVARIANT Verdict
POSTCONDITION Accepted
CHECK_DEADLOCK FALSE
