-------------------------- MODULE Trace_SoftErrors --------------------------
(* C11 on real dumps with injected and natural best-effort failures: the dump must succeed with
   every other stream present, and the decoded soft-error stream (well-formed JSON, flattened to
   paths by the harness) must list exactly the failures of the scenario's fault plan - as a bag
   (property) and in the order the SoftErrors model produces them (conformance).              *)
EXTENDS SoftErrors, Json, IOUtils
Rec == ndJsonDeserialize(IOEnv.TRACE)
VARIABLES l, viol, drift, nchk, nfail
tvars == <<vars, l, viol, drift, nchk, nfail>>
E == Rec[l]
Has(r, f) == f \in DOMAIN r
NTag(seq, tag) == Cardinality({k \in 1..Len(seq) : seq[k][2] = tag})
Note(cond, seq, tag) == IF cond \/ NTag(seq, tag) >= 60 THEN seq ELSE Append(seq, <<l, tag>>)
TInit == /\ l = 1 /\ viol = <<>> /\ drift = <<>> /\ nchk = 0 /\ nfail = 0
         /\ plan = <<>> /\ step = 1 /\ errs = <<>> /\ zero = {} /\ result = "trace"
PlanOf(e) == [fp |-> {e.fp[k] : k \in 1..Len(e.fp)}, nameFail |-> e.nameFail, threads |-> e.threads, exited |-> e.exited, refused |-> e.refused, rsp0 |-> e.rsp0,
              prinNotRef |-> e.prinNotRef, dsoFail |-> e.dsoFail, handlesFail |-> FALSE, auxvComplete |-> e.auxvComplete,
              unreadable |-> IF "unreadable" \in DOMAIN e THEN {e.unreadable[k] : k \in 1..Len(e.unreadable)} ELSE {}]
AllTypes == {3, 4, 5, 6, 7, 16, 1197932547, 1197932548, 1197932549, 1197932550, 1197932551, 1197932552, 1197932553, 1197932554,
             1299841027, 24, 12, 1299841028}
DsoType == 1197932554
TypeOf == [cpuinfo |-> 1197932547, release |-> 1197932549, cmdline |-> 1197932550, environ |-> 1197932551, auxv |-> 1197932552, limits |-> 1299841027]
Dump == /\ E.ev = "c11"
        /\ LET p == PlanOf(E)
               want == ErrSeq(p)
               present == {E.present[k] : k \in 1..Len(E.present)}
               v1 == Note(E.outcome = "ok", viol, "C11-best-effort-failure-made-the-dump-fail")
               v2 == Note(E.outcome = "ok" => E.wellFormed, v1, "C11-soft-error-stream-missing-or-malformed")
               v3 == Note(E.outcome = "ok" /\ E.wellFormed => BagOf(E.paths) = BagOf(want), v2, "C11-reported-failures-differ")
               v4 == Note(E.outcome = "ok" => present = (AllTypes \ ((IF p.dsoFail THEN {DsoType} ELSE {}) \cup {TypeOf[f] : f \in p.unreadable})), v3, "C11-other-stream-missing")
           IN /\ viol' = v4
              /\ drift' = Note(E.outcome = "ok" /\ E.wellFormed => E.paths = want, drift, "order-of-soft-errors")
              /\ nfail' = nfail + (IF want # <<>> THEN 1 ELSE 0)
        /\ nchk' = nchk + 1
TNext == l <= Len(Rec) /\ Dump /\ l' = l + 1 /\ UNCHANGED vars
TSpec == TInit /\ [][TNext]_tvars
Verdict == l = Len(Rec) + 1 =>
   PrintT(<<"VERDICT", ToJson([events |-> Len(Rec), checked |-> nchk, withFailures |-> nfail, viol |-> viol, drift |-> drift])>>)
Accepted == TLCGet("stats").diameter = Len(Rec) + 1
=============================================================================
