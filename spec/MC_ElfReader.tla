---------------------------- MODULE MC_ElfReader ----------------------------
EXTENDS ElfReader, Json
Emit == pc = "done" => PrintT(<<"REPLAY", ToJson(elf)>>)
=============================================================================
