------------------------------- MODULE DirOps -------------------------------
(***************************************************************************)
(* API-level model of `Buffer` + `DirSection` (src/dir_section.rs): the    *)
(* state after each public call, for every history of                      *)
(*   Grow(n)          a writer appends n bytes to the image                *)
(*   Flush(None)      write_to_file(buffer, None)                          *)
(*   Flush(Some(e))   write_to_file(buffer, Some(dirent))                  *)
(* It refines DirSection (each Flush is the corresponding run of           *)
(* destination calls there) and is the module whose histories are replayed *)
(* on the real code and against which recorded calls are validated (C09).  *)
(***************************************************************************)
EXTENDS Naturals, Sequences, TLC
CONSTANTS NSlots, MaxOps, Sizes, Starts, HdrLen, EntLen,
          FlushFirst    \* TRUE: tail first, then the entry; FALSE: entry first (order inside write_to_file)
VARIABLES imgLen, flushed, idx, start, fileHi, fpos, lastGrow, nops
vars == <<imgLen, flushed, idx, start, fileHi, fpos, lastGrow, nops>>

Max(a, b) == IF a > b THEN a ELSE b
SlotPos(i) == HdrLen + i * EntLen                  \* rva of directory slot i

Init == /\ start \in Starts /\ imgLen = HdrLen + NSlots * EntLen /\ flushed = 0 /\ idx = 0
        /\ fileHi = start /\ fpos = start /\ lastGrow = [off |-> 0, len |-> 0] /\ nops = 0

Grow(n) == /\ imgLen' = imgLen + n /\ lastGrow' = [off |-> imgLen, len |-> n] /\ nops' = nops + 1
           /\ UNCHANGED <<flushed, idx, start, fileHi, fpos>>

(* the destination calls one write_to_file makes, as <<kind, position, length>> *)
TailCall(fl) == IF imgLen > fl THEN <<<<"write", fpos, imgLen - fl>>>> ELSE <<>>    \* write_all of an empty slice makes no call
EntryCalls(at) == << <<"pos", at, 0>>, <<"seek", start + SlotPos(idx), 0>>,
                     <<"write", start + SlotPos(idx), EntLen>>, <<"seek", at, 0>> >>
CallsOf(entry) ==
  IF ~entry THEN TailCall(flushed)
  ELSE IF FlushFirst THEN TailCall(flushed) \o EntryCalls(fpos + (imgLen - flushed))
       ELSE EntryCalls(fpos) \o TailCall(flushed)

FlushNone == /\ flushed' = imgLen /\ fpos' = fpos + (imgLen - flushed) /\ fileHi' = Max(fileHi, fpos')
             /\ nops' = nops + 1 /\ UNCHANGED <<imgLen, idx, start, lastGrow>>
FlushEntry == /\ idx < NSlots
              /\ flushed' = imgLen /\ fpos' = fpos + (imgLen - flushed) /\ idx' = idx + 1
              /\ fileHi' = Max(Max(fileHi, fpos'), start + SlotPos(idx) + EntLen)
              /\ nops' = nops + 1 /\ UNCHANGED <<imgLen, start, lastGrow>>
Next == \/ \E n \in Sizes : Grow(n)
        \/ FlushNone \/ FlushEntry
Spec == Init /\ [][Next]_vars

(* C09 at API level: after every flush the destination holds the whole image and nothing else *)
C09 == /\ flushed <= imgLen /\ fpos = start + flushed
       /\ fileHi <= start + imgLen
       /\ (flushed > 0 => fileHi = start + flushed)
=============================================================================
