SPECIFICATION HSpec
CONSTANTS
  R = 6
  MaxN = 3
  MaxReads = 3
  Pread = TRUE
INVARIANT HistoryIndependent
CHECK_DEADLOCK FALSE
