------------------------- MODULE Trace_ThreadNames -------------------------
(* C15 on real dumps: the decoded thread-name stream against the names the kernel reports
   (/proc/<pid>/task/<tid>/comm read by the harness), for the threads listed in the dump.
   Conformance: the array order is the one ThreadNames' placement function yields.          *)
EXTENDS ThreadNames, Json, IOUtils
Rec == ndJsonDeserialize(IOEnv.TRACE)
VARIABLES l, viol, drift, nchk, nmixed
tvars == <<vars, l, viol, drift, nchk, nmixed>>
E == Rec[l]
Has(r, f) == f \in DOMAIN r
NTag(seq, tag) == Cardinality({k \in 1..Len(seq) : seq[k][2] = tag})
Note(cond, seq, tag) == IF cond \/ NTag(seq, tag) >= 60 THEN seq ELSE Append(seq, <<l, tag>>)
TInit == /\ l = 1 /\ viol = <<>> /\ drift = <<>> /\ nchk = 0 /\ nmixed = 0
         /\ enum = <<>> /\ threads = <<>> /\ img = <<>> /\ i = 1 /\ arrOff = 0 /\ nNamed = 0 /\ pc = "trace" /\ oob = FALSE
(* E.listed : Seq of [tid, readable, name]  (threads of the dump's thread list, in order; name = comm
              without the final newline, hex); E.names : Seq of [tid, name, ok] (decoded entries, array order) *)
Exp(e) == {<<e.listed[k].tid, e.listed[k].name>> : k \in {j \in 1..Len(e.listed) : e.listed[j].readable}}
Obs(e) == {<<e.names[k].tid, e.names[k].name>> : k \in 1..Len(e.names)}
ExpTids(e) == {e.listed[k].tid : k \in {j \in 1..Len(e.listed) : e.listed[j].readable}}
ObsTids(e) == {e.names[k].tid : k \in 1..Len(e.names)}
Names == /\ E.ev = "names"
         /\ LET wellFormed == \A k \in 1..Len(E.names) : E.names[k].ok
                once == \A a, b \in 1..Len(E.names) : E.names[a].tid = E.names[b].tid => a = b
                ths == [k \in 1..Len(E.listed) |-> [named |-> E.listed[k].readable, len |-> 0]]
                v1 == Note(E.streamOk /\ wellFormed, viol, "C15-entry-does-not-designate-a-string")
                v2 == Note(once /\ ObsTids(E) = ExpTids(E) /\ E.count = Cardinality(ExpTids(E)), v1, "C15-wrong-set-of-threads")
                v3 == Note(ObsTids(E) = ExpTids(E) /\ wellFormed => Obs(E) = Exp(E), v2, "C15-name-text-differs")
            IN /\ viol' = v3
               /\ drift' = Note(wellFormed /\ ObsTids(E) = ExpTids(E) /\ Len(E.names) = Cardinality(NamedSet(ths)) =>
                                   \A k \in NamedSet(ths) : E.names[SlotOf(ths, k) + 1].tid = E.listed[k].tid, drift, "slot-order")
               /\ nmixed' = nmixed + (IF \E k \in 1..Len(E.listed) : ~E.listed[k].readable THEN 1 ELSE 0)
         /\ nchk' = nchk + 1
Failed == /\ E.ev = "failed"           \* the dump did not succeed: nothing to judge for C15 (other properties judge that)
          /\ UNCHANGED <<viol, drift, nchk, nmixed>>
TNext == l <= Len(Rec) /\ (Names \/ Failed) /\ l' = l + 1 /\ UNCHANGED vars
TSpec == TInit /\ [][TNext]_tvars
Verdict == l = Len(Rec) + 1 =>
   PrintT(<<"VERDICT", ToJson([events |-> Len(Rec), checked |-> nchk, mixed |-> nmixed, viol |-> viol, drift |-> drift])>>)
Accepted == TLCGet("stats").diameter = Len(Rec) + 1
=============================================================================
