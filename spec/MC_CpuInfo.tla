----------------------------- MODULE MC_CpuInfo -----------------------------
EXTENDS CpuInfo, Json
Emit == pc = "done" => PrintT(<<"REPLAY", ToJson([lines |-> lines, want |-> res])>>)
=============================================================================
