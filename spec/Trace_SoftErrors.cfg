SPECIFICATION TSpec
CONSTANTS
  MaxThreads = 0
INVARIANT Verdict
POSTCONDITION Accepted
CHECK_DEADLOCK FALSE
