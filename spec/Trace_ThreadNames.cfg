SPECIFICATION TSpec
CONSTANTS
  MaxThreads = 0
  NameLens = {}
  PlaceByNamedIndex = TRUE
  CountListed = TRUE
INVARIANT Verdict
POSTCONDITION Accepted
CHECK_DEADLOCK FALSE
