SPECIFICATION TSpec
CONSTANTS
  MaxThreads = 0
  NameLens = {}
  PlaceByNamedIndex = TRUE
INVARIANT Verdict
POSTCONDITION Accepted
CHECK_DEADLOCK FALSE
