SPECIFICATION Spec
CONSTANTS
  MaxPairs = 3
INVARIANTS Emit
CHECK_DEADLOCK FALSE
