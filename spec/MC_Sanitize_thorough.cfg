SPECIFICATION Spec
CONSTANTS
  BucketSize = 4
  NBits = 4
  Small = 2
  SignedSmall = TRUE
  Layouts <- MCLayouts
  WordPool <- MCWordPool
  MaxWords = 3
INVARIANTS C12 PrefilterSound StepwiseIsRun
CHECK_DEADLOCK FALSE
