------------------------------ MODULE SoVersion ------------------------------
(***************************************************************************)
(* SoVersion::parse (maps_reader.rs): the version a module gets from its    *)
(* file name, "libfoo.so.MAJOR.MINOR.PATCH[.PRERELEASE]" - the text after   *)
(* the first ".so." split at dots, at most four components looked at.       *)
(* A component is abstracted to what the parser can tell apart:             *)
(*   num    digits that fit u32          big   digits that do not           *)
(*   empty  nothing                      a     no digit at either end (rc)  *)
(*   nan    digits, other, digits (2rc5) na    digits, other (2rc)          *)
(*   an     other, digits (rc5)                                             *)
(* The loop is transcribed (index tests, the two `break`s); `Decl` says     *)
(* what the four fields mean.  There is no listed property about versions:  *)
(* the model is bound to the code as conformance only (MODEL-DRIFT).        *)
(***************************************************************************)
EXTENDS Naturals, Sequences, TLC
CONSTANT MaxComps
Kinds == {"num", "big", "empty", "a", "nan", "na", "an"}
(* the numbers a component at 0-based position p carries: as a whole, before its first non-digit, after its last non-digit *)
Val(p) == 3 + p
Pre(p) == 20 + p
Suf(p) == 40 + p
HasNonDigit(k) == k \in {"a", "nan", "na", "an"}
PrefixOk(k)    == k \in {"nan", "na"}          \* comp[..pend].parse() succeeds: some digits before the first other character
SuffixOk(k)    == k \in {"nan", "an"}          \* the text after the last other character parses
Whole(k, p)    == IF k = "num" THEN Val(p) ELSE 0            \* comp.parse().unwrap_or_default()
Zero == <<0, 0, 0, 0>>

VARIABLES comps, i, sov, pc
vars == <<comps, i, sov, pc>>
Init == /\ comps \in UNION {[1..n -> Kinds] : n \in 1..MaxComps}      \* "".split('.') still yields one (empty) component
        /\ i = 0 /\ sov = Zero /\ pc = "loop"
Set(s, f, v) == [s EXCEPT ![f + 1] = v]
Step ==
  /\ pc = "loop"
  /\ IF i >= Len(comps) THEN pc' = "done" /\ UNCHANGED <<i, sov>>
     ELSE LET k == comps[i + 1] IN
          IF i <= 1 THEN sov' = Set(sov, i, Whole(k, i)) /\ i' = i + 1 /\ UNCHANGED pc
          ELSE IF i >= 4 THEN pc' = "done" /\ UNCHANGED <<i, sov>>
          ELSE IF HasNonDigit(k)
            THEN LET s1 == IF PrefixOk(k) THEN Set(sov, i, Pre(i)) ELSE sov IN
                 IF i >= 3 THEN sov' = s1 /\ pc' = "done" /\ UNCHANGED i                    \* nowhere to put a suffix: break
                 ELSE IF SuffixOk(k) THEN sov' = Set(s1, i + 1, Suf(i)) /\ pc' = "done" /\ UNCHANGED i     \* suffix -> next field, break
                 ELSE sov' = s1 /\ i' = i + 1 /\ UNCHANGED pc
            ELSE sov' = Set(sov, i, Whole(k, i)) /\ i' = i + 1 /\ UNCHANGED pc
  /\ UNCHANGED comps
Next == Step
Spec == Init /\ [][Next]_vars /\ WF_vars(Next)

(* what the fields mean *)
Comp(c, p) == IF p < Len(c) THEN c[p + 1] ELSE "empty"
Lead(k, p) == IF HasNonDigit(k) THEN (IF PrefixOk(k) THEN Pre(p) ELSE 0) ELSE Whole(k, p)      \* the number a component starts with
Decl(c) == LET third == Comp(c, 2)
               carried == HasNonDigit(third) /\ SuffixOk(third)          \* "2rc5": the 5 is the prerelease, the fourth component is not looked at
           IN << Whole(Comp(c, 0), 0), Whole(Comp(c, 1), 1), Lead(third, 2),
                 IF carried THEN Suf(2) ELSE Lead(Comp(c, 3), 3) >>
ParseIsDecl == pc = "done" => sov = Decl(comps)
Terminates == <>(pc = "done")
(* the loop as a function, for the trace specification *)
RECURSIVE Run(_, _, _)
Run(c, p, s) ==
  IF p >= Len(c) \/ p >= 4 THEN s
  ELSE LET k == c[p + 1] IN
       IF p <= 1 THEN Run(c, p + 1, Set(s, p, Whole(k, p)))
       ELSE IF HasNonDigit(k)
         THEN LET s1 == IF PrefixOk(k) THEN Set(s, p, Pre(p)) ELSE s IN
              IF p >= 3 THEN s1 ELSE IF SuffixOk(k) THEN Set(s1, p + 1, Suf(p)) ELSE Run(c, p + 1, s1)
         ELSE Run(c, p + 1, Set(s, p, Whole(k, p)))
RunIsSteps == pc = "done" => sov = Run(comps, 0, Zero)
=============================================================================
