--------------------------- MODULE MemReaderHist ---------------------------
(***************************************************************************)
(* One MemReader object serving a HISTORY of reads (mem_reader.rs keeps    *)
(* the chosen strategy, and for the /proc/<pid>/mem strategy an open file, *)
(* between calls).  Property C17 is about each read by itself: what a read *)
(* returns may not depend on the reads the same reader served before.      *)
(* The model carries the state a reader could carry - the file offset of   *)
(* the descriptor and what the reader remembers about it - and the         *)
(* constant `Pread` says how the file strategy positions itself:           *)
(*   TRUE  - every read names its offset (pread / read_exact_at): the tree *)
(*   FALSE - lseek + read, the lseek skipped when the remembered offset    *)
(*           equals the start, the remembered offset updated only when a   *)
(*           read succeeds (a failed read still moves the descriptor)      *)
(***************************************************************************)
EXTENDS Naturals, Sequences, TLC
CONSTANTS R, MaxN, MaxReads, Pread
(* as in MemReader: bytes [0, R) are readable; the file strategy is all-or-error *)
Readable(a, len) == a + len <= R
FileResult(s0, n0) == IF Readable(s0, n0) THEN [res |-> "ok", got |-> n0] ELSE [res |-> "err", got |-> 0]
VARIABLES hist,      \* the reads served so far: <<start, length, result>>
          koff,      \* file offset of the descriptor in the kernel
          cached     \* offset the reader believes the descriptor is at (-1: unknown)
hvars == <<hist, koff, cached>>
Starts == 0..(R + 1)
HInit == hist = <<>> /\ koff = 0 /\ cached = 0
(* the bytes a read(2) at kernel offset o of length n0 returns: all of them or an error (read_exact) *)
At(o, n0) == IF Readable(o, n0) THEN [res |-> "ok", got |-> n0] ELSE [res |-> "err", got |-> 0]
Read(s0, n0) ==
  /\ Len(hist) < MaxReads
  /\ LET seekDone == Pread \/ cached # s0                 \* does the descriptor get positioned at s0?
         from == IF seekDone THEN s0 ELSE koff
         r == At(from, n0)
         \* where the descriptor ends up: after the bytes on success; at the unreadable spot after partial progress on failure
         after == IF r.res = "ok" THEN from + n0 ELSE IF from < R THEN R ELSE from
     IN /\ hist' = Append(hist, <<s0, n0, r>>)
        /\ koff' = IF Pread THEN koff ELSE after
        /\ cached' = IF Pread THEN cached ELSE IF r.res = "ok" THEN s0 + n0 ELSE cached
HNext == \E s0 \in Starts, n0 \in 1..MaxN : Read(s0, n0)
HSpec == HInit /\ [][HNext]_hvars
(* C17 for every read of every history: the answer is the single-read answer *)
HistoryIndependent == \A i \in 1..Len(hist) : hist[i][3] = FileResult(hist[i][1], hist[i][2])
=============================================================================
