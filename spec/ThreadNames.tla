---------------------------- MODULE ThreadNames ----------------------------
(***************************************************************************)
(* Model of sections/thread_names_stream.rs: a count header immediately    *)
(* followed by an array with one slot per NAMED thread, then, while        *)
(* iterating over ALL threads, for each named thread its string followed   *)
(* by the entry (tid, string rva) stored into slot SlotOf(i).              *)
(* `PlaceByNamedIndex` selects SlotOf: TRUE = number of named threads      *)
(* before i; FALSE = i itself (position among all threads).                *)
(***************************************************************************)
EXTENDS Naturals, Sequences, FiniteSets, TLC
CONSTANTS MaxThreads, NameLens, PlaceByNamedIndex
VARIABLES threads,  \* Seq of [named : BOOLEAN, len : NameLens]  (index = thread-list position, tid = index)
          img,      \* Seq of cells: <<"hdr",n>>, <<"slot",k>> (empty slot), <<"ent",tid,strOff>>, <<"str",tid,len>> (string header), <<"chr",tid>>
          i, arrOff, nNamed, pc, oob
vars == <<threads, img, i, arrOff, nNamed, pc, oob>>

NamedSet(ths) == {k \in 1..Len(ths) : ths[k].named}
(* 0-based array index used for thread i (1-based position in the thread list) *)
SlotOf(ths, k) == IF PlaceByNamedIndex THEN Cardinality({j \in NamedSet(ths) : j < k}) ELSE k - 1

Init == /\ threads \in UNION {[1..n -> [named : BOOLEAN, len : NameLens]] : n \in 0..MaxThreads}
        /\ img = <<>> /\ i = 1 /\ arrOff = 0 /\ nNamed = 0 /\ pc = "header" /\ oob = FALSE
Header == /\ pc = "header"
          /\ img' = <<<<"hdr", Cardinality(NamedSet(threads))>>>> \o [k \in 1..Cardinality(NamedSet(threads)) |-> <<"slot", k>>]
          /\ arrOff' = 1 /\ pc' = "place" /\ UNCHANGED <<threads, i, nNamed, oob>>
(* Buffer::write_at: in place, or extending when the position is the current end; beyond that it panics *)
WriteAt(s, pos, c) == IF pos <= Len(s) THEN [s EXCEPT ![pos] = c] ELSE IF pos = Len(s) + 1 THEN Append(s, c) ELSE s
Place == /\ pc = "place" /\ i <= Len(threads)
         /\ IF threads[i].named
              THEN LET strOff == Len(img) + 1
                       withStr == img \o <<<<"str", i, threads[i].len>>>> \o [k \in 1..threads[i].len |-> <<"chr", i>>]
                       pos == arrOff + 1 + SlotOf(threads, i)
                   IN /\ oob' = (oob \/ pos > Len(withStr) + 1)
                      /\ img' = WriteAt(withStr, pos, <<"ent", i, strOff>>)
                      /\ nNamed' = nNamed + 1
              ELSE UNCHANGED <<img, nNamed, oob>>
         /\ i' = i + 1 /\ UNCHANGED <<threads, arrOff, pc>>
Done == pc = "place" /\ i > Len(threads) /\ pc' = "done" /\ UNCHANGED <<threads, img, i, arrOff, nNamed, oob>>
Next == Header \/ Place \/ Done
Spec == Init /\ [][Next]_vars

(* C15 (and the clauses of C01 about this stream), evaluated on the finished image *)
Slots == {arrOff + k : k \in 1..Cardinality(NamedSet(threads))}
C15 == pc = "done" =>
   /\ ~oob
   /\ \A k \in NamedSet(threads) : \E p \in Slots : /\ img[p][1] = "ent" /\ img[p][2] = k
                                                     /\ img[p][3] <= Len(img) /\ img[img[p][3]] = <<"str", k, threads[k].len>>
   /\ \A p \in Slots : img[p][1] = "ent" /\ img[p][2] \in NamedSet(threads)
   /\ \A p, q \in Slots : p # q => img[p][2] # img[q][2]
=============================================================================
