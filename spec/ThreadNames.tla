---------------------------- MODULE ThreadNames ----------------------------
(***************************************************************************)
(* Model of sections/thread_names_stream.rs: a count header immediately    *)
(* followed by an array with one slot per NAMED thread, then, while        *)
(* iterating over ALL threads, for each named thread its string followed   *)
(* by the entry (tid, string rva) stored into slot SlotOf(i).              *)
(* `PlaceByNamedIndex` selects SlotOf: TRUE = number of named threads      *)
(* before i; FALSE = i itself (position among all threads).                *)
(* The threads the stream is written for are the LISTED ones: those of the *)
(* enumeration that were not dropped when the process was suspended (gone, *)
(* not attachable, no stack pointer).  `CountListed` says where the number *)
(* of array slots comes from: TRUE = the named threads of that list;       *)
(* FALSE = the length of the list minus the number of names that could not *)
(* be read during the enumeration (a count taken before threads dropped).  *)
(***************************************************************************)
EXTENDS Naturals, Sequences, FiniteSets, TLC
CONSTANTS MaxThreads, NameLens, PlaceByNamedIndex, CountListed
VARIABLES enum,     \* Seq of [named : BOOLEAN, len : NameLens, dropped : BOOLEAN]: the enumeration of /proc/<pid>/task
          threads,  \* the listed threads = enum without the dropped ones;  Seq of [named : BOOLEAN, len : NameLens]  (index = thread-list position, tid = index)
          img,      \* Seq of cells: <<"hdr",n>>, <<"slot",k>> (empty slot), <<"ent",tid,strOff>>, <<"str",tid,len>> (string header), <<"chr",tid>>
          i, arrOff, nNamed, pc, oob
vars == <<enum, threads, img, i, arrOff, nNamed, pc, oob>>

NamedSet(ths) == {k \in 1..Len(ths) : ths[k].named}
(* 0-based array index used for thread i (1-based position in the thread list) *)
SlotOf(ths, k) == IF PlaceByNamedIndex THEN Cardinality({j \in NamedSet(ths) : j < k}) ELSE k - 1

RECURSIVE Keep(_)
Keep(e) == IF e = <<>> THEN <<>> ELSE (IF Head(e).dropped THEN <<>> ELSE <<[named |-> Head(e).named, len |-> Head(e).len]>>) \o Keep(Tail(e))
Unnamed(e) == Cardinality({k \in 1..Len(e) : ~e[k].named})
Minus(a, b) == IF a >= b THEN a - b ELSE 0
SlotCount == IF CountListed THEN Cardinality(NamedSet(threads)) ELSE Minus(Len(threads), Unnamed(enum))
Init == /\ enum \in UNION {[1..n -> [named : BOOLEAN, len : NameLens, dropped : BOOLEAN]] : n \in 0..MaxThreads}
        /\ threads = Keep(enum)
        /\ img = <<>> /\ i = 1 /\ arrOff = 0 /\ nNamed = 0 /\ pc = "header" /\ oob = FALSE
Header == /\ pc = "header"
          /\ img' = <<<<"hdr", SlotCount>>>> \o [k \in 1..SlotCount |-> <<"slot", k>>]
          /\ arrOff' = 1 /\ pc' = "place" /\ UNCHANGED <<enum, threads, i, nNamed, oob>>
(* Buffer::write_at: in place, or extending when the position is the current end; beyond that it panics *)
WriteAt(s, pos, c) == IF pos <= Len(s) THEN [s EXCEPT ![pos] = c] ELSE IF pos = Len(s) + 1 THEN Append(s, c) ELSE s
Place == /\ pc = "place" /\ i <= Len(threads)
         /\ IF threads[i].named
              THEN LET strOff == Len(img) + 1
                       withStr == img \o <<<<"str", i, threads[i].len>>>> \o [k \in 1..threads[i].len |-> <<"chr", i>>]
                       pos == arrOff + 1 + SlotOf(threads, i)
                   IN /\ oob' = (oob \/ pos > Len(withStr) + 1)
                      /\ img' = WriteAt(withStr, pos, <<"ent", i, strOff>>)
                      /\ nNamed' = nNamed + 1
              ELSE UNCHANGED <<img, nNamed, oob>>
         /\ i' = i + 1 /\ UNCHANGED <<enum, threads, arrOff, pc>>
Done == pc = "place" /\ i > Len(threads) /\ pc' = "done" /\ UNCHANGED <<enum, threads, img, i, arrOff, nNamed, oob>>
Next == Header \/ Place \/ Done
Spec == Init /\ [][Next]_vars

(* C15 (and the clauses of C01 about this stream), evaluated on the finished image *)
Slots == {arrOff + k : k \in 1..Cardinality(NamedSet(threads))}
C15 == pc = "done" =>
   /\ ~oob
   /\ img[1] = <<"hdr", Cardinality(NamedSet(threads))>>                    \* exactly one entry per listed thread whose name could be read
   /\ \A k \in NamedSet(threads) : \E p \in Slots : /\ img[p][1] = "ent" /\ img[p][2] = k
                                                     /\ img[p][3] <= Len(img) /\ img[img[p][3]] = <<"str", k, threads[k].len>>
   /\ \A p \in Slots : img[p][1] = "ent" /\ img[p][2] \in NamedSet(threads)
   /\ \A p, q \in Slots : p # q => img[p][2] # img[q][2]
=============================================================================
