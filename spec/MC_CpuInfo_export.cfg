SPECIFICATION Spec
CONSTANTS
  MaxFree = 2
  MaxAround = 1
INVARIANTS Emit
CHECK_DEADLOCK FALSE
