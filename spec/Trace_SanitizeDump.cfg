SPECIFICATION Spec
INVARIANT Verdict
POSTCONDITION Accepted
CHECK_DEADLOCK FALSE
