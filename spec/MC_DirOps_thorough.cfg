SPECIFICATION MCSpec
CONSTANTS
  NSlots = 3
  MaxOps = 8
  Sizes = {0, 5}
  Starts = {0, 7}
  HdrLen = 32
  EntLen = 12
  FlushFirst = TRUE
INVARIANTS C09 Emit
CHECK_DEADLOCK FALSE
