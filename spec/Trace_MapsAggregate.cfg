SPECIFICATION TSpec
CONSTANTS
  MaxLines = 0
  Names = {}
  PermSet = {}
  Gate = 0
INVARIANT Verdict
POSTCONDITION Accepted
CHECK_DEADLOCK FALSE
