SPECIFICATION Spec
CONSTANTS
  MaxLines = 2
  Names = {"/a", "/b"}
  PermSet = {"---p", "r--p", "r-xp", "rw-p"}
  Gate = 2
INVARIANTS Inv_C13 Inv_Cover Inv_Fold Emit
CHECK_DEADLOCK FALSE
