SPECIFICATION Spec
CONSTANTS
  MaxThreads = 4
  NameLens = {0, 2}
  PlaceByNamedIndex = TRUE
  CountListed = TRUE
INVARIANT C15
CHECK_DEADLOCK FALSE
