SPECIFICATION Spec
CONSTANTS
  MaxThreads = 4
  NameLens = {0, 2}
  PlaceByNamedIndex = TRUE
INVARIANT C15
CHECK_DEADLOCK FALSE
