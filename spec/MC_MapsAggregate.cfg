SPECIFICATION Spec
CONSTANTS
  MaxLines = 3
  Names = {"/a", "/b"}
  PermSet = {"---p", "r--p", "r-xp"}
  Gate = 2
INVARIANTS Inv_C13 Inv_Cover Inv_Fold
CHECK_DEADLOCK FALSE
