---------------------------- MODULE Trace_Ptrace ----------------------------
(* C03 verdicts on recorded executions.
     flood : suspend_thread / resume_thread cycles on one target thread under a flood of a queued signal
     c03   : the observed end state of the target after a dump request under an environment schedule
             (signals placed at hook points / destination-call indices, thread exits, injected failures)
   The verdict is the end-state predicate of Ptrace (C03_NoneLeftAttached, C03_NoDup, C03_NoLoss,
   every thread resumed) evaluated on what /proc and the target's handler counters show; it does
   not depend on the kernel model.  Conformance: the recorded tracer steps relate to the loss
   count the way the model says (a loss needs an undecodable realtime stop).                    *)
EXTENDS Integers, Sequences, FiniteSets, TLC, Json, IOUtils
CONSTANT RtDecodable
Rec == ndJsonDeserialize(IOEnv.TRACE)
VARIABLES l, viol, drift, nchk, nsig
vars == <<l, viol, drift, nchk, nsig>>
E == Rec[l]
Has(r, f) == f \in DOMAIN r
NTag(seq, tag) == Cardinality({k \in 1..Len(seq) : seq[k][2] = tag})
Note(cond, seq, tag) == IF cond \/ NTag(seq, tag) >= 60 THEN seq ELSE Append(seq, <<l, tag>>)
Init == l = 1 /\ viol = <<>> /\ drift = <<>> /\ nchk = 0 /\ nsig = 0
Stopped(s) == s \in {"T", "t"}
Flood == /\ E.ev = "flood" /\ ~Has(E, "error")
         /\ LET v1 == Note(E.delivered >= E.sent, viol, "C03-queued-signal-lost-at-attach")
                v2 == Note(E.delivered <= E.sent, v1, "C03-signal-delivered-twice")
                v3 == Note(E.tracer = 0 /\ ~Stopped(E.state) /\ E.hbAdvancing, v2, "C03-thread-left-attached-or-stopped")
            IN viol' = v3
         \* model: a queued signal is lost exactly when its stop is reported to a tracer that cannot decode it
         /\ drift' = Note(IF RtDecodable THEN E.waitErr = 0 /\ E.reinjected = E.waitOther ELSE E.sent - E.delivered = E.waitErr, drift, "loss-vs-undecodable-stops")
         /\ nchk' = nchk + 1 /\ nsig' = nsig + E.sent
(* thread record: [alive, state, tracer, tracerAtReturn, heartbeat (is a heartbeat thread), hbAdvancing, sentRt, gotRt, sentStd, gotStd] *)
ThreadOk(t) == ~t.alive \/ (/\ t.tracer = 0 /\ t.tracerAtReturn = 0        \* not traced when the request returned, nor later
                            /\ ~Stopped(t.state) /\ (t.heartbeat => t.hbAdvancing))
SignalsOk(t) == ~t.alive \/ (/\ t.gotRt = t.sentRt                                    \* queued signals: exactly once
                             /\ t.gotStd <= t.sentStd /\ (t.sentStd > 0 => t.gotStd >= 1))     \* standard signals may coalesce
Dump == /\ E.ev = "c03"
        /\ LET v1 == Note(E.worker = "exited", viol, "C03-dump-did-not-return")
               v2 == Note(\A k \in 1..Len(E.threads) : ThreadOk(E.threads[k]), v1, "C03-thread-left-attached-or-stopped")
               v3 == Note(\A k \in 1..Len(E.threads) : E.threads[k].alive => E.threads[k].gotRt >= E.threads[k].sentRt, v2, "C03-queued-signal-lost")
               v4 == Note(\A k \in 1..Len(E.threads) : SignalsOk(E.threads[k]) \/ E.threads[k].gotRt < E.threads[k].sentRt, v3, "C03-signal-delivered-twice")
           IN viol' = v4
        /\ drift' = Note(E.outcomeExpected, drift, "dump-outcome")
        /\ nchk' = nchk + 1 /\ nsig' = nsig + E.nsent
Next == l <= Len(Rec) /\ (Flood \/ Dump) /\ l' = l + 1
Spec == Init /\ [][Next]_vars
Verdict == l = Len(Rec) + 1 =>
   PrintT(<<"VERDICT", ToJson([events |-> Len(Rec), checked |-> nchk, signals |-> nsig, viol |-> viol, drift |-> drift])>>)
Accepted == TLCGet("stats").diameter = Len(Rec) + 1
=============================================================================
