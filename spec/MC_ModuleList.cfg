SPECIFICATION Spec
CONSTANTS
  MaxMaps = 2
INVARIANTS C08_ExactlyTheListed C08_EntryFirst C08_UserLast
CHECK_DEADLOCK FALSE
