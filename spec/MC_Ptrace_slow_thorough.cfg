SPECIFICATION Spec
CONSTANTS
  T = {1, 2, 3}
  Sandbox = {3}
  MaxSend = 1
  RtDecodable = TRUE
  Slow = {2}
  WaitGivesUp = FALSE
  MayExit = TRUE
  NFaultSteps = 2
INVARIANTS C03_NoneLeftAttached C03_NoDup C03_NoLoss C04_NoRunBetweenCaptures C04_ListedOnce C04_SandboxOmitted
PROPERTY C03_Eventually
CHECK_DEADLOCK FALSE
