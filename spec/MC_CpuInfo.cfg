SPECIFICATION Spec
CONSTANTS
  MaxFree = 3
  MaxAround = 1
INVARIANTS LoopIsParse OnlyProcessorIsUpdated
PROPERTY Terminates
CHECK_DEADLOCK FALSE
