---------------------------- MODULE MC_AuxvFile ----------------------------
EXTENDS AuxvFile, Json
Emit == pc = "done" => PrintT(<<"REPLAY", ToJson([direct |-> direct, pairs |-> file.pairs, ending |-> file.ending, info |-> info, softErr |-> softErr])>>)
=============================================================================
