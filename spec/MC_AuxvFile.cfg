SPECIFICATION Spec
CONSTANTS
  MaxPairs = 3
INVARIANTS C18_DirectFirstThenFirstPair C11_TruncationIsSoft
PROPERTY Terminates
CHECK_DEADLOCK FALSE
