------------------------- MODULE Trace_ImageBuilder -------------------------
(* Validates recorded executions of the real image builder (mem_writer.rs) against the laws of
   C16 and against the arithmetic of the ImageBuilder model.  One event per public call; the
   specification never blocks: violations of the property (evaluated on OBSERVED values) and
   deviations from the model's prediction are accumulated and printed as one verdict.        *)
EXTENDS Integers, Sequences, TLC, Json, IOUtils, FiniteSets, ImageLaws
Rec == ndJsonDeserialize(IOEnv.TRACE)
StrHdr == 4
UnitSz == 2
VARIABLES l, len, slots, viol, drift, nchk
vars == <<l, len, slots, viol, drift, nchk>>
E == Rec[l]
Has(r, f) == f \in DOMAIN r
NTag(seq, tag) == Cardinality({k \in 1..Len(seq) : seq[k][2] = tag})
Note(cond, seq, tag) == IF cond \/ NTag(seq, tag) >= 60 THEN seq ELSE Append(seq, <<l, tag>>)
Init == l = 1 /\ len = 0 /\ slots = <<>> /\ viol = <<>> /\ drift = <<>> /\ nchk = 0

Reset == /\ E.ev = "reset" /\ len' = 0 /\ slots' = <<>> /\ UNCHANGED <<viol, drift, nchk>>

IsAppend(op) == op \in {"alloc", "allocval", "allocarray", "allocfrom", "bytes", "string"}
SizeOf(e) == IF e.op = "string" THEN StringBytes(StrHdr, UnitSz, e.bmp, e.astral)
             ELSE IF e.op = "bytes" THEN e.n ELSE e.sz * e.n
Failed == Has(E, "error")
AppendOp ==
  /\ E.ev = "op" /\ IsAppend(E.op) /\ ~Failed
  /\ LET o == E.obs size == SizeOf(E) IN
     /\ viol' = Note(/\ AppendLaw(o.len_before, size, o.loc_off, o.loc_size, o.len)
                     /\ o.chg_lo = -1                       \* no earlier byte moved or altered
                     /\ o.content_ok
                     /\ (E.op = "string" => o.hdr = UnitSz * StringUnits(E.bmp, E.astral)),
                     viol, "C16")
     /\ drift' = Note(o.len_before = len /\ o.position = o.len, drift, "len")
     /\ len' = o.len
     /\ slots' = Append(slots, IF E.op \in {"bytes", "string"} THEN [off |-> 0, sz |-> 0, n |-> 0]
                                ELSE [off |-> o.loc_off, sz |-> E.sz, n |-> E.n])
     /\ nchk' = nchk + 1
FillOp ==
  /\ E.ev = "op" /\ E.op \in {"setvalue", "setat"} /\ ~Failed /\ ~Has(E, "skipped")
  /\ LET o == E.obs s == slots[E.h] IN
     /\ viol' = Note(/\ o.len = o.len_before
                     /\ TouchedWithin(ElemLo(s.off, s.sz, E.i), ElemHi(s.off, s.sz, E.i), o.chg_lo, o.chg_hi)
                     /\ E.i < s.n
                     /\ o.content_ok,
                     viol, "C16")
     /\ drift' = Note(o.len_before = len, drift, "len")
     /\ len' = o.len /\ slots' = Append(slots, [off |-> 0, sz |-> 0, n |-> 0]) /\ nchk' = nchk + 1
SkippedOp ==
  /\ E.ev = "op" /\ Has(E, "skipped") /\ ~Failed
  /\ slots' = Append(slots, [off |-> 0, sz |-> 0, n |-> 0]) /\ UNCHANGED <<len, viol, drift, nchk>>
(* an operation in contract must not fail *)
FailedOp ==
  /\ E.ev = "op" /\ Failed
  /\ viol' = Append(viol, <<l, "C16-error">>) /\ slots' = Append(slots, [off |-> 0, sz |-> 0, n |-> 0])
  /\ UNCHANGED <<len, drift, nchk>>
Next == l <= Len(Rec) /\ (Reset \/ AppendOp \/ FillOp \/ SkippedOp \/ FailedOp) /\ l' = l + 1
Spec == Init /\ [][Next]_vars
Verdict == l = Len(Rec) + 1 =>
   PrintT(<<"VERDICT", ToJson([events |-> Len(Rec), checked |-> nchk, viol |-> viol, drift |-> drift])>>)
Accepted == TLCGet("stats").diameter = Len(Rec) + 1
=============================================================================
