----------------------------- MODULE ModuleList -----------------------------
(***************************************************************************)
(* Model of the module list (property C08): sections/mappings.rs over the  *)
(* aggregated mapping list of PtraceDumper (entry-point mapping swapped to *)
(* the front, ptrace_dumper.rs:454-474).  A mapping is a record of the     *)
(* facts the code consults; the build id and SONAME fields are what an     *)
(* independent ELF reader finds ("" = none, "zero" = an all-zero id).      *)
(***************************************************************************)
EXTENDS Naturals, Sequences, FiniteSets, TLC
Interesting(m) == m.named /\ (m.off = 0 \/ m.exec) /\ m.size >= 4096
Listed(m) == Interesting(m) /\ ~m.inUser /\ m.id # "" /\ m.id # "zero"
(* name: the path, its last component replaced by the SONAME, or the SONAME appended for an executable mapping at a non-zero file offset *)
NameKind(m) == IF m.soname = "" THEN "path" ELSE IF m.exec /\ m.off # 0 THEN "appended" ELSE "replaced"
(* the dumper's order: ascending addresses with the entry-point mapping swapped with the first one *)
EntryIdx(ms, entry) == IF \E k \in 1..Len(ms) : ms[k].start <= entry /\ entry < ms[k].end
                       THEN CHOOSE k \in 1..Len(ms) : ms[k].start <= entry /\ entry < ms[k].end ELSE 0
Swap(ms, entry) == LET k == EntryIdx(ms, entry) IN
                   IF k <= 1 THEN ms ELSE [i \in 1..Len(ms) |-> IF i = 1 THEN ms[k] ELSE IF i = k THEN ms[1] ELSE ms[i]]
RECURSIVE Filter(_, _)
Filter(ms, k) == IF k > Len(ms) THEN <<>> ELSE (IF Listed(ms[k]) THEN <<ms[k]>> ELSE <<>>) \o Filter(ms, k + 1)
(* the module list: the listed mappings in the dumper's order, then the caller's mappings verbatim *)
Modules(ms, entry, user) == Filter(Swap(ms, entry), 1) \o user

CONSTANTS MaxMaps
VARIABLES maps, entry, user, out, pc
vars == <<maps, entry, user, out, pc>>
MapRec(k) == [start : {10 * k}, end : {10 * k + 5}, size : {4096, 100}, named : BOOLEAN, off : {0, 1}, exec : BOOLEAN, inUser : BOOLEAN, id : {"", "zero", "a", "b"}, soname : {"", "s"}]
Init == /\ maps \in UNION {{m \in [1..n -> UNION {MapRec(k) : k \in 1..n}] : \A k \in 1..n : m[k].start = 10 * k} : n \in 0..MaxMaps}
        /\ entry \in {0, 12, 22} /\ user \in {<<>>, <<[start |-> 900, end |-> 905, size |-> 4096, named |-> TRUE, off |-> 0, exec |-> TRUE, inUser |-> FALSE, id |-> "u", soname |-> ""]>>}
        /\ out = <<>> /\ pc = "go"
Write == pc = "go" /\ out' = Modules(maps, entry, user) /\ pc' = "done" /\ UNCHANGED <<maps, entry, user>>
Next == Write
Spec == Init /\ [][Next]_vars
C08_ExactlyTheListed == pc = "done" =>
   /\ \A k \in 1..Len(maps) : Listed(maps[k]) <=> Cardinality({i \in 1..Len(out) : out[i].start = maps[k].start}) = 1
   /\ \A i \in 1..Len(out) : out[i].start = 900 \/ \E k \in 1..Len(maps) : out[i] = maps[k] /\ Listed(maps[k])
C08_EntryFirst == pc = "done" /\ EntryIdx(maps, entry) # 0 /\ Listed(maps[EntryIdx(maps, entry)]) => out[1] = maps[EntryIdx(maps, entry)]
C08_UserLast == pc = "done" /\ user # <<>> => out[Len(out)] = user[1]
C08_NoOverlap == pc = "done" => \A i, j \in 1..Len(out) : i # j => out[i].start + out[i].size <= out[j].start \/ out[j].start + out[j].size <= out[i].start
=============================================================================
