--------------------------- MODULE Trace_Structure ---------------------------
(* C01 on real dumps: the image decoded by the independent decoder (header, directory, and every
   object reachable through an RVA, sorted by offset with identical extents collapsed) must be
   structurally sound.  Everything is judged on the recorded numbers.                           *)
EXTENDS Integers, Sequences, FiniteSets, TLC, Json, IOUtils
Rec == ndJsonDeserialize(IOEnv.TRACE)
VARIABLES l, viol, drift, nchk, nobj
vars == <<l, viol, drift, nchk, nobj>>
E == Rec[l]
Has(r, f) == f \in DOMAIN r
NTag(seq, tag) == Cardinality({k \in 1..Len(seq) : seq[k][2] = tag})
Note(cond, seq, tag) == IF cond \/ NTag(seq, tag) >= 60 THEN seq ELSE Append(seq, <<l, tag>>)
Init == l = 1 /\ viol = <<>> /\ drift = <<>> /\ nchk = 0 /\ nobj = 0
Version == 42899
(* dir entry = <<type, size, rva>> ; sizeOk = set of types whose size equals what the record count implies *)
Unused(d) == d[1] = 0 /\ d[2] = 0 /\ d[3] = 0
DirectoryShape(e) ==
  /\ e.count = Len(e.dir)
  /\ \A a \in 1..Len(e.dir) : LET d == e.dir[a] IN
        Unused(d) \/ (/\ d[1] # 0
                      /\ \A b \in 1..Len(e.dir) : b # a => e.dir[b][1] # d[1]       \* the type occurs once
                      /\ d[3] + d[2] <= e.imgLen                                     \* wholly inside the image
                      /\ \E k \in 1..Len(e.sizeOk) : e.sizeOk[k] = d[1])                                          \* size = header + count * record size
(* obj = [off, len, nk (objects with this exact extent), alias (kinds of a collapsed group)] *)
AliasAllowed(o) == o.nk = 1 \/ (o.nk = 2 /\ o.alias \in {"mem+stack", "ctx+ctx:exception"})
RefsInside(e) == e.nerr = 0 /\ \A k \in 1..Len(e.objs) : e.objs[k].off + e.objs[k].len <= e.imgLen
NoOverlap(e) == /\ \A k \in 1..(Len(e.objs) - 1) : e.objs[k].off + e.objs[k].len <= e.objs[k+1].off
                /\ \A k \in 1..Len(e.objs) : AliasAllowed(e.objs[k])
Structure ==
  /\ E.ev = "c01"
  /\ LET v1 == Note(E.sigOk /\ E.version = Version /\ E.dirRva = 32 /\ E.count = 18, viol, "C01-header")
         v2 == Note(DirectoryShape(E), v1, "C01-directory-shape")
         v3 == Note(RefsInside(E), v2, "C01-reference-outside-image")
         v4 == Note(NoOverlap(E), v3, "C01-objects-overlap")
     IN viol' = v4
  /\ drift' = Note(E.got = E.exp, drift, "object-counts")
  /\ nchk' = nchk + 1 /\ nobj' = nobj + Len(E.objs)
Failed == E.ev = "failed" /\ UNCHANGED <<viol, drift, nchk, nobj>>
Next == l <= Len(Rec) /\ (Structure \/ Failed) /\ l' = l + 1
Spec == Init /\ [][Next]_vars
Verdict == l = Len(Rec) + 1 =>
   PrintT(<<"VERDICT", ToJson([events |-> Len(Rec), checked |-> nchk, objects |-> nobj, viol |-> viol, drift |-> drift])>>)
Accepted == TLCGet("stats").diameter = Len(Rec) + 1
=============================================================================
