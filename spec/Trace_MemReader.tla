--------------------------- MODULE Trace_MemReader ---------------------------
(* C17 on recorded reads of the real MemReader strategies: property on the observed outcome and
   conformance with MemReader's result function for the strategy.                              *)
EXTENDS MemReader, Integers, FiniteSets, Json, IOUtils
Rec == ndJsonDeserialize(IOEnv.TRACE)
VARIABLES l, viol, drift, nchk, nacross
tvars == <<vars, l, viol, drift, nchk, nacross>>
E == Rec[l]
Has(r, f) == f \in DOMAIN r
NTag(seq, tag) == Cardinality({j \in 1..Len(seq) : seq[j][2] = tag})
Note(cond, seq, tag) == IF cond \/ NTag(seq, tag) >= 60 THEN seq ELSE Append(seq, <<l, tag>>)
TInit == /\ l = 1 /\ viol = <<>> /\ drift = <<>> /\ nchk = 0 /\ nacross = 0
         /\ s = 0 /\ n = 1 /\ style = "vmem" /\ k = 0 /\ got = 0 /\ res = "none" /\ pc = "trace"
(* the model's functions with the recorded extent R of readable memory *)
ReadableR(rr, a, len) == a + len <= rr
C17R(rr, s0, n0, r, g, prefixOk) ==
  IF ReadableR(rr, s0, n0) THEN r = "ok" /\ g = n0 /\ prefixOk
  ELSE r = "err" \/ (r = "ok" /\ g < n0 /\ prefixOk)
ModelR(rr, st, s0, n0) ==
  CASE st = "vmem" -> IF s0 >= rr THEN [res |-> "err", got |-> 0] ELSE [res |-> "ok", got |-> Min(n0, rr - s0)]
    [] st = "file" -> IF ReadableR(rr, s0, n0) THEN [res |-> "ok", got |-> n0] ELSE [res |-> "err", got |-> 0]
    [] OTHER -> LET full == n0 \div W rem == n0 % W
                    wordsOk == \A j \in 0..(full - 1) : ReadableR(rr, s0 + j * W, W)
                    tailOk == rem = 0 \/ ReadableR(rr, s0 + full * W, W) \/ (TailFix /\ s0 + n0 >= W /\ ReadableR(rr, s0 + n0 - W, W))
                IN IF wordsOk /\ tailOk THEN [res |-> "ok", got |-> n0] ELSE [res |-> "err", got |-> 0]
Info == E.ev = "meminfo" /\ viol' = viol /\ drift' = Note(E.oracleOk, drift, "oracle-pattern") /\ UNCHANGED <<nchk, nacross>>
Read == /\ E.ev = "mem" /\ ~Has(E, "error")
        /\ viol' = Note(C17R(E.R, E.s, E.n, E.res, E.got, E.prefixOk), viol,
                        IF E.res = "panic" THEN "C17-panic"
                        ELSE IF ReadableR(E.R, E.s, E.n) THEN "C17-readable-range-not-returned-" \o E.style ELSE "C17-fabricated-data-" \o E.style)
        /\ drift' = Note([res |-> E.res, got |-> E.got] = ModelR(E.R, E.style, E.s, E.n), drift, "strategy-result")
        /\ nchk' = nchk + 1 /\ nacross' = nacross + (IF ReadableR(E.R, E.s, E.n) THEN 0 ELSE 1)
TNext == l <= Len(Rec) /\ (Info \/ Read) /\ l' = l + 1 /\ UNCHANGED vars
TSpec == TInit /\ [][TNext]_tvars
Verdict == l = Len(Rec) + 1 =>
   PrintT(<<"VERDICT", ToJson([events |-> Len(Rec), checked |-> nchk, across |-> nacross, viol |-> viol, drift |-> drift])>>)
Accepted == TLCGet("stats").diameter = Len(Rec) + 1
=============================================================================
