SPECIFICATION MCSpec
CONSTANTS
  Sizes = {1, 3}
  Counts = {0, 2}
  StrHdr = 2
  UnitSz = 1
  MaxOps = 4
INVARIANT Emit
PROPERTIES LocationIsEndOffset AppendOnly SlotFillLocal ArrayStride ValuePresent
CHECK_DEADLOCK FALSE
