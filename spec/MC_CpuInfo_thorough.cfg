SPECIFICATION Spec
CONSTANTS
  MaxFree = 3
  MaxAround = 2
INVARIANTS LoopIsParse OnlyProcessorIsUpdated
CHECK_DEADLOCK FALSE
