---------------------------- MODULE MC_StatusFile ----------------------------
EXTENDS StatusFile, Json
Emit == pc = "done" => PrintT(<<"REPLAY", ToJson([lines |-> file, want |-> res])>>)
=============================================================================
