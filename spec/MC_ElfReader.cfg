SPECIFICATION Spec
INVARIANTS Total StepsAreFunction Emit
CHECK_DEADLOCK FALSE
