SPECIFICATION Spec
CONSTANT TranslateVaddr = TRUE
CONSTANT RemoteNameCap = FALSE
INVARIANTS Total StepsAreFunction SonameIsTheImages SourceIndependent
CHECK_DEADLOCK FALSE
