SPECIFICATION Spec
CONSTANT TranslateVaddr = TRUE
INVARIANTS Total StepsAreFunction SonameIsTheImages
CHECK_DEADLOCK FALSE
