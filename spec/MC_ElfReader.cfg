SPECIFICATION Spec
CONSTANT TranslateVaddr = TRUE
CONSTANT NoteAlignPerSegment = TRUE
CONSTANT RemoteNameCap = FALSE
INVARIANTS Total StepsAreFunction SonameIsTheImages SourceIndependent
CHECK_DEADLOCK FALSE
