---------------------------- MODULE DirSection ----------------------------
(***************************************************************************)
(* Model of src/dir_section.rs on top of the image buffer: the image, the  *)
(* directory section and the destination (a seekable file positioned at    *)
(* `Start` inside pre-existing content), with every call the writer makes  *)
(* on the destination as a separate step, so that a crash or an I/O error  *)
(* can fall between any two of them (properties C09 and C10).              *)
(*                                                                         *)
(* The stream sequence is the one `generate_dump` drives: allocate header  *)
(* and directory, flush, then per stream: the stream writer appends its    *)
(* bytes (and the blobs it references) and returns a directory entry,      *)
(* `write_to_file(buffer, Some(dirent))` stores the entry in memory, in    *)
(* the file, and appends the unflushed tail.  `FlushFirst` selects the     *)
(* order of "entry" and "tail" inside write_to_file.                       *)
(***************************************************************************)
EXTENDS Naturals, Sequences, FiniteSets, TLC
CONSTANTS NSlots,      \* directory slots
          MaxBody,     \* max cells appended per stream
          Starts,      \* possible initial destination offsets
          TailLen,     \* pre-existing content beyond the start offset
          MaxBlobs,    \* max writers per dump that append bytes without a directory entry
          FlushFirst,  \* TRUE: stream bytes, then directory entry; FALSE: entry first, then bytes
          WriteAll     \* TRUE: the tail is written with write_all (the destination may take it in several pieces, the writer goes on
                       \* only when all of it is accepted); FALSE: one write call, whose partial progress is taken for the whole
VARIABLES img,      \* Seq of cells
          file,     \* Seq of cells (Garbage = pre-existing)
          start,    \* destination offset when the DirSection was created
          fpos,     \* destination position
          hi,       \* end of the furthest write (absolute)
          idx,      \* next directory slot
          flushed,  \* image prefix already appended to the destination
          pc, pending, saved, crashed, nblob
vars == <<img, file, start, fpos, hi, idx, flushed, pc, pending, saved, crashed, nblob>>

HdrLen == 1
DirPos == HdrLen
Zero == <<"Z", 0>>
Ent(i, off, len) == <<"E", i, off, len>>      \* directory entry: stream i occupies [off, off+len)
Body(i) == <<"B", i>>
Garbage == <<"G", 0>>

Init == /\ start \in Starts
        /\ img = <<>> /\ file = [k \in 1..(start + TailLen) |-> Garbage] /\ fpos = start /\ hi = start
        /\ idx = 0 /\ flushed = 0 /\ pc = "alloc" /\ pending = <<>> /\ saved = 0 /\ crashed = FALSE /\ nblob = 0

WriteAt(f, pos, cells) ==   \* write(2) on a seekable file
  LET need == pos + Len(cells)
      base == IF Len(f) >= need THEN f ELSE f \o [k \in 1..(need - Len(f)) |-> Zero]
  IN [k \in 1..Len(base) |-> IF k > pos /\ k <= pos + Len(cells) THEN cells[k - pos] ELSE base[k]]
Max(a, b) == IF a > b THEN a ELSE b

(* MemoryWriter::<MDRawHeader>::alloc ; DirSection::new ; header_section.set_value *)
AllocHeaderAndDir ==
  /\ pc = "alloc"
  /\ img' = <<<<"H", 0>>>> \o [k \in 1..NSlots |-> Zero]
  /\ pc' = "tail" /\ saved' = 0
  /\ UNCHANGED <<file, start, fpos, hi, idx, flushed, pending, crashed, nblob>>

(* destination.write_all(&buffer[last_position_written_to_file..]): the destination accepts the first n cells of what is
   offered (a short write: a full disk, a pipe); write_all offers the rest again.  Short writes are considered once the
   header and the directory are out (before that nothing the property speaks about has reached the destination). *)
AfterTail == IF FlushFirst /\ pending # <<>> THEN "dirent_mem" ELSE "stream"
WriteTail(n) ==
  /\ pc = "tail"
  /\ LET rest == Len(img) - flushed IN
     /\ IF rest = 0 THEN n = 0 ELSE (n = rest \/ (flushed >= HdrLen + NSlots /\ n >= 1 /\ n < rest))
     /\ file' = IF n = 0 THEN file ELSE WriteAt(file, fpos, SubSeq(img, flushed + 1, flushed + n))
     /\ fpos' = fpos + n
     /\ hi' = Max(hi, fpos')
     /\ flushed' = IF WriteAll THEN flushed + n ELSE Len(img)          \* last_position_written_to_file
     /\ pc' = IF n = rest \/ ~WriteAll THEN AfterTail ELSE "tail"
  /\ UNCHANGED <<img, start, idx, pending, saved, crashed, nblob>>

(* a stream writer appends n body cells and returns its directory entry *)
WriteStream(n) ==
  /\ pc = "stream" /\ idx < NSlots
  /\ img' = img \o [k \in 1..n |-> Body(idx)]
  /\ pending' = Ent(idx, Len(img), n)
  /\ pc' = IF FlushFirst THEN "tail" ELSE "dirent_mem"
  /\ UNCHANGED <<file, start, fpos, hi, idx, flushed, saved, crashed, nblob>>
(* a writer that produces nothing for the directory (app memory): write_to_file(buffer, None) *)
WriteBlob(n) ==
  /\ pc = "stream" /\ idx < NSlots /\ n > 0 /\ nblob < MaxBlobs
  /\ img' = img \o [k \in 1..n |-> <<"A", idx>>]
  /\ pending' = <<>> /\ pc' = "tail" /\ nblob' = nblob + 1
  /\ UNCHANGED <<file, start, fpos, hi, idx, flushed, saved, crashed>>

(* dump_dir_entry: section.set_value_at(buffer, dirent, curr_idx) *)
DirentMem ==
  /\ pc = "dirent_mem"
  /\ img' = [img EXCEPT ![DirPos + idx + 1] = pending]
  /\ pc' = "dirent_pos"
  /\ UNCHANGED <<file, start, fpos, hi, idx, flushed, pending, saved, crashed, nblob>>
(* curr_file_pos = destination.stream_position() ; curr_idx += 1 *)
StreamPos ==
  /\ pc = "dirent_pos" /\ saved' = fpos /\ pc' = "dirent_seek"
  /\ UNCHANGED <<img, file, start, fpos, hi, idx, flushed, pending, crashed, nblob>>
(* destination.seek(Start(destination_start_offset + rva of slot)) *)
SeekSlot ==
  /\ pc = "dirent_seek" /\ fpos' = start + DirPos + idx /\ pc' = "dirent_write"
  /\ UNCHANGED <<img, file, start, hi, idx, flushed, pending, saved, crashed, nblob>>
(* destination.write_all(&buffer[slot]) *)
WriteSlot ==
  /\ pc = "dirent_write"
  /\ file' = WriteAt(file, fpos, <<img[DirPos + idx + 1]>>)
  /\ fpos' = fpos + 1 /\ hi' = Max(hi, fpos') /\ pc' = "dirent_back"
  /\ UNCHANGED <<img, start, idx, flushed, pending, saved, crashed, nblob>>
(* destination.seek(Start(curr_file_pos)) *)
SeekBack ==
  /\ pc = "dirent_back" /\ fpos' = saved /\ idx' = idx + 1 /\ pending' = <<>>
  /\ pc' = IF FlushFirst THEN "stream" ELSE "tail"
  /\ UNCHANGED <<img, file, start, hi, flushed, saved, crashed, nblob>>

(* the writer dies, or the destination call about to be made fails and the dump is abandoned *)
Crash == /\ ~crashed /\ pc # "alloc" /\ crashed' = TRUE /\ pc' = "dead"
         /\ UNCHANGED <<img, file, start, fpos, hi, idx, flushed, pending, saved, nblob>>

Next == \/ AllocHeaderAndDir \/ (\E n \in 0..(HdrLen + NSlots + MaxBody) : WriteTail(n)) \/ (\E n \in 0..MaxBody : WriteStream(n) \/ WriteBlob(n))
        \/ DirentMem \/ StreamPos \/ SeekSlot \/ WriteSlot \/ SeekBack \/ Crash
Spec == Init /\ [][Next]_vars

(* ------------------------------ properties ------------------------------ *)
FileImg == SubSeq(file, start + 1, hi)        \* what the destination holds from the start offset on
(* C09: the destination, read from the start offset, equals the image built up to the last flush *)
C09_FlushedPrefixEqual ==
  /\ hi - start >= flushed
  /\ \A k \in 1..flushed : FileImg[k] = img[k] \/ (k > DirPos /\ k <= DirPos + NSlots)   \* slots are compared when quiescent
C09_QuiescentEqual ==
  pc \in {"stream", "dead"} /\ ~(pc = "dead" /\ pending # <<>>) =>
     /\ hi - start = flushed
     /\ \A k \in 1..flushed : FileImg[k] = img[k]
(* ... and no byte before the start offset or beyond the end of the image is modified *)
C09_NothingOutsideImage ==
  /\ \A k \in 1..start : file[k] = Garbage
  /\ hi <= start + Len(img)
  /\ \A k \in (start + Len(img) + 1)..Len(file) : file[k] = Garbage
(* C10: every prefix that can be observed between two destination calls is a consistent truncated dump *)
C10_PrefixConsistent ==
  hi > start =>
     /\ hi - start >= HdrLen + NSlots
     /\ \A s \in 1..NSlots :
          LET e == FileImg[DirPos + s] IN
             e = Zero \/ (e[1] = "E" /\ e[3] + e[4] <= hi - start
                           /\ \A k \in (e[3]+1)..(e[3]+e[4]) : FileImg[k] = Body(e[2]))
C09 == C09_FlushedPrefixEqual /\ C09_QuiescentEqual /\ C09_NothingOutsideImage
=============================================================================
