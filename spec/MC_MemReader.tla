---------------------------- MODULE MC_MemReader ----------------------------
EXTENDS MemReader, Json
Emit == pc = "done" => PrintT(<<"REPLAY", ToJson([s |-> s, n |-> n, style |-> style, res |-> res, got |-> got])>>)
=============================================================================
