SPECIFICATION Spec
CONSTANTS
  MaxNodes = 2
  MaxLines = 2
INVARIANTS C18_DirectFirst C18_OneEntryPerLine C18_HandlesBijective
CHECK_DEADLOCK FALSE
