---------------------------- MODULE Trace_CpuInfo ----------------------------
(* C18 (system information from /proc/cpuinfo) and C11 (failure of that step is soft) on the real writer:
   every recorded dump was taken by a worker that sees a generated /proc/cpuinfo (private mount namespace);
   the decoded system-information stream and the soft-error list must be what CpuInfo!Parse says for
   those lines.  Parse is the declarative reading that MC_CpuInfo proves equal to the transcribed loop. *)
EXTENDS CpuInfo, Json, IOUtils
Rec == ndJsonDeserialize(IOEnv.TRACE)
VARIABLES l, viol, drift, nchk, cnt
tvars == <<vars, l, viol, drift, nchk, cnt>>
E == Rec[l]
NTag(seq, tag) == Cardinality({k \in 1..Len(seq) : seq[k][2] = tag})
Note(cond, seq, tag) == IF cond \/ NTag(seq, tag) >= 60 THEN seq ELSE Append(seq, <<l, tag>>)
TInit == /\ l = 1 /\ viol = <<>> /\ drift = <<>> /\ nchk = 0 /\ cnt = [ok |-> 0, missing |-> 0]
         /\ lines = <<>> /\ i = 1 /\ e = 1 /\ first = TRUE /\ tbl = Tbl0 /\ vendor = "" /\ pc = "trace" /\ res = [ok |-> FALSE]
Case == /\ E.ev = "cpuinfo"
        /\ LET want == Parse(E.lines)
               v1 == Note(E.outcome = "ok", viol, "C11-dump-failed-on-cpuinfo")
               v2 == Note(E.outcome = "ok" => (E.softErr = ~want.ok), v1, "C11-cpu-information-failure-not-reported-exactly")
               v3 == Note(E.outcome = "ok" /\ want.ok => (/\ E.got.nproc = want.nproc /\ E.got.level = want.level
                                                          /\ E.got.revision = want.revision /\ E.got.vendor = want.vendor), v2, "C18-system-information-differs-from-cpuinfo")
           IN viol' = v3
        /\ drift' = drift /\ nchk' = nchk + 1
        /\ cnt' = IF Parse(E.lines).ok THEN [cnt EXCEPT !.ok = @ + 1] ELSE [cnt EXCEPT !.missing = @ + 1]
TNext == l <= Len(Rec) /\ Case /\ l' = l + 1 /\ UNCHANGED vars
TSpec == TInit /\ [][TNext]_tvars
Verdict == l = Len(Rec) + 1 =>
   PrintT(<<"VERDICT", ToJson([events |-> Len(Rec), checked |-> nchk, counts |-> cnt, viol |-> viol, drift |-> drift])>>)
Accepted == TLCGet("stats").diameter = Len(Rec) + 1
=============================================================================
