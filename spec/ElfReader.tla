----------------------------- MODULE ElfReader -----------------------------
(***************************************************************************)
(* Model of the ELF identification in src/linux/module_reader.rs over an   *)
(* ABSTRACT ELF image: which tables exist and whether each range the       *)
(* reader follows is readable.  The build id is tried from the program     *)
(* headers' PT_NOTE, then from the section named .note.gnu.build-id, then  *)
(* generated from the first page of the first executable section; the      *)
(* SONAME from PT_DYNAMIC, then from the SHT_DYNAMIC section.  Every       *)
(* failing read is an error value that sends the reader to the next        *)
(* strategy - never a panic (C14: totality), and for well-formed images    *)
(* the answer is the one an independent reader finds.                      *)
(***************************************************************************)
EXTENDS Naturals, TLC
CONSTANT RemoteNameCap    \* TRUE: of a name in a string table in the target's memory at most a fixed number of bytes is fetched; FALSE: the rest of the table, as from a file
CONSTANT NoteAlignPerSegment   \* TRUE: each PT_NOTE segment is scanned with its own p_align; FALSE: with the first note segment's
CONSTANT TranslateVaddr   \* TRUE: in a file, DT_STRTAB (a virtual address) is translated through the PT_LOAD segment containing it;
                          \* FALSE: it is used as a file offset as it stands
ElfAll == [bits64 : BOOLEAN,
        src    : {"slice", "memory"},                  \* the image as a byte slice / file, or laid out in a process's memory and read through the memory reader
        solen  : {"short", "long"},                    \* DT_SONAME string: a usual name, or one longer than any fixed bound a reader might think of (string tables have none)
        layout : {"identity", "shift_outside", "shift_inside"},   \* virtual address = file offset (+ a shift that puts DT_STRTAB, read as an offset, outside / inside the file)
        phdrs  : {"ok", "absent", "pastend"},
        phNote : {"ok", "absent", "range_bad", "other_note", "late_second"},    \* late_second: an 8-aligned note segment without the id, then a 4-aligned one
                                                                                \* where the id follows a note whose padded size is 4 mod 8
        shdrs  : {"ok", "absent", "pastend"},
        strtab : {"ok", "bad_index", "wrong_type"},
        secNote: {"ok", "absent", "range_bad"},
        text   : {"ok", "absent", "range_bad"},
        dyn    : {"ok", "absent", "unterminated"},     \* unterminated: no DT_NULL within the declared size - not a well-formed dynamic array
        soname : {"ok", "absent", "offset_bad"}]
(* an image in memory is laid out by its PT_LOAD segments: the harness places the file's bytes at the module base, which is that
   layout exactly when virtual addresses equal file offsets; the length of a string only matters where there is one *)
InImage(e) == e.phdrs # "pastend" /\ e.shdrs # "pastend" /\ e.phNote # "range_bad" /\ e.secNote # "range_bad" /\ e.text # "range_bad" /\ e.soname # "offset_bad"
(* ... and a range that leaves the image means, in memory, whatever happens to be mapped behind the module (a partly readable range
   yields part of the data): memory and file are compared on images whose tables lie inside them, as the property does *)
Elf == {e \in ElfAll : /\ (e.src = "memory" => e.layout = "identity" /\ InImage(e)) /\ (e.solen = "long" => e.soname = "ok")
                        /\ (e.phNote = "late_second" => e.dyn = "absent")}        \* (the generated image has three program headers: the second note segment takes the dynamic one's)
NameFits(e) == ~(RemoteNameCap /\ e.src = "memory" /\ e.solen = "long")      \* otherwise no NUL within what was fetched: an error value
(* ---- strategies as steps ---- *)
PhNoteId(e)  == e.phdrs = "ok" /\ (e.phNote = "ok" \/ (e.phNote = "late_second" /\ NoteAlignPerSegment))
SectionId(e) == e.shdrs = "ok" /\ e.strtab = "ok" /\ e.secNote = "ok"
TextId(e)    == e.shdrs = "ok" /\ e.text = "ok"
BuildIdOutcome(e) == IF PhNoteId(e) THEN "ph" ELSE IF SectionId(e) THEN "section" ELSE IF TextId(e) THEN "text" ELSE "err"
(* the program-header strategy: "next" = an error value, the section strategy is tried *)
PhSonameReached(e) == e.phdrs = "ok" /\ e.dyn = "ok" /\ e.soname = "ok"
PhSonameResult(e)  == IF ~PhSonameReached(e) THEN "next"
                      ELSE IF ~NameFits(e) THEN "next"
                      ELSE IF e.layout = "identity" \/ TranslateVaddr THEN "ok"
                      ELSE IF e.layout = "shift_inside" THEN "other"      \* whatever bytes lie at that file offset, up to a NUL
                      ELSE "next"                                        \* beyond the end of the file: an error value
(* the section strategy returns at the DT_SONAME entry, before it would reach the end of an unterminated array; the program-header
   strategy collects three entries over the whole array and fails on the entry it cannot decode *)
SecSoname(e) == e.shdrs = "ok" /\ e.dyn \in {"ok", "unterminated"} /\ e.soname = "ok" /\ NameFits(e)
SonameOutcome(e) == IF PhSonameResult(e) # "next" THEN PhSonameResult(e) ELSE IF SecSoname(e) THEN "ok" ELSE "err"

VARIABLES elf, pc, bid, so
vars == <<elf, pc, bid, so>>
Init == elf \in Elf /\ pc = "ph_note" /\ bid = "none" /\ so = "none"
TryPhNote  == pc = "ph_note" /\ (IF PhNoteId(elf) THEN bid' = "ph" /\ pc' = "ph_soname" ELSE bid' = bid /\ pc' = "sec_note") /\ UNCHANGED <<elf, so>>
TrySecNote == pc = "sec_note" /\ (IF SectionId(elf) THEN bid' = "section" /\ pc' = "ph_soname" ELSE bid' = bid /\ pc' = "text") /\ UNCHANGED <<elf, so>>
TryText    == pc = "text" /\ bid' = (IF TextId(elf) THEN "text" ELSE "err") /\ pc' = "ph_soname" /\ UNCHANGED <<elf, so>>
TryPhSoname == pc = "ph_soname" /\ (IF PhSonameResult(elf) # "next" THEN so' = PhSonameResult(elf) /\ pc' = "done" ELSE so' = so /\ pc' = "sec_soname") /\ UNCHANGED <<elf, bid>>
TrySecSoname == pc = "sec_soname" /\ so' = (IF SecSoname(elf) THEN "ok" ELSE "err") /\ pc' = "done" /\ UNCHANGED <<elf, bid>>
Next == TryPhNote \/ TrySecNote \/ TryText \/ TryPhSoname \/ TrySecSoname
Spec == Init /\ [][Next]_vars
Total == pc = "done" => bid \in {"ph", "section", "text", "err"} /\ so \in {"ok", "err", "other"}
(* C14: what is returned as the SONAME is the image's DT_SONAME string, never some other bytes *)
SonameIsTheImages == pc = "done" => so # "other"
(* C14: reading the same module from target memory and from its file gives the same answers *)
Twin(e) == [e EXCEPT !.src = IF e.src = "memory" THEN "slice" ELSE "memory"]
SourceIndependent == pc = "done" /\ Twin(elf) \in Elf => bid = BuildIdOutcome(Twin(elf)) /\ so = SonameOutcome(Twin(elf))
StepsAreFunction == pc = "done" => bid = BuildIdOutcome(elf) /\ so = SonameOutcome(elf)
=============================================================================
