----------------------------- MODULE MC_DirOps -----------------------------
EXTENDS DirOps, Json
VARIABLE hist
mcvars == <<vars, hist>>
Exp == [imgLen |-> imgLen', flushed |-> flushed', idx |-> idx', fpos |-> fpos', fileHi |-> fileHi']
Log(r) == hist' = Append(hist, r @@ [exp |-> Exp])
MCInit == Init /\ hist = <<[op |-> "new", start |-> start, slots |-> NSlots]>>
MCNext == /\ nops < MaxOps
          /\ \/ \E n \in Sizes : Grow(n) /\ Log([op |-> "grow", n |-> n])
             \/ FlushNone /\ Log([op |-> "flush", entry |-> FALSE, calls |-> CallsOf(FALSE)])
             \/ FlushEntry /\ Log([op |-> "flush", entry |-> TRUE, off |-> lastGrow.off, len |-> lastGrow.len, calls |-> CallsOf(TRUE)])
MCSpec == MCInit /\ [][MCNext]_mcvars
Emit == nops = MaxOps => PrintT(<<"REPLAY", ToJson(hist)>>)
=============================================================================
