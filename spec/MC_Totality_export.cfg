SPECIFICATION Spec
CONSTANTS
  BoundedWalk = TRUE
  MaxLinkMaps = 4
  NNodes = 2
  StopOnDecodeError = TRUE
INVARIANTS Total NoDevOpen WalkBounded Emit
CHECK_DEADLOCK FALSE
