SPECIFICATION Spec
CONSTANTS
  BoundedWalk = TRUE
  MaxLinkMaps = 4
  NNodes = 2
INVARIANTS Total NoDevOpen WalkBounded Emit
CHECK_DEADLOCK FALSE
