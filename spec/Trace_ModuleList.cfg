SPECIFICATION TSpec
CONSTANTS
  MaxMaps = 0
INVARIANT Verdict
POSTCONDITION Accepted
CHECK_DEADLOCK FALSE
