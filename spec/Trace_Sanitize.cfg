SPECIFICATION TSpec
CONSTANTS
  BucketSize = 2097152
  NBits = 2048
  Small = 4096
  SignedSmall = TRUE
  Layouts = {}
  WordPool = {}
  MaxWords = 0
INVARIANT Verdict
POSTCONDITION Accepted
CHECK_DEADLOCK FALSE
