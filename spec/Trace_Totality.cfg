SPECIFICATION TSpec
CONSTANTS
  BoundedWalk = TRUE
  MaxLinkMaps = 4
  NNodes = 2
INVARIANT Verdict
POSTCONDITION Accepted
CHECK_DEADLOCK FALSE
