SPECIFICATION TSpec
CONSTANTS
  BoundedWalk = TRUE
  MaxLinkMaps = 4
  NNodes = 2
  StopOnDecodeError = TRUE
  CheckedDeadline = TRUE
  CheckedExtent = TRUE
  SatWindow = TRUE
  WaitHasDeadline = FALSE
INVARIANT Verdict
POSTCONDITION Accepted
CHECK_DEADLOCK FALSE
