------------------------------ MODULE SanitizeAp ------------------------------
(***************************************************************************)
(* Two arithmetic facts sanitize_stack_copy (ptrace_dumper.rs) rests on,   *)
(* over full 64-bit words (Sanitize.tla checks small instances with TLC):  *)
(*                                                                         *)
(* 1. the "small integer" test.  A stack word w in 0 .. 2^64 - 1 is kept   *)
(*    when, read as a signed number, it lies in -4096 .. 4096.  `Signed`   *)
(*    = TRUE is the code (isize comparison); FALSE the code before fix 1   *)
(*    (unsigned comparison: the negative ones were defaced).               *)
(*                                                                         *)
(* 2. the pre-filter.  For every executable mapping [s, s + n) the bits    *)
(*    (k mod 2048) for k = s >> 21 ..= (s + n) >> 21 are set; a word a is  *)
(*    looked up in the mappings only if bit (a >> 21) mod 2048 is set.     *)
(*    Sound = every address inside the mapping finds its bit set.          *)
(*    `Trunc32` = TRUE is the seeded variant that truncates s and s + n to *)
(*    32 bits before shifting (a mapping across a 4 GiB-aligned address    *)
(*    then sets no bit at all).                                            *)
(***************************************************************************)
EXTENDS Integers, Apalache
CONSTANTS
  \* @type: Bool;
  Signed,
  \* @type: Bool;
  Trunc32
VARIABLES
  \* @type: Int;
  w,
  \* @type: Bool;
  kept,
  \* @type: Int;
  s,
  \* @type: Int;
  n,
  \* @type: Int;
  a,
  \* @type: Bool;
  bitSet

W64 == 18446744073709551616          \* 2^64
W32 == 4294967296
B21 == 2097152                       \* 2^21
ConstInit == Signed \in {TRUE} /\ Trunc32 \in {FALSE}
ConstInitUnsigned == Signed \in {FALSE} /\ Trunc32 \in {FALSE}
ConstInitTrunc == Signed \in {TRUE} /\ Trunc32 \in {TRUE}
AsSigned(x) == IF x < W64 \div 2 THEN x ELSE x - W64
Lo == IF Trunc32 THEN (s % W32) \div B21 ELSE s \div B21
Hi == IF Trunc32 THEN ((s + n) % W32) \div B21 ELSE (s + n) \div B21
(* bit b (0..2047) is set by the loop `for k in Lo..=Hi { set k mod 2048 }` *)
Covered(b) == Lo <= Hi /\ (Hi - Lo >= 2047 \/ (b - Lo) % 2048 <= Hi - Lo)
Init == /\ w \in Nat /\ w < W64
        /\ kept = (IF Signed THEN AsSigned(w) <= 4096 /\ AsSigned(w) >= -4096 ELSE w <= 4096)
        /\ s \in Nat /\ n \in Nat /\ a \in Nat /\ n >= 1 /\ s + n < W64 /\ s <= a /\ a < s + n
        /\ bitSet = Covered((a \div B21) % 2048)
Next == UNCHANGED <<w, kept, s, n, a, bitSet>>
C12_SmallIntKept == kept = (w <= 4096 \/ w >= W64 - 4096)
C12_PrefilterSound == bitSet
=============================================================================
