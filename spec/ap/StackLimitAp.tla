---------------------------- MODULE StackLimitAp ----------------------------
(***************************************************************************)
(* The size-limited branch of fill_thread_stack (thread_list_stream.rs)    *)
(* over unbounded integers: the region [start, start + len) that           *)
(* get_stack_info found, the stack pointer sp, the cap.  C06: the region   *)
(* that is kept lies inside the one found, is no longer than the cap, and  *)
(* contains the stack pointer whenever the region found did - for EVERY    *)
(* address, length and cap (StackSel checks 4-page instances with TLC).    *)
(* `ChunkSkip` = FALSE is the code before fix a56f9d3 (keep the first cap  *)
(* bytes): Apalache then finds sp = start + cap.                           *)
(***************************************************************************)
EXTENDS Integers, Apalache
CONSTANTS
  \* @type: Bool;
  ChunkSkip
VARIABLES
  \* @type: Int;
  start,
  \* @type: Int;
  len,
  \* @type: Int;
  sp,
  \* @type: Int;
  cap,
  \* @type: Int;
  keptStart,
  \* @type: Int;
  keptLen

ConstInit == ChunkSkip \in {TRUE}
ConstInitOld == ChunkSkip \in {FALSE}
SatSub(a, b) == IF a >= b THEN a - b ELSE 0
Min(a, b) == IF a <= b THEN a ELSE b
Skipped == IF ChunkSkip THEN (SatSub(sp, start) \div cap) * cap ELSE 0
Init == /\ start \in Nat /\ len \in Nat /\ sp \in Nat /\ cap \in Nat
        /\ len >= 1 /\ cap >= 1
        /\ (sp < start \/ sp < start + len)            \* get_stack_info: the region found contains sp, or begins above it (guard page)
        /\ IF len > cap
             THEN keptStart = start + Skipped /\ keptLen = Min(len - Skipped, cap)
             ELSE keptStart = start /\ keptLen = len
Next == UNCHANGED <<start, len, sp, cap, keptStart, keptLen>>
C06_Limited ==
  /\ start <= keptStart /\ keptStart + keptLen <= start + len /\ keptLen >= 1
  /\ (len > cap => keptLen <= cap)
  /\ (start <= sp /\ sp < start + len => keptStart <= sp /\ sp < keptStart + keptLen)
  /\ (sp < start => keptStart = start)
=============================================================================
