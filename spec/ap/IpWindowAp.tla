----------------------------- MODULE IpWindowAp -----------------------------
(***************************************************************************)
(* The window of memory kept around the crashing instruction pointer       *)
(* (thread_list_stream::write): the mapping [ms, ms + mn) that contains    *)
(* ip, W bytes wanted, half before and half after ip, "whatever's          *)
(* available".  Machine words 0..Top, for ANY Top, mapping and ip.         *)
(*   start = max(ms, ip - W/2)       end = min(ms + mn, ip + W/2)          *)
(* `SatArith` says how ip - W/2 and ip + W/2 are formed: TRUE = saturating *)
(* at 0 and Top; FALSE = plain `-` / `+`, which (with overflow checks, the *)
(* profile the checks build) is a panic when ip < W/2 - a page mapped at   *)
(* address 0, legal for a privileged process or with vm.mmap_min_addr = 0 -*)
(* or ip > Top - W/2.  C07: the window is the intersection of              *)
(* [ip - W/2, ip + W/2) with the mapping; C02: no panic.                   *)
(***************************************************************************)
EXTENDS Integers, Apalache
CONSTANTS
  \* @type: Bool;
  SatArith
VARIABLES
  \* @type: Int;
  top,
  \* @type: Int;
  ms,
  \* @type: Int;
  mn,
  \* @type: Int;
  ip,
  \* @type: Int;
  half,
  \* @type: Str;
  outcome,
  \* @type: Int;
  ws,
  \* @type: Int;
  we

ConstInit == SatArith \in {TRUE}
ConstInitPlain == SatArith \in {FALSE}
Max(a, b) == IF a >= b THEN a ELSE b
Min(a, b) == IF a <= b THEN a ELSE b
Lo == IF ip >= half THEN ip - half ELSE 0
Hi == IF ip + half <= top THEN ip + half ELSE top
Panics == ~SatArith /\ (ip < half \/ ip + half > top)
Init == /\ top \in Nat /\ ms \in Nat /\ mn \in Nat /\ ip \in Nat /\ half \in Nat
        /\ half >= 1 /\ mn >= 1 /\ ms + mn <= top /\ ms <= ip /\ ip < ms + mn
        /\ IF Panics THEN outcome = "panic" /\ ws = 0 /\ we = 0
           ELSE outcome = "ok" /\ ws = Max(ms, Lo) /\ we = Min(ms + mn, Hi)
Next == UNCHANGED <<top, ms, mn, ip, half, outcome, ws, we>>
C02_NoPanic == outcome # "panic"
C07_Window == outcome = "ok" =>
   /\ ws <= ip /\ ip < we /\ we - ws <= 2 * half                    \* contains ip, at most W bytes
   /\ ms <= ws /\ we <= ms + mn                                     \* inside the mapping
   /\ (ws = ip - half \/ ws = ms) /\ (we = ip + half \/ we = ms + mn \/ we = top)     \* all that is available
=============================================================================
