--------------------------- MODULE UserContainAp ---------------------------
(***************************************************************************)
(* UserContain (is_contained_in with saturating extents) for Apalache: the *)
(* address space bound Top is ANY positive integer (not the 4 of TLC's     *)
(* instance), the caller's list any sequence of up to three mappings.      *)
(* IndInv is inductive (Init => IndInv; IndInv /\ Next => IndInv') and     *)
(* implies C08_SuppressedIffContained; so the loop decides containment     *)
(* for every word size.                                                    *)
(***************************************************************************)
EXTENDS Integers, Sequences, Apalache
CONSTANTS
  \* @type: Int;
  Top
VARIABLES
  \* @type: {s: Int, n: Int};
  m,
  \* @type: Seq({s: Int, n: Int});
  users,
  \* @type: Int;
  k,
  \* @type: Str;
  res,
  \* @type: Str;
  pc

ConstInit == Top \in Nat /\ Top >= 1
\* @type: ({s: Int, n: Int}, {s: Int, n: Int}) => Bool;
Contains(u, t) == u.s <= t.s /\ t.s + t.n <= u.s + u.n
ContainedDecl == \E j \in DOMAIN users : Contains(users[j], m)
\* @type: ({s: Int, n: Int}) => Int;
End(r) == IF r.s + r.n > Top THEN Top ELSE r.s + r.n          \* saturating_add

WellFormed == /\ m.s >= 0 /\ m.n >= 1 /\ m.s + m.n <= Top      \* a mapping of the target fits into the address space
              /\ \A j \in DOMAIN users : users[j].s >= 0 /\ users[j].s <= Top /\ users[j].n >= 1 /\ users[j].n <= Top
Init == /\ m = Gen(1) /\ users = Gen(3) /\ WellFormed
        /\ k = 1 /\ res = "none" /\ pc = "loop"
Step == /\ pc = "loop"
        /\ IF k > Len(users) THEN pc' = "done" /\ res' = "false" /\ UNCHANGED k
           ELSE IF m.s >= users[k].s /\ End(m) <= End(users[k]) THEN pc' = "done" /\ res' = "true" /\ UNCHANGED k
           ELSE k' = k + 1 /\ UNCHANGED <<pc, res>>
        /\ UNCHANGED <<m, users>>
Done == pc = "done" /\ UNCHANGED <<m, users, k, res, pc>>       \* (stutter: a terminated run is not a deadlock)
Next == Step \/ Done

IndInv == /\ WellFormed
          /\ pc \in {"loop", "done"}
          /\ pc = "loop" => /\ res = "none" /\ k >= 1 /\ k <= Len(users) + 1
                            /\ \A j \in DOMAIN users : j < k => ~Contains(users[j], m)
          /\ pc = "done" => /\ res \in {"true", "false"}
                            /\ (res = "true") = ContainedDecl
IndInit == /\ m = Gen(1) /\ users = Gen(3) /\ k = Gen(1) /\ res = Gen(1) /\ pc = Gen(1) /\ IndInv
C08_SuppressedIffContained == pc = "done" => (res = "true") = ContainedDecl
=============================================================================
