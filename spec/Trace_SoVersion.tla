--------------------------- MODULE Trace_SoVersion ---------------------------
(* Every abstract component sequence of SoVersion (exported by TLC), written out as a file name and parsed by the crate: the
   four fields must be the ones the transcribed loop computes.  Conformance only: no listed property speaks about versions,
   so a difference is MODEL-DRIFT; a panic is a violation of C02 wherever it comes from and is judged there. *)
EXTENDS SoVersion, Json, IOUtils, FiniteSets
Rec == ndJsonDeserialize(IOEnv.TRACE)
VARIABLES l, viol, drift, nchk
tvars == <<vars, l, viol, drift, nchk>>
E == Rec[l]
NTag(seq, tag) == Cardinality({k \in 1..Len(seq) : seq[k][2] = tag})
Note(cond, seq, tag) == IF cond \/ NTag(seq, tag) >= 60 THEN seq ELSE Append(seq, <<l, tag>>)
TInit == l = 1 /\ viol = <<>> /\ drift = <<>> /\ nchk = 0 /\ comps = <<>> /\ i = 0 /\ sov = Zero /\ pc = "trace"
Case == /\ E.ev = "sover"
        /\ LET c == [k \in 1..Len(E.kinds) |-> E.kinds[k]]
           IN drift' = Note(E.got = Run(c, 0, Zero), drift, "version-fields")
        /\ viol' = viol /\ nchk' = nchk + 1
TNext == l <= Len(Rec) /\ Case /\ l' = l + 1 /\ UNCHANGED vars
TSpec == TInit /\ [][TNext]_tvars
Verdict == l = Len(Rec) + 1 =>
   PrintT(<<"VERDICT", ToJson([events |-> Len(Rec), checked |-> nchk, viol |-> viol, drift |-> drift])>>)
Accepted == TLCGet("stats").diameter = Len(Rec) + 1
=============================================================================
