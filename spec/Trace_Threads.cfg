SPECIFICATION TSpec
CONSTANTS
  P = 4096
  Cap = 2048
  GuardPages = 256
  BaseThreads = 20
  ChunkSkip = TRUE
  HalfOpen = TRUE
  MaxAddr = 0
  Layouts = {}
INVARIANT Verdict
POSTCONDITION Accepted
CHECK_DEADLOCK FALSE
