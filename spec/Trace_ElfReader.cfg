SPECIFICATION TSpec
CONSTANT TranslateVaddr = TRUE
CONSTANT NoteAlignPerSegment = TRUE
CONSTANT RemoteNameCap = FALSE
INVARIANT Verdict
POSTCONDITION Accepted
CHECK_DEADLOCK FALSE
