SPECIFICATION TSpec
CONSTANT TranslateVaddr = TRUE
INVARIANT Verdict
POSTCONDITION Accepted
CHECK_DEADLOCK FALSE
