SPECIFICATION TSpec
CONSTANT TranslateVaddr = TRUE
CONSTANT RemoteNameCap = FALSE
INVARIANT Verdict
POSTCONDITION Accepted
CHECK_DEADLOCK FALSE
