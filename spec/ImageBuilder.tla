--------------------------- MODULE ImageBuilder ---------------------------
(***************************************************************************)
(* Model of src/mem_writer.rs: `Buffer` (an append-only byte vector that   *)
(* is the minidump image) and the typed writers layered on it              *)
(* (`MemoryWriter<T>`, `MemoryArrayWriter<T>`, `write_string_to_location`).*)
(*                                                                         *)
(* One action per public operation; the two private primitives `reserve`   *)
(* and `write_at` are transcribed as operators and the public operations   *)
(* are composed from them exactly as in the code (e.g. `alloc_from_array`  *)
(* is `reserve` followed by one `write_at` per element), so that the       *)
(* layout laws of property C16 are *consequences* TLC has to check, not    *)
(* definitions.                                                            *)
(***************************************************************************)
EXTENDS Naturals, Sequences, FiniteSets, TLC, ImageLaws

CONSTANTS Sizes,     \* serialized element sizes the typed writers are used with
          Counts,    \* array lengths / byte-slice lengths / string unit counts
          StrHdr,    \* size of the string length prefix (4 in the code)
          UnitSz,    \* size of one UTF-16 code unit (2 in the code)
          MaxOps     \* bound on the history length (model checking only)

VARIABLES img,       \* Seq of cells; cell <<w, k>> = k-th cell of the value written by operation w; <<0,0>> = zero fill
          slots,     \* operation index |-> [off, sz, n] for operations that returned a writer
          nops,      \* operations performed so far
          last       \* what the last operation returned and touched
vars == <<img, slots, nops, last>>

Zeros(n)  == [k \in 1..n |-> <<0, 0>>]
Val(w, n) == [k \in 1..n |-> <<w, k>>]

(* ---- Buffer primitives (mem_writer.rs:55-92) ---- *)
Reserve(b, n) == b \o Zeros(n)                      \* returns the mark Len(b)
WriteAt(b, off, cells) ==                           \* extend by the shortfall, then overwrite in place
  LET remainder == Len(b) - off
      grown == IF remainder < Len(cells) THEN b \o Zeros(Len(cells) - remainder) ELSE b
  IN  [k \in 1..Len(grown) |-> IF k > off /\ k <= off + Len(cells) THEN cells[k - off] ELSE grown[k]]

RECURSIVE WriteElems(_, _, _, _, _, _)
WriteElems(b, pos, sz, n, w, idx) ==                \* the `for (idx, val)` loop of alloc_from_array / alloc_from_iter
  IF idx >= n THEN b
  ELSE WriteElems(WriteAt(b, pos + idx * sz, [k \in 1..sz |-> <<w, idx * sz + k>>]), pos, sz, n, w, idx + 1)

Init == /\ img = <<>> /\ slots = <<>> /\ nops = 0
        /\ last = [kind |-> "none", off |-> 0, size |-> 0, lo |-> 0, hi |-> 0, h |-> 0, i |-> 0]

Appended(b2, size) ==
  [kind |-> "append", off |-> Len(img), size |-> size, lo |-> Len(img), hi |-> Len(b2), h |-> 0, i |-> 0]
NewSlot(sz, n) == slots' = Append(slots, [off |-> Len(img), sz |-> sz, n |-> n])
NoSlot == slots' = Append(slots, [off |-> 0, sz |-> 0, n |-> 0])

(* MemoryWriter::alloc *)
Alloc(sz) ==
  LET b2 == Reserve(img, sz) IN
  /\ img' = b2 /\ NewSlot(sz, 1) /\ last' = Appended(b2, sz) /\ nops' = nops + 1
(* MemoryWriter::alloc_with_val *)
AllocVal(sz) ==
  LET b2 == WriteAt(img, Len(img), Val(nops + 1, sz)) IN
  /\ img' = b2 /\ NewSlot(sz, 1) /\ last' = Appended(b2, sz) /\ nops' = nops + 1
(* MemoryWriter::set_value *)
SetValue(h) ==
  /\ h \in 1..Len(slots) /\ slots[h].n = 1 /\ slots[h].sz > 0
  /\ LET s == slots[h] b2 == WriteAt(img, s.off, Val(nops + 1, s.sz)) IN
     /\ img' = b2 /\ NoSlot /\ nops' = nops + 1
     /\ last' = [kind |-> "fill", off |-> s.off, size |-> s.sz, lo |-> s.off, hi |-> s.off + s.sz, h |-> h, i |-> 0]
(* MemoryArrayWriter::alloc_array *)
AllocArray(sz, n) ==
  LET b2 == Reserve(img, n * sz) IN
  /\ img' = b2 /\ NewSlot(sz, n) /\ last' = Appended(b2, n * sz) /\ nops' = nops + 1
(* MemoryArrayWriter::alloc_from_array / alloc_from_iter *)
AllocFrom(sz, n) ==
  LET b2 == WriteElems(Reserve(img, n * sz), Len(img), sz, n, nops + 1, 0) IN
  /\ img' = b2 /\ NewSlot(sz, n) /\ last' = Appended(b2, n * sz) /\ nops' = nops + 1
(* MemoryArrayWriter::set_value_at (in contract: i < n) *)
SetAt(h, i) ==
  /\ h \in 1..Len(slots) /\ slots[h].sz > 0 /\ i < slots[h].n
  /\ LET s == slots[h] b2 == WriteAt(img, s.off + s.sz * i, Val(nops + 1, s.sz)) IN
     /\ img' = b2 /\ NoSlot /\ nops' = nops + 1
     /\ last' = [kind |-> "fill", off |-> s.off + s.sz * i, size |-> s.sz,
                 lo |-> s.off + s.sz * i, hi |-> s.off + s.sz * (i + 1), h |-> h, i |-> i]
(* MemoryArrayWriter::<u8>::write_bytes *)
Bytes(n) ==
  LET b2 == img \o Val(nops + 1, n) IN
  /\ img' = b2 /\ NoSlot /\ last' = Appended(b2, n) /\ nops' = nops + 1
(* write_string_to_location: header (alloc_with_val), alloc_array of units, set_value_at per unit *)
RECURSIVE SetUnits(_, _, _, _, _)
SetUnits(b, pos, u, w, idx) ==
  IF idx >= u THEN b
  ELSE SetUnits(WriteAt(b, pos + UnitSz * idx, [k \in 1..UnitSz |-> <<w, StrHdr + idx * UnitSz + k>>]), pos, u, w, idx + 1)
String(u) ==
  LET b1 == WriteAt(img, Len(img), Val(nops + 1, StrHdr))
      b2 == Reserve(b1, u * UnitSz)
      b3 == SetUnits(b2, Len(b1), u, nops + 1, 0)
  IN /\ img' = b3 /\ NoSlot /\ last' = Appended(b3, StrHdr + u * UnitSz) /\ nops' = nops + 1

Next == \/ \E sz \in Sizes : Alloc(sz) \/ AllocVal(sz)
        \/ \E sz \in Sizes, n \in Counts : AllocArray(sz, n) \/ AllocFrom(sz, n)
        \/ \E n \in Counts : Bytes(n) \/ String(n)
        \/ \E h \in 1..Len(slots) : SetValue(h) \/ \E i \in 0..2 : SetAt(h, i)
Spec == Init /\ [][Next]_vars

(* ------------------------- property C16 ------------------------- *)
(* Reserving/writing appends exactly the serialized size at the current end and returns that
   offset and size. *)
LocationIsEndOffset ==
  [][last'.kind = "append" =>
        /\ AppendLaw(Len(img), last'.size, last'.off, last'.size, Len(img'))
        /\ last'.hi = Len(img')]_vars
(* Never moves or alters earlier bytes; a fill changes only its slot. *)
AppendOnly ==
  [][/\ Len(img') >= Len(img)
     /\ \A k \in 1..Len(img) : (k <= last'.lo \/ k > last'.hi) => img'[k] = img[k]]_vars
SlotFillLocal ==
  [][last'.kind = "fill" =>
        /\ Len(img') = Len(img)
        /\ LET s == slots[last'.h] IN /\ last'.lo = ElemLo(s.off, s.sz, last'.i) /\ last'.hi = ElemHi(s.off, s.sz, last'.i)
                                      /\ last'.hi <= s.off + s.sz * s.n]_vars
(* Element i of an array lives at base + i * element size. *)
ArrayStride ==
  [][last'.kind = "fill" =>
        LET s == slots[last'.h] IN
        \A k \in 1..s.sz : img'[s.off + last'.i * s.sz + k] = <<nops', k>>]_vars
(* A value written is present, in order, at the returned location (serialization is complete). *)
ValuePresent ==
  [][last'.kind = "append" /\ last'.size > 0 =>
        \A k \in 1..last'.size : img'[last'.off + k] \in {<<0, 0>>, <<nops', k>>}]_vars
=============================================================================
