SPECIFICATION TSpec
CONSTANTS
  MaxLines = 4
INVARIANT Verdict
POSTCONDITION Accepted
CHECK_DEADLOCK FALSE
