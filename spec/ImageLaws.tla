----------------------------- MODULE ImageLaws -----------------------------
(* The layout laws of property C16 as pure predicates over numbers, shared by the model
   (ImageBuilder checks that its cell-level transcription of mem_writer.rs satisfies them) and by
   the trace specification (which evaluates them on values observed from the real code).       *)
EXTENDS Integers
(* appending `size` bytes at image length `before` returned location (off, rsize) and left length `after` *)
AppendLaw(before, size, off, rsize, after) == off = before /\ rsize = size /\ after = before + size
(* the bytes that differ between the image before and after lie inside [lo, hi) (chgLo = -1: none differ) *)
TouchedWithin(lo, hi, chgLo, chgHi) == chgLo = -1 \/ (chgLo >= lo /\ chgHi <= hi)
(* element i of an array with base `off` and element size `sz` *)
ElemLo(off, sz, i) == off + i * sz
ElemHi(off, sz, i) == off + (i + 1) * sz
(* a string of `bmp` BMP scalars and `astral` supplementary ones: 4-byte length + UTF-16LE units *)
StringUnits(bmp, astral) == bmp + 2 * astral
StringBytes(hdr, unit, bmp, astral) == hdr + unit * StringUnits(bmp, astral)
=============================================================================
