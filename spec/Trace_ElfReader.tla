--------------------------- MODULE Trace_ElfReader ---------------------------
(* C14 on the real readers: totality on every input (generated images for every path of ElfReader,
   numeric corruption of every header field, random bytes, the machine's ELF files, live mappings),
   agreement with the independent reader, agreement memory vs file; conformance with ElfReader's
   decision function for the generated images.                                                  *)
EXTENDS ElfReader, Integers, Sequences, FiniteSets, Json, IOUtils
Rec == ndJsonDeserialize(IOEnv.TRACE)
VARIABLES l, viol, drift, nchk, cnt
tvars == <<vars, l, viol, drift, nchk, cnt>>
E == Rec[l]
NTag(seq, tag) == Cardinality({k \in 1..Len(seq) : seq[k][2] = tag})
Note(cond, seq, tag) == IF cond \/ NTag(seq, tag) >= 60 THEN seq ELSE Append(seq, <<l, tag>>)
TInit == /\ l = 1 /\ viol = <<>> /\ drift = <<>> /\ nchk = 0 /\ cnt = [elf |-> 0, fuzz |-> 0, sys |-> 0, live |-> 0]
         /\ elf = [bits64 |-> TRUE] /\ pc = "trace" /\ bid = "none" /\ so = "none"
Returned(e) == e.bid # "hang" /\ e.so # "hang"          \* the harness gives each reader 3 s (normal: microseconds)
Gen == /\ E.ev = "elf"
       /\ LET v0 == Note(Returned(E), viol, "C14-reader-did-not-return")
              v1 == Note(E.bid # "panic" /\ E.so # "panic", v0, "C14-panic")
              \* the image is a well-formed ELF lacking features at most: the answers must be the independent reader's
              v2 == Note(E.bid \notin {"panic", "hang"} => E.bid = E.oracleBid, v1, "C14-build-id-differs-from-independent-reader")
              v3 == Note(E.so \notin {"panic", "hang"} /\ E.flags.dyn # "unterminated" => E.so = E.oracleSo, v2, "C14-soname-differs-from-independent-reader")
              v4 == Note(E.fileSame, v3, "C14-file-and-slice-disagree")
          IN viol' = v4
       /\ drift' = Note(E.bid = BuildIdOutcome(E.flags) /\ E.so = SonameOutcome(E.flags), drift, "strategy")
       /\ cnt' = [cnt EXCEPT !.elf = @ + 1] /\ nchk' = nchk + 1
Fuzz == /\ E.ev = "fuzz"
        /\ viol' = Note(E.bid # "panic" /\ E.so # "panic", Note(Returned(E), viol, "C14-reader-did-not-return"), IF E.kind = "bytes" THEN "C14-panic-on-random-bytes" ELSE "C14-panic-on-corrupted-header-field")
        /\ drift' = drift /\ cnt' = [cnt EXCEPT !.fuzz = @ + 1] /\ nchk' = nchk + 1
Sys == /\ E.ev = "sys"
       /\ viol' = Note(E.bid # "panic" /\ E.so # "panic", Note(E.bidAgree /\ E.soAgree, Note(Returned(E), viol, "C14-reader-did-not-return"), "C14-system-file-differs-from-independent-reader"), "C14-panic")
       /\ drift' = drift /\ cnt' = [cnt EXCEPT !.sys = @ + 1] /\ nchk' = nchk + 1
Live == /\ E.ev = "live"
        /\ viol' = Note(~E.panic /\ E.idSame /\ E.soSame, viol, "C14-memory-and-file-disagree")
        /\ drift' = drift /\ cnt' = [cnt EXCEPT !.live = @ + 1] /\ nchk' = nchk + 1
TNext == l <= Len(Rec) /\ (Gen \/ Fuzz \/ Sys \/ Live) /\ l' = l + 1 /\ UNCHANGED vars
TSpec == TInit /\ [][TNext]_tvars
Verdict == l = Len(Rec) + 1 =>
   PrintT(<<"VERDICT", ToJson([events |-> Len(Rec), checked |-> nchk, counts |-> cnt, viol |-> viol, drift |-> drift])>>)
Accepted == TLCGet("stats").diameter = Len(Rec) + 1
=============================================================================
