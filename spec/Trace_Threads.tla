---------------------------- MODULE Trace_Threads ----------------------------
(* Judges what real dumps record about threads, crash attribution and memory:
     c04t  register fidelity of one listed thread (context vs. registers read by the harness's own ptrace)
     c04l  completeness of the thread list (tids vs. the kernel's task list)
     c05   crash attribution (exception record / context vs. the supplied crash context)
     c06t  the captured stack region of one thread (vs. StackSel: get_stack_info + size limit)
     c20t  inclusion of one thread's stack under skip-if-unreferenced
     c07   the memory list (app regions, stacks, IP window, bytes)
   Values of 64 bits are sequences of four 16-bit limbs (little end first); addresses that the
   properties compare arithmetically are offsets relative to a base chosen per event.          *)
EXTENDS StackSel, Json, IOUtils
Rec == ndJsonDeserialize(IOEnv.TRACE)
VARIABLES l, viol, drift, nchk, cnt
tvars == <<vars, l, viol, drift, nchk, cnt>>
E == Rec[l]
Has(r, f) == f \in DOMAIN r
NTag(seq, tag) == Cardinality({k \in 1..Len(seq) : seq[k][2] = tag})
Note(cond, seq, tag) == IF cond \/ NTag(seq, tag) >= 60 THEN seq ELSE Append(seq, <<l, tag>>)
TInit == /\ l = 1 /\ viol = <<>> /\ drift = <<>> /\ nchk = 0 /\ cnt = [c04t |-> 0, c04l |-> 0, c05 |-> 0, c06t |-> 0, c20t |-> 0, c07 |-> 0, shortened |-> 0, excluded |-> 0]
         /\ maps = <<>> /\ sp = 0 /\ idx = 0 /\ limited = FALSE /\ isCrash = FALSE /\ ip = 0 /\ words = <<>> /\ prin = [low |-> 0, high |-> 0]
         /\ cur = 0 /\ steps = 0 /\ region = NoRegion /\ included = FALSE /\ pc = "trace"
Low(v, n) == SubSeq(v, 1, n)                 \* the low n limbs
Zero4 == <<0, 0, 0, 0>>
Byte(v) == <<v[1] % 256, 0, 0, 0>>

(* ---- register maps as data: context field |-> <<source field, number of 16-bit limbs kept (0 = low byte)>> ---- *)
GprMap == [rax |-> "rax", rbx |-> "rbx", rcx |-> "rcx", rdx |-> "rdx", rsi |-> "rsi", rdi |-> "rdi", rbp |-> "rbp", rsp |-> "rsp",
           r8 |-> "r8", r9 |-> "r9", r10 |-> "r10", r11 |-> "r11", r12 |-> "r12", r13 |-> "r13", r14 |-> "r14", r15 |-> "r15", rip |-> "rip"]
Trunc(v, n) == IF n = 0 THEN Byte(v) ELSE [k \in 1..4 |-> IF k <= n THEN v[k] ELSE 0]
(* PTRACE registers -> CONTEXT_AMD64 (thread_info/x86.rs:232-301) *)
FromPtrace == [cs |-> <<"cs", 1>>, ds |-> <<"ds", 1>>, es |-> <<"es", 1>>, fs |-> <<"fs", 1>>, gs |-> <<"gs", 1>>, ss |-> <<"ss", 1>>,
               eflags |-> <<"eflags", 2>>, dr0 |-> <<"dr0", 4>>, dr1 |-> <<"dr1", 4>>, dr2 |-> <<"dr2", 4>>, dr3 |-> <<"dr3", 4>>,
               dr6 |-> <<"dr6", 4>>, dr7 |-> <<"dr7", 4>>,
               fp_control_word |-> <<"cwd", 1>>, fp_status_word |-> <<"swd", 1>>, fp_tag_word |-> <<"ftw", 0>>, fp_error_opcode |-> <<"fop", 1>>,
               fp_error_offset |-> <<"fp_rip", 2>>, fp_data_offset |-> <<"fp_rdp", 2>>, fp_mx_csr |-> <<"mxcsr", 2>>, fp_mx_csr_mask |-> <<"mxcr_mask", 2>>]
(* ucontext / fpstate -> CONTEXT_AMD64 (crash_context/x86_64.rs:20-77); cs/gs/fs are the limbs of REG_CSGSFS *)
FromUcontext == [eflags |-> <<"efl", 2>>,
                 fp_control_word |-> <<"cwd", 1>>, fp_status_word |-> <<"swd", 1>>, fp_tag_word |-> <<"ftw", 0>>, fp_error_opcode |-> <<"fop", 1>>,
                 fp_error_offset |-> <<"fp_rip", 2>>, fp_data_offset |-> <<"fp_rdp", 2>>, fp_mx_csr |-> <<"mxcsr", 2>>, fp_mx_csr_mask |-> <<"mxcr_mask", 2>>]
GprOk(ctx, src) == \A f \in DOMAIN GprMap : ctx[f] = src[GprMap[f]]
MapOk(ctx, src, m) == \A f \in DOMAIN m : ctx[f] = Trunc(src[m[f][1]], m[f][2])
BadGpr(ctx, src) == {f \in DOMAIN GprMap : ctx[f] # src[GprMap[f]]}
BadMap(ctx, src, m) == {f \in DOMAIN m : ctx[f] # Trunc(src[m[f][1]], m[f][2])}

Inc(f) == cnt' = [cnt EXCEPT ![f] = @ + 1]
(* ----------------------------------------------------------------- C04 *)
T_c04t == /\ E.ev = "c04t"
          /\ viol' = Note(/\ GprOk(E.ctx, E.regs) /\ MapOk(E.ctx, E.regs, FromPtrace)
                          /\ E.ctx.st = E.regs.st /\ E.ctx.xmm = E.regs.xmm /\ E.ctxSize = 1232,
                          viol, "C04-context-differs-from-thread-registers")
          \* the harness's oracle itself must see the sentinels the thread loaded (else the comparison is void)
          /\ drift' = Note(E.sentinelsOk, drift, "oracle-does-not-see-sentinels")
          /\ Inc("c04t") /\ nchk' = nchk + 1
T_c04l == /\ E.ev = "c04l"
          /\ LET listed == {E.listed[k] : k \in 1..Len(E.listed)}
                 want == {E.expected[k] : k \in 1..Len(E.expected)}
                 maybe == {E.optional[k] : k \in 1..Len(E.optional)}          \* threads that exited during the dump
             IN viol' = Note(/\ Cardinality(listed) = Len(E.listed)            \* no thread twice
                             /\ want \subseteq listed /\ listed \subseteq (want \cup maybe),
                             viol, "C04-thread-list-incomplete-or-duplicated")
          /\ drift' = drift /\ Inc("c04l") /\ nchk' = nchk + 1
(* a spinning thread keeps one counter in a register, in the word at its stack pointer and in an application word,
   incrementing them in that order: a consistent snapshot shows them at most one step apart *)
T_c04s == /\ E.ev = "c04s"
          /\ viol' = Note(E.reg - E.stackWord \in {0, 1} /\ E.reg - E.appWord \in {0, 1} /\ E.stackWord - E.appWord \in {0, 1},
                          viol, "C04-thread-ran-between-captures")
          /\ drift' = drift /\ Inc("c04l") /\ nchk' = nchk + 1
(* order of the tracer's steps in one dump: every stream is written while all listed threads are attached *)
T_c04o == /\ E.ev = "c04o"
          /\ viol' = Note(E.detachesBeforeLastRead = 0 /\ E.streamsAfterResume = 0, viol, "C04-threads-resumed-before-last-read-of-target")
          /\ drift' = drift /\ Inc("c04l") /\ nchk' = nchk + 1
(* ----------------------------------------------------------------- C05 *)
DumpRequested == <<65535, 65535, 0, 0>>
T_c05 == /\ E.ev = "c05"
         /\ IF E.withCtx
              THEN LET s == E.supplied x == E.exc
                   IN viol' = Note(/\ x.tid = E.blamed /\ x.code = s.signo /\ x.flags = s.code /\ x.address = s.fault_addr
                                   /\ x.ctxSize = 1232
                                   /\ GprOk(x.ctx, s) /\ MapOk(x.ctx, s, FromUcontext)
                                   /\ x.ctx.cs = <<s.csgsfs[1], 0, 0, 0>> /\ x.ctx.gs = <<s.csgsfs[2], 0, 0, 0>> /\ x.ctx.fs = <<s.csgsfs[3], 0, 0, 0>>
                                   /\ x.ctx.st = s.st /\ x.ctx.xmm = s.xmm
                                   /\ (E.blamedListed => E.blamedCtxRva = x.ctxRva),      \* the thread list uses that same context
                                   viol, "C05-exception-does-not-match-supplied-context")
              ELSE LET x == E.exc
                   IN viol' = Note(/\ x.tid = E.blamed /\ x.code = DumpRequested
                                   /\ (E.blamedListed => /\ x.ctxRva = E.blamedCtxRva /\ x.ctxSize = 1232
                                                         /\ x.address = E.blamedCtx.rip
                                                         /\ (Has(E, "blamedRegs") => E.blamedCtx.rip = E.blamedRegs.rip))
                                   /\ (~E.blamedListed => x.ctxSize = 0),
                                   viol, "C05-dump-requested-record-wrong")
         /\ drift' = drift /\ Inc("c05") /\ nchk' = nchk + 1
(* ----------------------------------------------------------------- C06 *)
(* addresses relative to a base below the thread's stack; maps as StackSel wants them *)
T_c06t == /\ E.ev = "c06t"
          /\ LET reg == [start |-> E.regStart, len |-> E.regLen]
                 model == ApplyLimit(StackInfo(E.maps, E.sp), E.sp, Shorten(E.idx, E.limEff, E.isCrash))
                 v1 == Note(C06For(E.maps, E.sp, E.idx, E.limited, E.isCrash, reg), viol,
                            IF E.regLen > 0 /\ ~(E.regStart <= E.sp /\ E.sp < E.regStart + E.regLen) /\ SpReadable(E.maps, E.sp)
                              THEN "C06-region-does-not-contain-the-stack-pointer" ELSE "C06-region-shape")
                 v2 == Note(SpReadable(E.maps, E.sp) /\ E.regLen > 0 /\ E.regStart <= E.sp => E.mismatchFromSp = -1, v1, "C06-bytes-differ-from-target-memory")
             IN /\ viol' = v2
                /\ drift' = Note(E.estimateKnown /\ E.regLen > 0 => (E.regStart = model.start /\ E.regLen = model.len), drift, "stack-region")
          /\ cnt' = [cnt EXCEPT !.c06t = @ + 1, !.shortened = @ + (IF E.regLen > 0 /\ E.regLen <= Cap /\ E.limited THEN 1 ELSE 0)]
          /\ nchk' = nchk + 1
(* ----------------------------------------------------------------- C20 *)
T_c20t == /\ E.ev = "c20t"
          /\ LET reg == [start |-> 1, len |-> IF E.regionNonEmpty THEN 1 ELSE 0]
                 ws == [j \in 1..Len(E.words) |-> E.words[j]]
             IN /\ viol' = Note(/\ E.recordPresent /\ E.contextPresent                                   \* records and contexts of excluded stacks stay
                                /\ (E.regionNonEmpty => (E.included <=> ((E.prin.low <= E.ip /\ E.ip < E.prin.high)
                                                                          \/ \E j \in 1..Len(ws) : E.prin.low <= ws[j] /\ ws[j] < E.prin.high))),
                                viol, IF ~(E.recordPresent /\ E.contextPresent) THEN "C20-record-or-context-dropped"
                                      ELSE IF E.included THEN "C20-stack-included-without-a-reference" ELSE "C20-referencing-stack-excluded")
                /\ drift' = Note(E.regionNonEmpty => E.included = Included(reg, E.prin, E.ip, ws), drift, "inclusion")
          /\ cnt' = [cnt EXCEPT !.c20t = @ + 1, !.excluded = @ + (IF E.included THEN 0 ELSE 1)] /\ nchk' = nchk + 1
T_c20s == /\ E.ev = "c20s"           \* the soft-error clause, per dump
          /\ viol' = Note(E.outcome = "ok" /\ (E.softError <=> ~E.crashThreadReferences), viol, "C20-soft-error-clause")
          /\ drift' = drift /\ Inc("c20t") /\ nchk' = nchk + 1
(* ----------------------------------------------------------------- C07 *)
(* regions as <<rank of start, size, mismatch index (-1: equal to target memory)>>; expected lists likewise *)
Max2(a, b) == IF a > b THEN a ELSE b
Min2(a, b) == IF a < b THEN a ELSE b
T_c07 == /\ E.ev = "c07"
         /\ LET got == {<<E.regions[k][1], E.regions[k][2]>> : k \in 1..Len(E.regions)}
                app == {<<E.app[k][1], E.app[k][2]>> : k \in 1..Len(E.app)}
                stk == {<<E.stacks[k][1], E.stacks[k][2]>> : k \in 1..Len(E.stacks)}
                win == IF E.ipMapped       \* up to 128 bytes on either side of the IP, clipped to its mapping (offsets from the mapping start)
                         THEN LET lo == Max2(0, E.ipRel - 128) hi == Min2(E.mapLen, E.ipRel + 128) IN {<<lo, hi - lo>>}
                         ELSE {}
                v1 == Note(\A k \in 1..Len(E.regions) : E.regions[k][3] = -1, viol, "C07-region-bytes-differ-from-target-memory")
                v2 == Note(app \subseteq got, v1, "C07-application-region-missing-or-altered")
                v3 == Note(stk \subseteq got, v2, "C07-thread-stack-not-in-memory-list")
                v4 == Note(E.winKnown => win \subseteq {<<E.winGot[k][1], E.winGot[k][2]>> : k \in 1..Len(E.winGot)}, v3, "C07-instruction-pointer-window-wrong")
            IN viol' = v4
         /\ drift' = Note(Len(E.regions) = Len(E.app) + Len(E.stacks) + (IF E.ipMapped THEN 1 ELSE 0), drift, "memory-list-count")
         /\ Inc("c07") /\ nchk' = nchk + 1
T_failed == E.ev = "failed" /\ UNCHANGED <<viol, drift, nchk, cnt>>
TNext == l <= Len(Rec) /\ (T_c04t \/ T_c04l \/ T_c04s \/ T_c04o \/ T_c05 \/ T_c06t \/ T_c20t \/ T_c20s \/ T_c07 \/ T_failed) /\ l' = l + 1 /\ UNCHANGED vars
TSpec == TInit /\ [][TNext]_tvars
Verdict == l = Len(Rec) + 1 =>
   PrintT(<<"VERDICT", ToJson([events |-> Len(Rec), checked |-> nchk, counts |-> cnt, viol |-> viol, drift |-> drift])>>)
Accepted == TLCGet("stats").diameter = Len(Rec) + 1
=============================================================================
