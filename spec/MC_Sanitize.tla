---------------------------- MODULE MC_Sanitize ----------------------------
(* Small-universe instance of Sanitize: bucket size 4, 4 bitmap bits, "small" = 2. *)
EXTENDS Sanitize, Json
AddrOf(n) == [b |-> n \div BucketSize, o |-> n % BucketSize]
Map(s, e, x) == [start |-> AddrOf(s), end |-> AddrOf(e), exec |-> x]
MCLayouts == { <<Map(8, 12, FALSE)>>,
               <<Map(8, 12, FALSE), Map(14, 17, TRUE)>>,
               <<Map(8, 12, FALSE), Map(13, 14, FALSE), Map(16, 24, TRUE)>>,
               <<Map(9, 10, TRUE), Map(20, 22, FALSE), Map(40, 41, TRUE)>>,
               <<Map(8, 12, TRUE), Map(12, 13, FALSE)>> }
HugeB == 16 * NBits
WordOf(n) == [big |-> FALSE, s |-> n, b |-> (IF n >= 0 THEN n \div BucketSize ELSE HugeB + (n \div BucketSize)), o |-> n % BucketSize]
WordVals == (-(Small + 1))..(Small + 1) \cup 7..25 \cup {39, 40, 41, 40 + BucketSize * NBits, 9 + BucketSize * NBits}
MCWordPool == {WordOf(n) : n \in WordVals}
Emit == pc = "done" => PrintT(<<"REPLAY", ToJson([maps |-> maps, stackIdx |-> stackIdx, words |-> words, exp |-> out])>>)
=============================================================================
