SPECIFICATION Spec
CONSTANTS
  BucketSize = 4
  NBits = 4
  Small = 2
  SignedSmall = TRUE
  Layouts <- MCLayouts
  WordPool <- MCWordPool
  MaxWords = 2
INVARIANTS PrefilterSound StepwiseIsRun Emit
CHECK_DEADLOCK FALSE
