SPECIFICATION Spec
CONSTANTS
  BoundedWalk = FALSE
  MaxLinkMaps = 4
  NNodes = 2
INVARIANTS Total NoDevOpen WalkBounded Emit
PROPERTY Terminates
CHECK_DEADLOCK FALSE
