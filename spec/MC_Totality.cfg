SPECIFICATION Spec
CONSTANTS
  BoundedWalk = TRUE
  MaxLinkMaps = 4
  NNodes = 2
  StopOnDecodeError = TRUE
INVARIANTS Total NoDevOpen WalkBounded DsoFailsIsTheSteps HardErrorIsAppMem
PROPERTY Terminates
CHECK_DEADLOCK FALSE
