--------------------------- MODULE Trace_AuxvFile ---------------------------
(* C18 (auxiliary-vector information: caller-supplied values first, the kernel's otherwise) and C11 (an
   auxiliary vector that ends before AT_NULL is a soft error) on the real writer.  Each recorded dump was
   taken by a worker that sees a generated /proc/<pid>/auxv for the target (private mount namespace); the
   values written for each key are distinguishable ("a" the first, "b" a later one, "d" the caller's), and
   what the dump shows reveals which one was used:
     gate  - which of three anonymous mappings holding an ELF image is listed as module "linux-gate.so";
     entry - which module is first in the module list;
     dso   - whether the linker list is the real one (phdr/phnum "a"), the synthetic chain ("d"), or absent. *)
EXTENDS AuxvFile, Json, IOUtils
Rec == ndJsonDeserialize(IOEnv.TRACE)
VARIABLES l, viol, drift, nchk, cnt
tvars == <<vars, l, viol, drift, nchk, cnt>>
E == Rec[l]
NTag(seq, tag) == Cardinality({k \in 1..Len(seq) : seq[k][2] = tag})
Note(cond, seq, tag) == IF cond \/ NTag(seq, tag) >= 60 THEN seq ELSE Append(seq, <<l, tag>>)
TInit == /\ l = 1 /\ viol = <<>> /\ drift = <<>> /\ nchk = 0 /\ cnt = [wellformed |-> 0, truncated |-> 0, complete |-> 0]
         /\ direct = [k \in Keys |-> "unset"] /\ file = [pairs |-> <<>>, ending |-> "none"] /\ pos = 1 /\ keepGoing = TRUE
         /\ info = [k \in Keys |-> "unset"] /\ softErr = FALSE /\ pc = "trace"
DsoClass(i) == IF i.phdr = "a" /\ i.phnum = "a" THEN "real"
               ELSE IF i.phdr = "d" /\ i.phnum = "d" THEN "synthetic"
               ELSE IF i.phdr = "unset" \/ i.phnum = "unset" THEN "none" ELSE "unspecified"
Case == /\ E.ev = "auxv"
        /\ LET f == [pairs |-> E.pairs, ending |-> E.ending]
               want == Resolved(E.direct, f)
               v1 == Note(E.outcome = "ok", viol, "C11-dump-failed-on-auxv")
               v2 == Note(E.outcome = "ok" => E.obs.softErr = InvalidFormat(E.direct, f), v1, "C11-truncated-auxv-not-reported-exactly")
               v3 == Note(E.outcome = "ok" => E.obs.gate = want.gate, v2, "C18-gate-address-not-from-the-right-source")
               v4 == Note(E.outcome = "ok" => E.obs.entry = want.entry, v3, "C18-entry-address-not-from-the-right-source")
               v5 == Note(E.outcome = "ok" /\ DsoClass(want) # "unspecified" => E.obs.dso = DsoClass(want), v4, "C18-program-headers-not-from-the-right-source")
           IN viol' = v5
        /\ drift' = drift /\ nchk' = nchk + 1
        /\ cnt' = IF Complete(E.direct) THEN [cnt EXCEPT !.complete = @ + 1]
                  ELSE IF InvalidFormat(E.direct, [pairs |-> E.pairs, ending |-> E.ending]) THEN [cnt EXCEPT !.truncated = @ + 1] ELSE [cnt EXCEPT !.wellformed = @ + 1]
TNext == l <= Len(Rec) /\ Case /\ l' = l + 1 /\ UNCHANGED vars
TSpec == TInit /\ [][TNext]_tvars
Verdict == l = Len(Rec) + 1 =>
   PrintT(<<"VERDICT", ToJson([events |-> Len(Rec), checked |-> nchk, counts |-> cnt, viol |-> viol, drift |-> drift])>>)
Accepted == TLCGet("stats").diameter = Len(Rec) + 1
=============================================================================
