---------------------------- MODULE MC_SoVersion ----------------------------
EXTENDS SoVersion, Json
Emit == pc = "done" => PrintT(<<"REPLAY", ToJson([kinds |-> comps])>>)
=============================================================================
