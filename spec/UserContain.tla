---------------------------- MODULE UserContain ----------------------------
(***************************************************************************)
(* MappingInfo::is_contained_in (maps_reader.rs): does some caller-        *)
(* supplied mapping wholly contain this target mapping?  The loop over the *)
(* caller's list is transcribed (it returns at the first mapping that      *)
(* contains the target, and goes on otherwise); the property (C08:         *)
(* "caller-supplied mappings ... suppress target mappings they wholly      *)
(* contain") is the declarative reading: SOME mapping of the list, wherever*)
(* it stands and whatever precedes it, with closed-open ranges whose ends  *)
(* may coincide.  ModuleList takes the result as the `inUser` fact.        *)
(***************************************************************************)
EXTENDS Naturals, Sequences, FiniteSets, TLC
CONSTANTS MaxUsers, Addr        \* Addr: the address universe 0..Addr
Range == {r \in [s : 0..Addr, e : 0..Addr] : r.s < r.e}
Contains(u, m) == u.s <= m.s /\ m.e <= u.e
ContainedDecl(m, users) == \E k \in 1..Len(users) : Contains(users[k], m)

VARIABLES m, users, k, res, pc
vars == <<m, users, k, res, pc>>
Init == /\ m \in Range /\ users \in UNION {[1..n -> Range] : n \in 0..MaxUsers}
        /\ k = 1 /\ res = FALSE /\ pc = "loop"
(* for user in user_mapping_list { if self.start >= user.start && self.end <= user.end { return true } } false *)
Step == /\ pc = "loop"
        /\ IF k > Len(users) THEN pc' = "done" /\ res' = FALSE /\ UNCHANGED k
           ELSE IF m.s >= users[k].s /\ m.e <= users[k].e THEN pc' = "done" /\ res' = TRUE /\ UNCHANGED k
           ELSE k' = k + 1 /\ UNCHANGED <<pc, res>>
        /\ UNCHANGED <<m, users>>
Next == Step
Spec == Init /\ [][Next]_vars /\ WF_vars(Next)
C08_SuppressedIffContained == pc = "done" => res = ContainedDecl(m, users)
Terminates == <>(pc = "done")
=============================================================================
