---------------------------- MODULE UserContain ----------------------------
(***************************************************************************)
(* MappingInfo::is_contained_in (maps_reader.rs): does some caller-        *)
(* supplied mapping wholly contain this target mapping?  The loop over the *)
(* caller's list is transcribed (it returns at the first mapping that      *)
(* contains the target, and goes on otherwise); the property (C08:         *)
(* "caller-supplied mappings ... suppress target mappings they wholly      *)
(* contain") is the declarative reading: SOME mapping of the list, wherever*)
(* it stands and whatever precedes it, with closed-open ranges whose ends  *)
(* may coincide.  ModuleList takes the result as the `inUser` fact.        *)
(*                                                                         *)
(* Mappings are (start, size) pairs of machine words 0..Top.  A mapping of *)
(* the target fits into the address space (the kernel reports it); a       *)
(* caller-supplied one need not: start + size may exceed Top ("from here   *)
(* to the end", size = usize::MAX).  `Extent` says how the code forms the  *)
(* end of a range: "saturating" (the current tree), "wrapping" (plain `+`  *)
(* without overflow checks) or "panicking" (plain `+` with them) - C02.    *)
(***************************************************************************)
EXTENDS Naturals, Sequences, FiniteSets, TLC
CONSTANTS MaxUsers, Top, Extent
Word == 0..Top
TargetMap == {r \in [s : Word, n : 1..Top] : r.s + r.n <= Top}
UserMap == [s : Word, n : 1..Top]
(* the mathematical reading: the addresses s .. s + n - 1 that exist *)
Contains(u, m) == u.s <= m.s /\ m.s + m.n <= u.s + u.n
ContainedDecl(m, users) == \E k \in 1..Len(users) : Contains(users[k], m)
Overflows(r) == r.s + r.n > Top
End(r) == CASE Extent = "saturating" -> IF Overflows(r) THEN Top ELSE r.s + r.n
            [] Extent = "wrapping"   -> (r.s + r.n) % (Top + 1)
            [] OTHER                 -> r.s + r.n          \* "panicking": only evaluated when it does not overflow

VARIABLES m, users, k, res, pc
vars == <<m, users, k, res, pc>>
Init == /\ m \in TargetMap /\ users \in UNION {[1..n -> UserMap] : n \in 0..MaxUsers}
        /\ k = 1 /\ res = "none" /\ pc = "loop"
(* for user in user_mapping_list { if self.start >= user.start && end(self) <= end(user) { return true } } false
   - `&&` does not evaluate its right side when the left one is false *)
Step == /\ pc = "loop"
        /\ IF k > Len(users) THEN pc' = "done" /\ res' = "false" /\ UNCHANGED k
           ELSE IF m.s >= users[k].s
                  THEN IF Extent = "panicking" /\ Overflows(users[k]) THEN pc' = "done" /\ res' = "panic" /\ UNCHANGED k
                       ELSE IF End(m) <= End(users[k]) THEN pc' = "done" /\ res' = "true" /\ UNCHANGED k
                       ELSE k' = k + 1 /\ UNCHANGED <<pc, res>>
                  ELSE k' = k + 1 /\ UNCHANGED <<pc, res>>
        /\ UNCHANGED <<m, users>>
Next == Step
Spec == Init /\ [][Next]_vars /\ WF_vars(Next)
C02_NoPanic == res # "panic"
C08_SuppressedIffContained == pc = "done" /\ res # "panic" => (res = "true") = ContainedDecl(m, users)
Terminates == <>(pc = "done")
=============================================================================
