SPECIFICATION SpecVfork
CONSTANTS
  BoundedWalk = TRUE
  MaxLinkMaps = 4
  NNodes = 2
  StopOnDecodeError = TRUE
  CheckedDeadline = TRUE
  CheckedExtent = TRUE
  SatWindow = TRUE
  WaitHasDeadline = FALSE
INVARIANTS Total NoDevOpen WalkBounded DsoFailsIsTheSteps HardErrorIsAppMem
PROPERTY Terminates
CHECK_DEADLOCK FALSE
