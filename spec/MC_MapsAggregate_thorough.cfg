SPECIFICATION Spec
CONSTANTS
  MaxLines = 4
  Names = {"/a", "/b"}
  PermSet = {"---p", "r--p", "r-xp"}
  Gate = 2
INVARIANTS Inv_C13 Inv_Cover
CHECK_DEADLOCK FALSE
