#!/bin/sh
# Builds the harness offline and parses every specification (SANY); run once after a fresh restore.
set -e
cd "$(dirname "$0")"
export CARGO_NET_OFFLINE=true
[ -f harness/Cargo.lock ] || cp /repo/Cargo.lock harness/Cargo.lock
(cd harness && cargo build --offline --bins 2>&1 | tail -3)
mkdir -p work/sany
for f in spec/*.tla; do
  (cd spec && java -cp /opt/veriftools/tla/tla2tools.jar tla2sany.SANY "$(basename "$f")" > ../work/sany/$(basename "$f").log 2>&1) || { echo "SANY failed: $f"; tail -20 work/sany/$(basename "$f").log; exit 1; }
done
./check selftest | tail -1
echo "setup ok: $(ls spec/*.tla | wc -l) specifications parsed"
