//! Recording `Write + Seek` destination over a byte vector.
//!
//! The vector is pre-filled with a sentinel pattern (before and after the start offset) so that
//! any byte modified outside the image is visible. Every call is logged with its arguments and
//! result; the k-th call can be made to fail with an I/O error.
use std::io::{Error, ErrorKind, Result, Seek, SeekFrom, Write};

#[derive(Clone, Debug)]
pub enum Call {
    StreamPos { res: u64 },
    Seek { to: u64, res: u64 },
    Write { pos: u64, data: Vec<u8> },
    Flush,
    Failed { what: &'static str },
}

pub struct RecDest {
    /// the destination's bytes from absolute offset `base` on (a window: destinations positioned beyond 4 GiB are not materialised from 0)
    pub data: Vec<u8>,
    /// absolute offset of data[0]: 0, or the multiple of 4 GiB at or below the start offset
    pub base: u64,
    /// a write or seek-and-write landed below the window (i.e. more than 4 GiB before the start offset)
    pub outside: bool,
    pub pos: u64,
    pub start: u64,
    pub pre_len: usize,
    pub calls: Vec<Call>,
    /// 0-based index of the call that fails (None: never)
    pub fail_at: Option<usize>,
    /// 0-based index of the call that panics (a caller's destination may: the dump then unwinds)
    pub panic_at: Option<usize>,
    /// (call index, bytes accepted, full afterwards): if that call is a write of more than `bytes`, only `bytes` are taken
    /// (a short write); with `full afterwards` every later write that would grow the destination fails (disk full)
    pub short_at: Option<(usize, usize, bool)>,
    pub full: bool,
    pub ncalls: usize,
}

pub fn sentinel(i: usize) -> u8 {
    // never 0, never 'M' (first byte of the minidump signature)
    0x80 | ((i as u8).wrapping_mul(37) & 0x7f)
}

impl RecDest {
    /// `start`: initial stream position; `pre_len` >= start: length of pre-existing content.
    pub fn new(start: u64, pre_len: usize) -> Self {
        let base = start & !0xffff_ffffu64;
        let pre_len = pre_len.max(start as usize);
        let data = (base as usize..pre_len).map(sentinel).collect();
        RecDest {
            data,
            base,
            outside: false,
            pos: start,
            start,
            pre_len,
            calls: Vec::new(),
            fail_at: None,
            panic_at: None,
            short_at: None,
            full: false,
            ncalls: 0,
        }
    }
    fn gate(&mut self, what: &'static str) -> Result<()> {
        let k = self.ncalls;
        self.ncalls += 1;
        if self.panic_at == Some(k) {
            self.calls.push(Call::Failed { what });
            panic!("injected destination panic");
        }
        if self.fail_at == Some(k) {
            self.calls.push(Call::Failed { what });
            return Err(Error::new(ErrorKind::Other, "injected destination failure"));
        }
        Ok(())
    }
    /// The part of the destination from the start offset on.
    pub fn image_part(&self) -> &[u8] {
        &self.data[(self.start - self.base) as usize..]
    }
    /// position inside the window of an absolute offset (which must not lie below it)
    pub fn rel(&self, abs: u64) -> usize {
        (abs - self.base) as usize
    }
    /// true iff every byte before `start` still has its sentinel value
    pub fn prefix_intact(&self) -> bool {
        !self.outside
            && self.data[..(self.start - self.base) as usize]
                .iter()
                .enumerate()
                .all(|(i, b)| *b == sentinel(i + self.base as usize))
    }
    /// index (absolute) of the first pre-existing byte at or after `from_abs` that was modified,
    /// or None when all bytes of the pre-existing content from there on are intact
    pub fn first_modified_from(&self, from_abs: usize) -> Option<usize> {
        let b = self.base as usize;
        (from_abs.max(b)..self.pre_len.min(self.data.len() + b)).find(|&i| self.data[i - b] != sentinel(i))
    }
    /// highest absolute offset written so far (end of the furthest write), or `start`
    pub fn written_hi(&self) -> u64 {
        self.calls
            .iter()
            .filter_map(|c| match c {
                Call::Write { pos, data } => Some(pos + data.len() as u64),
                _ => None,
            })
            .max()
            .unwrap_or(self.start)
            .max(self.start)
    }
    /// Rebuild the destination content (the window, from `base` on) as it was after the first `n` logged calls.
    pub fn content_after(&self, n: usize) -> Vec<u8> {
        let mut d: Vec<u8> = (self.base as usize..self.pre_len).map(sentinel).collect();
        for c in self.calls.iter().take(n) {
            if let Call::Write { pos, data } = c {
                if *pos < self.base {
                    continue;
                }
                let pos = &(*pos - self.base);
                let end = *pos as usize + data.len();
                if d.len() < end {
                    d.resize(end, 0);
                }
                d[*pos as usize..end].copy_from_slice(data);
            }
        }
        d
    }
}

impl Write for RecDest {
    fn write(&mut self, buf: &[u8]) -> Result<usize> {
        let k = self.ncalls;
        self.gate("write")?;
        let mut buf = buf;
        if let Some((at, n, full_after)) = self.short_at {
            if at == k && buf.len() > n {
                buf = &buf[..n];
                self.full = full_after;
                if n == 0 {
                    self.calls.push(Call::Failed { what: "write (nothing accepted)" });
                    return Ok(0);
                }
            } else if self.full && self.pos.saturating_sub(self.base) as usize + buf.len() > self.data.len() {
                self.calls.push(Call::Failed { what: "write (no space left)" });
                return Err(Error::new(ErrorKind::Other, "no space left on device (injected)"));
            }
        }
        if self.pos < self.base {
            // far below where the dump was to go: remembered, not materialised
            self.outside = true;
        } else {
            let pos = (self.pos - self.base) as usize;
            let end = pos + buf.len();
            if self.data.len() < end {
                self.data.resize(end, 0);
            }
            self.data[pos..end].copy_from_slice(buf);
        }
        self.calls.push(Call::Write {
            pos: self.pos,
            data: buf.to_vec(),
        });
        self.pos += buf.len() as u64;
        Ok(buf.len())
    }
    fn flush(&mut self) -> Result<()> {
        self.gate("flush")?;
        self.calls.push(Call::Flush);
        Ok(())
    }
}

impl Seek for RecDest {
    fn seek(&mut self, to: SeekFrom) -> Result<u64> {
        // `stream_position()` is `seek(Current(0))`; log it separately
        if let SeekFrom::Current(0) = to {
            self.gate("stream_position")?;
            self.calls.push(Call::StreamPos { res: self.pos });
            return Ok(self.pos);
        }
        self.gate("seek")?;
        let new = match to {
            SeekFrom::Start(p) => p as i128,
            SeekFrom::Current(d) => self.pos as i128 + d as i128,
            SeekFrom::End(d) => self.base as i128 + self.data.len() as i128 + d as i128,
        };
        if new < 0 {
            return Err(Error::new(ErrorKind::InvalidInput, "negative seek"));
        }
        self.pos = new as u64;
        self.calls.push(Call::Seek {
            to: new as u64,
            res: self.pos,
        });
        Ok(self.pos)
    }
}
