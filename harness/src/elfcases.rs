//! C14: `BuildId` / `SoName` readers on generated ELF images (all decision paths of the ElfReader
//! model, numeric corruption of every field, random bytes), on the machine's ELF files, and on the
//! live mappings of a target (memory vs. file).
use crate::{elfgen::{self, Spec}, rng::Rng, target::TargetProc, trace::Trace};
use minidump_writer::module_reader::{BuildId, ProcessMemory, ProcessReader, ReadFromModule, SoName};
use serde_json::{json, Value};

fn hexs(b: &[u8]) -> String { b.iter().map(|x| format!("{x:02x}")).collect() }

/// Readers that did not return within the budget so far (each leaves a spinning thread behind).
static HANGS: std::sync::atomic::AtomicUsize = std::sync::atomic::AtomicUsize::new(0);
const MAX_HANGS: usize = 3;
pub fn too_many_hangs() -> bool { HANGS.load(std::sync::atomic::Ordering::SeqCst) >= MAX_HANGS }

/// Run `f` on its own thread; None when it has not returned after 3 s (normal: microseconds).
fn with_deadline<T: Send + 'static>(f: impl FnOnce() -> T + Send + 'static) -> Option<T> {
    let (tx, rx) = std::sync::mpsc::channel();
    std::thread::spawn(move || { let _ = tx.send(f()); });
    match rx.recv_timeout(std::time::Duration::from_secs(3)) {
        Ok(v) => Some(v),
        Err(_) => { HANGS.fetch_add(1, std::sync::atomic::Ordering::SeqCst); None }
    }
}

fn run_readers(bytes: &[u8]) -> (Value, Value) {
    let (b1, b2) = (bytes.to_vec(), bytes.to_vec());
    let bid = with_deadline(move || std::panic::catch_unwind(|| BuildId::read_from_module(b1.as_slice().into())));
    let so = with_deadline(move || std::panic::catch_unwind(|| SoName::read_from_module(b2.as_slice().into())));
    let b = match bid { None => json!({"res":"hang"}), Some(Err(_)) => json!({"res":"panic"}), Some(Ok(Err(_))) => json!({"res":"err"}), Some(Ok(Ok(BuildId(v)))) => json!({"res":"ok","hex":hexs(&v)}) };
    let s = match so { None => json!({"res":"hang"}), Some(Err(_)) => json!({"res":"panic"}), Some(Ok(Err(_))) => json!({"res":"err"}), Some(Ok(Ok(SoName(v)))) => json!({"res":"ok","hex":hexs(v.as_bytes())}) };
    (b, s)
}

/// The same readers on the image laid out in this process's own memory (module base = start of a private mapping that
/// ends where the image ends, with nothing mapped behind it) and read through the process-memory reader.
fn run_readers_memory(bytes: &[u8]) -> (Value, Value) {
    const PG: usize = 4096;
    let len = (bytes.len() + PG - 1) / PG * PG;
    let base = unsafe {
        let a = libc::mmap(std::ptr::null_mut(), len + PG, libc::PROT_READ | libc::PROT_WRITE, libc::MAP_PRIVATE | libc::MAP_ANONYMOUS, -1, 0);
        if a == libc::MAP_FAILED { return (json!({"res":"err"}), json!({"res":"err"})); }
        libc::munmap((a as usize + len) as *mut libc::c_void, PG);
        std::ptr::copy_nonoverlapping(bytes.as_ptr(), a as *mut u8, bytes.len());
        a as usize
    };
    let pid = std::process::id() as i32;
    let bid = with_deadline(move || std::panic::catch_unwind(|| BuildId::read_from_module(ProcessMemory::Process(ProcessReader::new(pid, base)))));
    let so = with_deadline(move || std::panic::catch_unwind(|| SoName::read_from_module(ProcessMemory::Process(ProcessReader::new(pid, base)))));
    if bid.is_some() && so.is_some() {
        unsafe { libc::munmap(base as *mut libc::c_void, len) };      // (a reader still spinning keeps its memory)
    }
    let b = match bid { None => json!({"res":"hang"}), Some(Err(_)) => json!({"res":"panic"}), Some(Ok(Err(_))) => json!({"res":"err"}), Some(Ok(Ok(BuildId(v)))) => json!({"res":"ok","hex":hexs(&v)}) };
    let s = match so { None => json!({"res":"hang"}), Some(Err(_)) => json!({"res":"panic"}), Some(Ok(Err(_))) => json!({"res":"err"}), Some(Ok(Ok(SoName(v)))) => json!({"res":"ok","hex":hexs(v.as_bytes())}) };
    (b, s)
}

fn classify(b: &Value, spec: &Spec, bytes: &[u8]) -> String {
    match b["res"].as_str().unwrap_or("") {
        "ok" => {
            let h = b["hex"].as_str().unwrap_or("");
            let text = elfgen::oracle_build_id(&{ let mut s2 = spec.clone(); s2.ph_note = false; s2.sec_note = false; elfgen::build(&s2).bytes }).map(|x| hexs(&x.0));
            let _ = bytes;
            if h == hexs(&spec.id_ph) { "ph".into() } else if h == hexs(&spec.id_sec) { "section".into() } else if Some(h.to_string()) == text { "text".into() } else { "other".into() }
        }
        r => r.to_string(),
    }
}

/// Concretise an abstract ELF (flags of the ElfReader model) and run the readers on it.
pub fn model_case(c: &Value, tr: &mut Trace, tmpdir: &str) {
    if too_many_hangs() { return; }
    let g = |k: &str| c[k].as_str().unwrap_or("ok").to_string();
    let mut spec = Spec { bits64: c["bits64"].as_bool().unwrap_or(true), ..Default::default() };
    spec.phdrs = g("phdrs") != "absent";
    spec.shdrs = g("shdrs") != "absent";
    spec.ph_note = g("phNote") != "absent";
    spec.sec_note = g("secNote") != "absent";
    spec.text = g("text") != "absent";
    spec.dynamic = g("dyn") != "absent";
    if g("soname") == "absent" { spec.soname = None; }
    // "long": longer than NAME_MAX, PATH_MAX/8, a page fraction ... - a string table sets no bound
    if c["solen"].as_str() == Some("long") { spec.soname = Some(format!("lib{}.so.1", "x".repeat(700))); }
    // a shift that makes DT_STRTAB, read as a file offset, fall beyond the 0x3000-byte file / into its zero padding
    spec.vshift = match g("layout").as_str() { "shift_outside" => 0x10_0000, "shift_inside" => 0x2000, _ => 0 };
    let mut b = elfgen::build(&spec);
    let len = b.bytes.len() as u64;
    if g("phdrs") == "pastend" { elfgen::set_field(&mut b, "e_phoff", len - 8); }
    if g("shdrs") == "pastend" { elfgen::set_field(&mut b, "e_shoff", len - 8); }
    if g("phNote") == "range_bad" { elfgen::set_field(&mut b, "ph1.p_offset", len - 4); }
    if g("phNote") == "other_note" { elfgen::set_field(&mut b, "phnote.type", 1); }
    if g("phNote") == "late_second" {
        // two note segments, as linkers emit them: the first 8-aligned with a note that is not the build id; the second 4-aligned,
        // holding a vendor note whose padded size is 4 mod 8 and, after it, the build id (the third program header is reused for it)
        let prop = elfgen::note(&[0u8; 16], b"GNU", 5);
        let at = b.fields["phnote.namesz"].0;
        b.bytes[at..at + prop.len()].copy_from_slice(&prop);
        for (f, v) in [("ph1.p_filesz", prop.len() as u64), ("ph1.p_memsz", prop.len() as u64), ("ph1.p_align", 8)] { elfgen::set_field(&mut b, f, v); }
        let mut second = elfgen::note(&[1, 2, 3, 4], b"FDO", 0xcafe_1a7e);
        second.extend_from_slice(&elfgen::note(&spec.id_ph, b"GNU", 3));
        let off = b.bytes.len() as u64;
        b.bytes.extend_from_slice(&second);
        for (f, v) in [("ph2.p_type", 4), ("ph2.p_offset", off), ("ph2.p_vaddr", off), ("ph2.p_paddr", off), ("ph2.p_filesz", second.len() as u64), ("ph2.p_memsz", second.len() as u64), ("ph2.p_align", 4)] {
            elfgen::set_field(&mut b, f, v);
        }
    }
    if g("secNote") == "range_bad" { elfgen::set_field(&mut b, "sh2.sh_offset", len - 4); }
    if g("strtab") == "bad_index" { elfgen::set_field(&mut b, "e_shstrndx", 77); }
    if g("strtab") == "wrong_type" { elfgen::set_field(&mut b, "sh3.sh_type", 1); }
    if g("text") == "range_bad" { elfgen::set_field(&mut b, "sh1.sh_offset", len - 16); }
    if g("dyn") == "unterminated" {
        let dynent = if spec.bits64 { 16 } else { 8 };
        for f in ["ph2.p_filesz", "ph2.p_memsz", "sh4.sh_size"] { elfgen::set_field(&mut b, f, 3 * dynent); }
    }
    if g("soname") == "offset_bad" { elfgen::set_field(&mut b, "dyn0.d_val", 5000); }
    let (bid, so) = if c["src"].as_str() == Some("memory") { run_readers_memory(&b.bytes) } else { run_readers(&b.bytes) };
    // the same image through read_from_file
    let path = format!("{tmpdir}/case_{}.elf", std::process::id());
    let _ = std::fs::write(&path, &b.bytes);
    let p2 = path.clone();
    let fb = with_deadline(move || std::panic::catch_unwind(|| BuildId::read_from_file(std::path::Path::new(&p2))));
    let file_same = match (&fb, bid["res"].as_str()) {
        (Some(Ok(Ok(BuildId(v)))), Some("ok")) => hexs(v) == bid["hex"].as_str().unwrap_or(""),
        (Some(Ok(Err(_))), Some("err")) => true,
        _ => false,
    };
    let _ = std::fs::remove_file(&path);
    let ob = elfgen::oracle_build_id(&b.bytes);
    let os = elfgen::oracle_soname(&b.bytes);
    let so_class = match so["res"].as_str().unwrap_or("") {
        "ok" => if Some(so["hex"].as_str().unwrap_or("").to_string()) == spec.soname.as_ref().map(|s| hexs(s.as_bytes())) { "ok".to_string() } else { "other".into() },
        r => r.to_string(),
    };
    tr.emit(json!({"ev":"elf","origin":"tlc","flags":c,"bid":classify(&bid, &spec, &b.bytes),"so":so_class,"fileSame":file_same,
                   "oracleBid": ob.map(|x| x.1).unwrap_or("err"), "oracleSo": if os.is_some() { "ok" } else { "err" }}));
}

pub fn fuzz_cases(random: usize, seed: u64, tr: &mut Trace) {
    let mut r = Rng::new(seed);
    let vals = |size: u64| vec![0u64, 1, size.saturating_sub(1), size, size + 1, 0xffff_ffff, 1 << 63, u64::MAX, u64::MAX - 7, 0x7fff_ffff_ffff_ffff];
    let emit = |kind: &str, what: String, bytes: &[u8], tr: &mut Trace| {
        if too_many_hangs() { return; }      // every further case would cost the full budget; what was seen is reported
        let (bid, so) = run_readers(bytes);
        tr.emit(json!({"ev":"fuzz","kind":kind,"what":what,"bid":bid["res"],"so":so["res"]}));
    };
    for bits64 in [true, false] {
        for (ph, sh) in [(true, true), (false, true), (true, false)] {
            let spec = Spec { bits64, phdrs: ph, shdrs: sh, ph_note: ph, ..Default::default() };
            let base = elfgen::build(&spec);
            let size = base.bytes.len() as u64;
            // every consumed field singly at boundary values
            for name in base.fields.keys() {
                for v in vals(size) {
                    let mut b = elfgen::Built { bytes: base.bytes.clone(), fields: base.fields.clone() };
                    elfgen::set_field(&mut b, name, v);
                    emit("field", format!("{name}={v:#x} bits64={bits64} ph={ph} sh={sh}"), &b.bytes, tr);
                }
            }
            // random pairs and triples of fields
            let names: Vec<String> = base.fields.keys().cloned().collect();
            for _ in 0..random {
                let mut b = elfgen::Built { bytes: base.bytes.clone(), fields: base.fields.clone() };
                let k = r.range(2, 3);
                let mut what = String::new();
                for _ in 0..k {
                    let n = r.pick(&names).clone();
                    let v = *r.pick(&vals(size));
                    elfgen::set_field(&mut b, &n, v);
                    what += &format!("{n}={v:#x} ");
                }
                emit("fields", what, &b.bytes, tr);
            }
        }
    }
    // the three-field pattern: no program headers, section-name table at the very end of the address space, first name beyond it
    for bits64 in [true, false] {
        let mut b = elfgen::build(&Spec { bits64, phdrs: false, ph_note: false, ..Default::default() });
        elfgen::set_field(&mut b, "sh3.sh_offset", u64::MAX);
        elfgen::set_field(&mut b, "sh3.sh_size", u64::MAX);
        elfgen::set_field(&mut b, "sh0.sh_name", 0xffff_fff0);
        emit("triple", format!("shstrtab at the end of the address space, bits64={bits64}"), &b.bytes, tr);
        let mut b = elfgen::build(&Spec { bits64, phdrs: false, ph_note: false, ..Default::default() });
        elfgen::set_field(&mut b, "sh5.sh_offset", u64::MAX - 2);
        elfgen::set_field(&mut b, "sh5.sh_size", u64::MAX);
        emit("triple", format!("dynstr at the end of the address space, bits64={bits64}"), &b.bytes, tr);
    }
    // unstructured input: random bytes and byte flips of a valid image
    let base = elfgen::build(&Spec::default());
    for i in 0..random * 2 {
        let mut bytes = if i % 2 == 0 { base.bytes.clone() } else { let mut v = vec![0u8; r.range(0, 600) as usize]; r.fill(&mut v); if v.len() > 8 && i % 4 == 1 { v[..4].copy_from_slice(&[0x7f, b'E', b'L', b'F']); v[4] = 2; v[5] = 1; } v };
        if i % 2 == 0 {
            for _ in 0..r.range(1, 6) {
                let at = r.below(0x400.min(bytes.len() as u64)) as usize;
                bytes[at] = r.next() as u8;
            }
        }
        emit("bytes", format!("#{i}"), &bytes, tr);
    }
}

pub fn system_files(limit: usize, tr: &mut Trace) {
    let mut n = 0;
    let mut stack: Vec<std::path::PathBuf> = ["/usr/lib/x86_64-linux-gnu", "/usr/bin", "/usr/lib/jvm", "/opt/veriftools", "/verif/harness/target/debug"].iter().map(|s| s.into()).collect();
    while let Some(dir) = stack.pop() {
        let Ok(rd) = std::fs::read_dir(&dir) else { continue };
        let mut ents: Vec<_> = rd.flatten().collect();
        ents.sort_by_key(|e| e.file_name());
        for e in ents {
            if n >= limit || too_many_hangs() { return; }
            let p = e.path();
            let Ok(md) = std::fs::symlink_metadata(&p) else { continue };
            if md.is_dir() { if stack.len() < 200 { stack.push(p); } continue; }
            if !md.is_file() || md.len() < 64 || md.len() > 64 << 20 { continue; }
            let Ok(bytes) = std::fs::read(&p) else { continue };
            if bytes.get(..4) != Some(&[0x7f, b'E', b'L', b'F'][..]) { continue; }
            let (bid, so) = run_readers(&bytes);
            let ob = elfgen::oracle_build_id(&bytes);
            let os = elfgen::oracle_soname(&bytes);
            let bid_agree = match (&ob, bid["res"].as_str()) {
                (Some((id, _)), Some("ok")) => hexs(id) == bid["hex"].as_str().unwrap_or(""),
                (None, Some("err")) => true,
                _ => false,
            };
            let so_agree = match (&os, so["res"].as_str()) {
                (Some(s), Some("ok")) => hexs(s) == so["hex"].as_str().unwrap_or(""),
                (None, Some("err")) => true,
                _ => false,
            };
            tr.emit(json!({"ev":"sys","path":p.to_string_lossy(),"bid":bid["res"],"so":so["res"],"bidAgree":bid_agree,"soAgree":so_agree,
                           "oracle": ob.map(|x| x.1).unwrap_or("none")}));
            n += 1;
        }
    }
}

/// memory vs file for every file-backed offset-0 mapping of a live target
pub fn live_mappings(workdir: &str, tr: &mut Trace) {
    use minidump_writer::ptrace_dumper::PtraceDumper;
    // besides the target's own (position-independent) modules: an image linked and mapped at a fixed address, where
    // virtual addresses are not offsets from the start of the module
    let fixed = format!("{workdir}/fixed_{}.elf", std::process::id());
    let img = elfgen::build(&Spec { vshift: 0x40_0000, soname: None, id_ph: (50..70).collect(), ..Default::default() });
    let _ = std::fs::write(&fixed, &img.bytes);
    // and an image with a SONAME mapped as it stands at an address of the kernel's choice: nothing relocates its dynamic
    // section, DT_STRTAB stays a (small) link-time address, as under loaders that do not rewrite it (and in the vDSO)
    let raw = format!("{workdir}/rawmapped_{}.elf", std::process::id());
    let img2 = elfgen::build(&Spec { soname: Some("librawmapped.so.4".into()), id_ph: (90..110).collect(), ..Default::default() });
    let _ = std::fs::write(&raw, &img2.bytes);
    // and one whose SONAME is far longer than a file name can be (a string table does not care)
    let longso = format!("{workdir}/longsoname_{}.elf", std::process::id());
    let img4 = elfgen::build(&Spec { soname: Some(format!("lib{}.so.9", "y".repeat(900))), id_ph: (170..190).collect(), ..Default::default() });
    let _ = std::fs::write(&longso, &img4.bytes);
    // and an image without section headers whose FIRST note segment is empty (legal, unusual): the build id is in the second
    let twonotes = format!("{workdir}/twonotes_{}.elf", std::process::id());
    let mut img3 = elfgen::build(&Spec { shdrs: false, soname: None, id_ph: (130..150).collect(), ..Default::default() });
    let (note_off, note_len) = (img3.fields["phnote.namesz"].0 as u64, 16 + 20);
    for (f, v) in [("ph1.p_filesz", 0), ("ph1.p_memsz", 0), ("ph2.p_type", 4), ("ph2.p_offset", note_off), ("ph2.p_vaddr", note_off), ("ph2.p_paddr", note_off),
                   ("ph2.p_filesz", note_len), ("ph2.p_memsz", note_len), ("ph2.p_align", 4)] {
        elfgen::set_field(&mut img3, f, v);
    }
    let _ = std::fs::write(&twonotes, &img3.bytes);
    let Ok(t) = TargetProc::spawn(&json!({"threads": [], "file_maps": [{"path": fixed, "off": 0, "len": img.bytes.len(), "exec": true, "fixed": 0x40_0000},
                                                                       {"path": raw, "off": 0, "len": img2.bytes.len(), "exec": true},
                                                                       {"path": twonotes, "off": 0, "len": img3.bytes.len(), "exec": true},
                                                                       {"path": longso, "off": 0, "len": img4.bytes.len(), "exec": true}]}), workdir, "elf") else { return };
    let Ok(mut d) = PtraceDumper::new_report_soft_errors(t.pid, std::time::Duration::from_secs(2), Default::default(), error_graph::strategy::DontCare) else { return };
    d.suspend_threads(error_graph::strategy::DontCare);
    for m in d.mappings.clone() {
        if too_many_hangs() { break; }
        let Some(name) = m.name.as_ref().map(|n| n.to_string_lossy().into_owned()) else { continue };
        // the vDSO has no file: its image is read out of the target and given to the readers as a byte slice
        if name == "[vdso]" || name == "linux-gate.so" {
            let Some(bytes) = crate::target::read_mem(t.pid, m.start_address as u64, m.size) else { continue };
            let mem_id = std::panic::catch_unwind(|| PtraceDumper::from_process_memory_for_mapping::<BuildId>(&m, t.pid)).map(|r| r.map(|b| hexs(&b.0)).ok());
            let mem_so = std::panic::catch_unwind(|| PtraceDumper::from_process_memory_for_mapping::<SoName>(&m, t.pid)).map(|r| r.map(|s| s.0).ok());
            let panicked = mem_id.is_err() || mem_so.is_err();
            let (mem_id, mem_so) = (mem_id.ok().flatten(), mem_so.ok().flatten());
            let (b, s) = run_readers(&bytes);
            let sl_id = b["hex"].as_str().map(|x| x.to_string());
            let sl_so = s["hex"].as_str().map(|h| String::from_utf8_lossy(&(0..h.len() / 2).map(|i| u8::from_str_radix(&h[2 * i..2 * i + 2], 16).unwrap_or(0)).collect::<Vec<u8>>()).into_owned());
            tr.emit(json!({"ev":"live","path":"[vdso]","panic": panicked || b["res"] == "panic" || s["res"] == "panic",
                           "memId": mem_id.clone().unwrap_or_default(), "fileId": sl_id.clone().unwrap_or_default(), "idSame": mem_id == sl_id, "soSame": mem_so == sl_so}));
            continue;
        }
        if !name.starts_with('/') || m.offset != 0 || !std::path::Path::new(&name).exists() { continue; }
        let mem = std::panic::catch_unwind(|| PtraceDumper::from_process_memory_for_mapping::<BuildId>(&m, t.pid));
        let file = std::panic::catch_unwind(|| BuildId::read_from_file(std::path::Path::new(&name)));
        let (mr, fr) = (mem.as_ref().map(|r| r.as_ref().map(|b| hexs(&b.0)).ok()), file.as_ref().map(|r| r.as_ref().map(|b| hexs(&b.0)).ok()));
        let so_mem = std::panic::catch_unwind(|| PtraceDumper::from_process_memory_for_mapping::<SoName>(&m, t.pid)).map(|r| r.map(|s| s.0).ok());
        let so_file = std::panic::catch_unwind(|| SoName::read_from_file(std::path::Path::new(&name))).map(|r| r.map(|s| s.0).ok());
        tr.emit(json!({"ev":"live","path":name,"panic": mr.is_err() || fr.is_err() || so_mem.is_err() || so_file.is_err(),
                       "memId": mr.clone().ok().flatten().unwrap_or_default(), "fileId": fr.clone().ok().flatten().unwrap_or_default(), "idSame": mr.ok().flatten() == fr.ok().flatten(),
                       "soSame": so_mem.ok().flatten() == so_file.ok().flatten()}));
    }
    d.resume_threads(error_graph::strategy::DontCare);
    let _ = std::fs::remove_file(&fixed);
    let _ = std::fs::remove_file(&raw);
    let _ = std::fs::remove_file(&twonotes);
    let _ = std::fs::remove_file(&longso);
}
