//! Conformance harness for minidump-writer: shared pieces of `mdw-drive` and `mdw-target`.
pub mod dirops;
pub mod dumprun;
pub mod elfcases;
pub mod elfgen;
pub mod flood;
pub mod imgops;
pub mod maps;
pub mod mdparse;
pub mod memread;
pub mod pattern;
pub mod pure;
pub mod recdest;
pub mod rng;
pub mod sanitize;
pub mod synth;
pub mod target;
pub mod trace;

pub use serde_json::{json, Value};

static SEQ: std::sync::atomic::AtomicU64 = std::sync::atomic::AtomicU64::new(0);
/// one process-wide sequence for hook events and destination calls (they happen on one thread)
pub fn next_seq() -> u64 {
    SEQ.fetch_add(1, std::sync::atomic::Ordering::SeqCst) + 1
}
