//! Conformance harness for minidump-writer: shared pieces of `mdw-drive` and `mdw-target`.
pub mod dirops;
pub mod imgops;
pub mod maps;
pub mod recdest;
pub mod rng;
pub mod sanitize;
pub mod synth;
pub mod trace;

pub use serde_json::{json, Value};
