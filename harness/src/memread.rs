//! C17: the three remote-memory read strategies of `MemReader` on a pattern-filled region of a
//! ptrace-attached target that ends at an unmapped page.
use crate::{rng::Rng, target::{self, TargetProc}, trace::Trace};
use minidump_writer::mem_reader::MemReader;
use serde_json::{json, Value};

fn attach(tid: i32) -> bool {
    unsafe {
        if libc::ptrace(libc::PTRACE_ATTACH, tid, 0, 0) != 0 {
            return false;
        }
        let mut st = 0;
        libc::waitpid(tid, &mut st, libc::__WALL) == tid && libc::WIFSTOPPED(st)
    }
}

fn reader(pid: i32, style: &str) -> Result<MemReader, String> {
    Ok(match style {
        "vmem" => MemReader::for_virtual_mem(pid),
        "file" => MemReader::for_file(pid).map_err(|e| e.to_string())?,
        "auto" => MemReader::new(pid),
        _ => MemReader::for_ptrace(pid),
    })
}

fn one(pid: i32, style: &str, addr: u64, n: usize, oracle: &dyn Fn(u64, usize) -> Vec<u8>) -> Value {
    let mut rd = match reader(pid, style) {
        Ok(r) => r,
        Err(e) => return json!({"res":"tool","error":e}),
    };
    one_with(&mut rd, addr, n, oracle)
}

/// one read on a reader that may have served reads before (a reader's answer may not depend on its history)
fn one_with(rd: &mut MemReader, addr: u64, n: usize, oracle: &dyn Fn(u64, usize) -> Vec<u8>) -> Value {
    let r = std::panic::catch_unwind(std::panic::AssertUnwindSafe(|| rd.read_to_vec(addr as usize, std::num::NonZeroUsize::new(n).unwrap())));
    match r {
        Err(_) => json!({"res":"panic","got":0,"prefixOk":false}),
        Ok(Err(_)) => json!({"res":"err","got":0,"prefixOk":true}),
        Ok(Ok(v)) => {
            let truth = oracle(addr, v.len());
            json!({"res":"ok","got":v.len(),"prefixOk": v.len() <= n && truth.len() == v.len() && truth == v})
        }
    }
}

pub fn run(cases: &[Value], random: usize, seed: u64, workdir: &str, tr: &mut Trace) {
    let pages = 20usize;
    // all-ones words at and near the end of the readable extent and further inside, aligned and not
    let ones: Vec<usize> = vec![16, 40, 808, 8192 + 3, 8192 + 64, 30000];
    let cfg = json!({"threads": [], "regions": [{"name": "r", "len": pages * 4096, "above": "hole", "below": "guard", "ones_before_end": ones},
                                                 {"name": "g", "len": 8192, "above": "guard", "below": "hole"}]});
    let t = match TargetProc::spawn(&cfg, workdir, "mem") {
        Ok(t) => t,
        Err(e) => {
            tr.emit(json!({"ev":"mem","error":e}));
            return;
        }
    };
    let pid = t.pid;
    if !attach(pid) {
        tr.emit(json!({"ev":"mem","error":"cannot attach"}));
        return;
    }
    let start = t.report["regions"]["r"]["addr"].as_u64().unwrap();
    let end = start + (pages * 4096) as u64; // first unreadable byte (a hole)
    // oracle: the fill pattern is address-derived; the harness reads it once through /proc/<pid>/mem and cross-checks
    // it against the formula (so a strategy cannot be its own oracle)
    let whole = target::read_mem(pid, start, pages * 4096).unwrap_or_default();
    let planted = |i: usize| ones.iter().any(|k| { let at = pages * 4096 - k; i + 8 > at && i < at + 8 });
    let ones_ok = whole.len() == pages * 4096 && ones.iter().all(|k| whole[pages * 4096 - k..pages * 4096 - k + 8] == [0xffu8; 8]);
    let formula_ok = ones_ok && (0..whole.len()).step_by(8).filter(|i| !planted(*i)).all(|i| {
        let a = start + i as u64;
        let v = (crate::pattern::mix(a) | 0x8000_0000_0000_0000) & !0x0000_8000_0000_0000;
        whole[i..i + 8] == v.to_ne_bytes()
    });
    let oracle = |a: u64, n: usize| -> Vec<u8> {
        if a < start || a >= end { return vec![]; }
        let lo = (a - start) as usize;
        whole[lo..(lo + n).min(whole.len())].to_vec()
    };
    tr.emit(json!({"ev":"meminfo","R": pages * 4096, "oracleOk": formula_ok}));
    // model cases: [0, R) of the model is the last R bytes before the hole
    for c in cases {
        let (s, n, style) = (c["s"].as_u64().unwrap(), c["n"].as_u64().unwrap() as usize, c["style"].as_str().unwrap());
        let rr = 24u64;
        let mut ev = one(pid, style, end - rr + s, n, &oracle);
        ev["ev"] = json!("mem");
        ev["origin"] = json!("tlc");
        ev["style"] = json!(style);
        ev["s"] = json!(s);
        ev["n"] = json!(n);
        ev["R"] = json!(rr);
        tr.emit(ev);
    }
    let mut r = Rng::new(seed);
    let big_r = (pages * 4096) as u64;
    for _ in 0..random {
        let style = *r.pick(&["vmem", "file", "ptrace"]);
        let n = match r.below(5) { 0 => r.range(1, 16), 1 => r.range(1, 300), 2 => r.range(1, 65536), 3 => 8 * r.range(1, 512), _ => r.range(1, 9000) } as usize;
        // start so that the range ends inside, exactly at, or beyond the end of the readable region
        let endoff = match r.below(4) { 0 => big_r, 1 => big_r - r.below(16), 2 => big_r + r.range(1, 64), _ => r.range(n as u64 % big_r + 1, big_r) };
        let s = endoff.saturating_sub(n as u64);
        if s >= big_r { continue; }
        let mut ev = one(pid, style, start + s, n, &oracle);
        ev["ev"] = json!("mem");
        ev["origin"] = json!("random");
        ev["style"] = json!(style);
        ev["s"] = json!(s);
        ev["n"] = json!(n);
        ev["R"] = json!(big_r);
        tr.emit(ev);
    }
    // histories on ONE reader per strategy: reads that succeed, reads that run into the hole and fail, and reads that start exactly
    // where an earlier one ended or failed - each judged like a single read
    for style in ["vmem", "file", "ptrace", "auto"] {
        let Ok(mut rd) = reader(pid, style) else { continue };
        let mut last_end = start + 64;
        for k in 0..(random / 3).max(60) {
            let (s, n) = match k % 6 {
                0 => (r.below(big_r - 300), r.range(1, 200) as usize),                      // somewhere inside
                1 => (big_r - r.range(1, 40), r.range(41, 100) as usize),                   // across the end: fails or is cut short
                2 => (last_end - start, r.range(1, 120) as usize),                          // exactly where the last read ended
                3 => (big_r - r.range(1, 64), 1 + r.below(8) as usize),                     // in the last words
                4 => (big_r + r.range(0, 32), 8),                                           // wholly unreadable
                _ => (last_end - start, 8 * r.range(1, 20) as usize),
            };
            if s >= big_r + 64 { continue; }
            let mut ev = one_with(&mut rd, start + s, n, &oracle);
            if ev["res"] == "ok" { last_end = start + s + ev["got"].as_u64().unwrap_or(0); }
            ev["ev"] = json!("mem");
            ev["origin"] = json!("history");
            ev["style"] = json!(if style == "auto" { "vmem" } else { style });
            ev["s"] = json!(s);
            ev["n"] = json!(n);
            ev["R"] = json!(big_r);
            tr.emit(ev);
        }
    }
    unsafe { libc::ptrace(libc::PTRACE_DETACH, pid, 0, 0) };
}
