//! A `PtraceDumper` over a throw-away child whose `mappings` are replaced by synthetic ones, for
//! driving the pure functions (get_stack_info, sanitize_stack_copy, find_mapping*).
use minidump_writer::{
    maps_reader::{MappingInfo, SystemMappingInfo},
    ptrace_dumper::PtraceDumper,
};
use procfs_core::process::MMPermissions;
use std::time::Duration;

pub struct Synth {
    pub dumper: Option<PtraceDumper>,
    pub child: libc::pid_t,
}

impl Synth {
    pub fn new() -> Result<Self, String> {
        // SAFETY: the driver is single-threaded when this is called; the child only pauses
        let child = unsafe { libc::fork() };
        if child < 0 {
            return Err("fork failed".into());
        }
        if child == 0 {
            loop {
                unsafe { libc::pause() };
            }
        }
        let dumper = PtraceDumper::new_report_soft_errors(child, Duration::from_millis(1000), Default::default(), error_graph::strategy::DontCare)
            .map_err(|e| format!("PtraceDumper::new: {e}"))?;
        Ok(Synth { dumper: Some(dumper), child })
    }
    pub fn d(&mut self) -> &mut PtraceDumper {
        self.dumper.as_mut().unwrap()
    }
}

impl Drop for Synth {
    fn drop(&mut self) {
        self.dumper.take();
        unsafe {
            libc::kill(self.child, libc::SIGKILL);
            let mut st = 0;
            libc::waitpid(self.child, &mut st, 0);
        }
    }
}

pub fn perms(s: &str) -> MMPermissions {
    let b = s.as_bytes();
    let mut p = MMPermissions::empty();
    if b.first() == Some(&b'r') { p |= MMPermissions::READ; }
    if b.get(1) == Some(&b'w') { p |= MMPermissions::WRITE; }
    if b.get(2) == Some(&b'x') { p |= MMPermissions::EXECUTE; }
    match b.get(3) {
        Some(&b'p') => p |= MMPermissions::PRIVATE,
        Some(&b's') => p |= MMPermissions::SHARED,
        _ => {}
    }
    p
}

pub fn mapping(start: usize, end: usize, permissions: &str, name: Option<&str>) -> MappingInfo {
    MappingInfo {
        start_address: start,
        size: end - start,
        system_mapping_info: SystemMappingInfo { start_address: start, end_address: end },
        offset: 0,
        permissions: perms(permissions),
        name: name.map(|n| n.into()),
    }
}
