//! Full-dump scenarios: spawn a shaped target, run `MinidumpWriter::dump` (once or as a history on
//! one writer) in a watchdogged worker process with hooks, fail points and a recording destination,
//! decode the result with `mdparse`, read the oracles from /proc, and log one raw record per dump.
use crate::{
    mdparse,
    recdest::{Call, RecDest},
    target::{self, TargetProc},
    trace::Trace,
};
use minidump_writer::{
    app_memory::AppMemory,
    crash_context::CrashContext,
    maps_reader::{MappingEntry, MappingInfo, SystemMappingInfo},
    minidump_writer::{DirectAuxvDumpInfo, MinidumpWriter},
    FailSpotName,
};
use serde_json::{json, Value};
use std::sync::Mutex;
use std::time::{Duration, Instant};

// ------------------------------------------------------------------ address specs
pub fn num(v: &Value) -> Option<u64> {
    match v {
        Value::Number(n) => n.as_u64().or_else(|| n.as_i64().map(|x| x as u64)),
        Value::String(s) => {
            let s = s.trim();
            if let Some(h) = s.strip_prefix("0x") { u64::from_str_radix(h, 16).ok() } else { s.parse::<u64>().ok().or_else(|| s.parse::<i64>().ok().map(|x| x as u64)) }
        }
        _ => None,
    }
}

fn thread_by_slot(report: &Value, slot: u64) -> &Value {
    &report["threads"][slot as usize]
}

pub fn resolve(spec: &Value, report: &Value) -> u64 {
    if let Some(n) = num(spec) {
        return n;
    }
    let off = spec.get("off").and_then(|o| o.as_i64()).unwrap_or(0);
    let base: u64 = if let Some(r) = spec.get("region").and_then(|r| r.as_str()) {
        report["regions"][r]["addr"].as_u64().unwrap_or(0)
    } else if let Some(r) = spec.get("region_end").and_then(|r| r.as_str()) {
        report["regions"][r]["addr"].as_u64().unwrap_or(0) + report["regions"][r]["len"].as_u64().unwrap_or(0)
    } else if let Some(r) = spec.get("region_map").and_then(|r| r.as_str()) {
        report["regions"][r]["map_start"].as_u64().unwrap_or(0)
    } else if let Some(r) = spec.get("region_map_end").and_then(|r| r.as_str()) {
        report["regions"][r]["map_start"].as_u64().unwrap_or(0) + report["regions"][r]["map_len"].as_u64().unwrap_or(0)
    } else if let Some(s) = spec.get("thread_sp").and_then(|s| s.as_u64()) {
        thread_by_slot(report, s)["sp"].as_u64().unwrap_or(0)
    } else if let Some(s) = spec.get("thread_stack").and_then(|s| s.as_u64()) {
        thread_by_slot(report, s)["stack_start"].as_u64().unwrap_or(0)
    } else if let Some(s) = spec.get("thread_stack_end").and_then(|s| s.as_u64()) {
        thread_by_slot(report, s)["stack_start"].as_u64().unwrap_or(0) + thread_by_slot(report, s)["stack_len"].as_u64().unwrap_or(0)
    } else if let Some(k) = spec.get("chain").and_then(|s| s.as_str()) {
        report["linker_chain"][k].as_u64().unwrap_or(0)
    } else if let Some(i) = spec.get("file_map").and_then(|s| s.as_u64()) {
        report["file_maps"][i as usize]["addr"].as_u64().unwrap_or(0)
    } else if let Some(k) = spec.get("auxv").and_then(|s| s.as_u64()) {
        report["real_auxv"][k.to_string()].as_u64().unwrap_or(0)
    } else if let Some(m) = spec.get("module").and_then(|s| s.as_str()) {
        report["modules"][m].as_u64().unwrap_or(0)
    } else if spec.get("parked_ip").is_some() {
        report["threads"].as_array().and_then(|a| a.iter().find_map(|t| t["parked_ip"].as_u64())).unwrap_or(0)
    } else {
        0
    };
    (base as i64).wrapping_add(off) as u64
}

pub fn resolve_tid(spec: &Value, report: &Value) -> i32 {
    match spec {
        Value::String(s) if s == "main" => report["pid"].as_i64().unwrap_or(0) as i32,
        Value::String(s) if s == "absent" => 0x3fff_fff0,
        Value::Object(o) if o.contains_key("slot") => report["threads"][o["slot"].as_u64().unwrap_or(0) as usize]["tid"].as_i64().unwrap_or(0) as i32,
        Value::Object(o) if o.contains_key("tid") => o["tid"].as_i64().unwrap_or(0) as i32,
        Value::Number(n) => n.as_i64().unwrap_or(0) as i32,
        _ => report["pid"].as_i64().unwrap_or(0) as i32,
    }
}

// ------------------------------------------------------------------ crash context
fn mix(a: u64) -> u64 {
    let mut z = a.wrapping_add(0x9E37_79B9_7F4A_7C15);
    z = (z ^ (z >> 30)).wrapping_mul(0xBF58_476D_1CE4_E5B9);
    z = (z ^ (z >> 27)).wrapping_mul(0x94D0_49BB_1331_11EB);
    z ^ (z >> 31)
}

pub const GREG_NAMES: [&str; 23] = [
    "r8", "r9", "r10", "r11", "r12", "r13", "r14", "r15", "rdi", "rsi", "rbp", "rbx", "rdx", "rax", "rcx", "rsp", "rip", "efl", "csgsfs",
    "err", "trapno", "oldmask", "cr2",
];

/// Builds a crash context whose every field is distinct (derived from the seeds), with sp/ip as given.
/// Returns the context and a JSON description of what was supplied (the oracle for C05).
pub fn build_crash_context(cc: &Value, report: &Value, tid: i32) -> (CrashContext, Value) {
    let seed = cc.get("gregs_seed").and_then(|v| v.as_u64()).unwrap_or(1);
    let fseed = cc.get("fp_seed").and_then(|v| v.as_u64()).unwrap_or(seed + 17);
    let mut ctx: crash_context::ucontext_t = unsafe { std::mem::zeroed() };
    let mut supplied = serde_json::Map::new();
    for (i, name) in GREG_NAMES.iter().enumerate() {
        let mut v = mix(seed * 131 + i as u64);
        if let Some(o) = cc.get("gregs").and_then(|g| g.get(*name)) {
            v = resolve(o, report);
        }
        ctx.uc_mcontext.gregs[i] = v as i64;
    }
    if let Some(sp) = cc.get("sp") {
        ctx.uc_mcontext.gregs[15] = resolve(sp, report) as i64;
    }
    if let Some(ip) = cc.get("ip") {
        ctx.uc_mcontext.gregs[16] = resolve(ip, report) as i64;
    }
    for (i, name) in GREG_NAMES.iter().enumerate() {
        supplied.insert(name.to_string(), json!(format!("{:x}", ctx.uc_mcontext.gregs[i] as u64)));
    }
    let mut fs: crash_context::fpregset_t = unsafe { std::mem::zeroed() };
    fs.cwd = mix(fseed) as u16;
    fs.swd = mix(fseed + 1) as u16;
    fs.ftw = mix(fseed + 2) as u16;
    fs.fop = mix(fseed + 3) as u16;
    fs.rip = mix(fseed + 4);
    fs.rdp = mix(fseed + 5);
    fs.mxcsr = mix(fseed + 6) as u32;
    fs.mxcr_mask = mix(fseed + 7) as u32;
    for (i, x) in fs.st_space.iter_mut().enumerate() {
        *x = mix(fseed * 3 + 100 + i as u64) as u32;
    }
    for (i, x) in fs.xmm_space.iter_mut().enumerate() {
        *x = mix(fseed * 5 + 200 + i as u64) as u32;
    }
    let stb: Vec<u8> = fs.st_space.iter().flat_map(|x| x.to_le_bytes()).collect();
    let xmb: Vec<u8> = fs.xmm_space.iter().flat_map(|x| x.to_le_bytes()).collect();
    for (k, v) in [("cwd", fs.cwd as u64), ("swd", fs.swd as u64), ("ftw", fs.ftw as u64), ("fop", fs.fop as u64), ("fp_rip", fs.rip),
                   ("fp_rdp", fs.rdp), ("mxcsr", fs.mxcsr as u64), ("mxcr_mask", fs.mxcr_mask as u64)] {
        supplied.insert(k.to_string(), json!(format!("{v:x}")));
    }
    supplied.insert("st".into(), json!(mdparse::hexs(&stb)));
    supplied.insert("xmm".into(), json!(mdparse::hexs(&xmb)));
    let mut si: libc::signalfd_siginfo = unsafe { std::mem::zeroed() };
    let sig = cc.get("siginfo");
    si.ssi_signo = sig.and_then(|s| s.get("signo")).and_then(num).unwrap_or(11) as u32;
    si.ssi_code = sig.and_then(|s| s.get("code")).and_then(num).map(|x| x as i64 as i32).unwrap_or(1);
    si.ssi_addr = sig.and_then(|s| s.get("addr")).map(|a| resolve(a, report)).unwrap_or(mix(seed + 999));
    // every other field gets a distinct non-zero decoy: a record built from the wrong field cannot equal the supplied one
    let d = |k: u64| mix(seed * 7919 + 5000 + k) | 0x0101_0101;
    si.ssi_errno = d(1) as i32; si.ssi_pid = d(2) as u32; si.ssi_uid = d(3) as u32; si.ssi_fd = d(4) as i32; si.ssi_tid = d(5) as u32;
    si.ssi_band = d(6) as u32; si.ssi_overrun = d(7) as u32; si.ssi_trapno = d(8) as u32; si.ssi_status = d(9) as i32; si.ssi_int = d(10) as i32;
    si.ssi_ptr = d(11); si.ssi_utime = d(12); si.ssi_stime = d(13); si.ssi_addr_lsb = d(14) as u16; si.ssi_syscall = d(15) as i32;
    si.ssi_call_addr = d(16); si.ssi_arch = d(17) as u32;
    supplied.insert("signo".into(), json!(si.ssi_signo));
    supplied.insert("code".into(), json!(si.ssi_code as u32));
    supplied.insert("fault_addr".into(), json!(format!("{:x}", si.ssi_addr)));
    // the thread id stored inside the context is the blamed thread's unless the scenario says otherwise ("tid": a thread spec or a number)
    let tid = match cc.get("tid") {
        Some(t) if t.is_object() || t.is_string() => resolve_tid(t, report),
        Some(t) => t.as_i64().unwrap_or(0) as i32,
        None => tid,
    };
    supplied.insert("ctx_tid".into(), json!(tid));
    let inner = crash_context::CrashContext { context: ctx, float_state: fs, siginfo: si, pid: report["pid"].as_i64().unwrap_or(0) as i32, tid };
    (CrashContext { inner }, Value::Object(supplied))
}

// ------------------------------------------------------------------ writer construction
pub struct G { pub start: u64, pub end: u64, pub sys_end: u64, pub off: u64, pub name: Option<String>, pub perms: Vec<String>, pub exec: bool, pub privonly: bool, pub deleted: bool }
/// mapping groups exactly as MapsAggregate (the model validated by C13) forms them
pub fn mapping_groups(lines: &[crate::maps::Line]) -> Vec<G> {
    let mut gs: Vec<G> = Vec::new();
    for l in lines {
        let is_path = |n: &Option<String>| n.as_deref().map(|s| s.contains('/')).unwrap_or(false);
        let lname = l.name.as_ref().map(|n| n.strip_suffix(" (deleted)").unwrap_or(n).to_string());
        let ldel = l.name.as_deref().map(|n| n.ends_with(" (deleted)")).unwrap_or(false);
        let lexec = l.perms.as_bytes().get(2) == Some(&b'x');
        let lpriv = l.perms == "---p";
        let n = gs.len();
        if n >= 1 {
            let contiguous = l.start == gs[n - 1].end;
            if contiguous && lname.is_some() && lname == gs[n - 1].name {
                let g = &mut gs[n - 1];
                g.end = l.end; g.sys_end = l.end; g.exec |= lexec; g.privonly &= lpriv; g.deleted |= ldel; g.perms.push(l.perms.clone());
                continue;
            } else if contiguous && gs[n - 1].exec && is_path(&gs[n - 1].name) && (l.off == 0 || l.off == gs[n - 1].end) && lpriv {
                gs[n - 1].end = l.end;
                continue;
            }
        }
        if n >= 2 {
            let (pp, p) = (&gs[n - 2], &gs[n - 1]);
            if is_path(&pp.name) && pp.end == p.start && p.off == 0 && p.privonly && p.name.is_none() && p.end == l.start && lname == pp.name {
                gs.pop();
                let g = gs.last_mut().unwrap();
                g.end = l.end; g.sys_end = l.end; g.exec |= lexec; g.privonly &= lpriv; g.deleted |= ldel; g.perms.push(l.perms.clone());
                continue;
            }
        }
        gs.push(G { start: l.start, end: l.end, sys_end: l.end, off: l.off, name: lname, perms: vec![l.perms.clone()], exec: lexec, privonly: lpriv, deleted: ldel });
    }
    gs
}

fn user_mapping(u: &Value, report: &Value) -> MappingEntry {
    let start = resolve(&u["start"], report) as usize;
    // "size": "group" = exactly the merged extent of the mapping group of the target that starts at `start`
    let size = if u["size"].as_str() == Some("group") {
        let text = String::from_utf8_lossy(&std::fs::read(format!("/proc/{}/maps", report["pid"].as_i64().unwrap_or(0))).unwrap_or_default()).into_owned();
        mapping_groups(&crate::maps::parse_text(&text)).iter().find(|g| g.start as usize == start).map(|g| (g.end - g.start) as usize).unwrap_or(4096)
    } else {
        u["size"].as_u64().unwrap_or(4096) as usize
    };
    let id: Vec<u8> = u["id_hex"].as_str().map(|s| (0..s.len() / 2).map(|i| u8::from_str_radix(&s[2 * i..2 * i + 2], 16).unwrap_or(0)).collect()).unwrap_or_default();
    MappingEntry {
        mapping: MappingInfo {
            start_address: start,
            size,
            system_mapping_info: SystemMappingInfo { start_address: start, end_address: start.wrapping_add(size) },
            offset: u["offset"].as_u64().unwrap_or(0) as usize,
            permissions: crate::synth::perms(u["perms"].as_str().unwrap_or("r-xp")),
            name: u["name"].as_str().map(|s| s.into()),
        },
        identifier: id,
    }
}

/// What the caller has set on the writer (its public configuration fields), as values that can be compared.
pub fn caller_config(w: &MinidumpWriter) -> Value {
    let cc = w.crash_context.as_ref().map(|c| {
        let b: &[u8] = unsafe { std::slice::from_raw_parts((&c.inner as *const crash_context::CrashContext).cast::<u8>(), std::mem::size_of::<crash_context::CrashContext>()) };
        b.iter().fold(0xcbf29ce484222325u64, |h, x| (h ^ *x as u64).wrapping_mul(0x100000001b3))
    });
    json!({
        "process_id": w.process_id, "blamed_thread": w.blamed_thread, "minidump_size_limit": w.minidump_size_limit,
        "skip_stacks_if_mapping_unreferenced": w.skip_stacks_if_mapping_unreferenced, "principal_mapping_address": w.principal_mapping_address,
        "user_mapping_list": w.user_mapping_list.iter().map(|m| json!([m.mapping.start_address, m.mapping.size, m.mapping.offset, m.mapping.name.as_ref().map(|n| n.to_string_lossy().into_owned()), mdparse::hexs(&m.identifier)])).collect::<Vec<_>>(),
        "app_memory": w.app_memory.iter().map(|a| json!([a.ptr, a.length])).collect::<Vec<_>>(),
        "sanitize_stack": w.sanitize_stack, "crash_context": cc, "stop_timeout_ns": w.stop_timeout.as_nanos().min(u64::MAX as u128) as u64,
        "direct_auxv_dump_info": w.direct_auxv_dump_info.as_ref().map(|d| json!([d.program_header_count, d.program_header_address, d.linux_gate_address, d.entry_address])),
    })
}

pub fn configure_writer(w: &mut MinidumpWriter, opts: &Value, report: &Value) -> Value {
    let mut info = json!({});
    if let Some(l) = opts.get("size_limit").and_then(|v| v.as_u64()) {
        w.set_minidump_size_limit(l);
    }
    if opts.get("sanitize").and_then(|v| v.as_bool()).unwrap_or(false) {
        w.sanitize_stack();
    }
    if opts.get("skip").and_then(|v| v.as_bool()).unwrap_or(false) {
        w.skip_stacks_if_mapping_unreferenced();
    }
    if opts.get("principal").and_then(|v| v.as_str()) == Some("unset") {
        w.principal_mapping_address = None;
        info["principal"] = Value::Null;
    } else if let Some(p) = opts.get("principal").filter(|v| !v.is_null()) {
        let a = resolve(p, report);
        w.set_principal_mapping_address(a as usize);
        info["principal"] = json!(a);
    }
    if let Some(am) = opts.get("app_memory").and_then(|v| v.as_array()) {
        let list: Vec<AppMemory> = am.iter().map(|m| AppMemory { ptr: resolve(&m["addr"], report) as usize, length: m["len"].as_u64().unwrap_or(0) as usize }).collect();
        info["app_memory"] = json!(list.iter().map(|m| json!([m.ptr, m.length])).collect::<Vec<_>>());
        w.set_app_memory(list);
    }
    if let Some(um) = opts.get("user_mappings").and_then(|v| v.as_array()) {
        let list: Vec<MappingEntry> = um.iter().map(|u| user_mapping(u, report)).collect();
        info["user_mappings"] = json!(list.iter().map(|m| json!({"start": m.mapping.start_address, "size": m.mapping.size,
            "name": m.mapping.name.as_ref().map(|n| n.to_string_lossy().into_owned()), "id_hex": mdparse::hexs(&m.identifier)})).collect::<Vec<_>>());
        w.set_user_mapping_list(list);
    }
    if let Some(da) = opts.get("direct_auxv").filter(|v| !v.is_null()) {
        let d = if da.as_str() == Some("linker_chain") {
            let lc = &report["linker_chain"];
            DirectAuxvDumpInfo { program_header_count: lc["phnum"].as_u64().unwrap_or(0), program_header_address: lc["phdr"].as_u64().unwrap_or(0), linux_gate_address: 0, entry_address: 0 }
        } else {
            DirectAuxvDumpInfo {
                program_header_count: da.get("phnum").map(|v| resolve(v, report)).unwrap_or(0),
                program_header_address: da.get("phdr").map(|v| resolve(v, report)).unwrap_or(0),
                linux_gate_address: da.get("gate").map(|v| resolve(v, report)).unwrap_or(0),
                entry_address: da.get("entry").map(|v| resolve(v, report)).unwrap_or(0),
            }
        };
        info["direct_auxv"] = json!({"phnum": d.program_header_count, "phdr": d.program_header_address, "gate": d.linux_gate_address, "entry": d.entry_address});
        w.set_direct_auxv_dump_info(d);
    }
    if opts.get("stop_timeout_max").and_then(|v| v.as_bool()).unwrap_or(false) {
        w.stop_timeout(Duration::MAX);
    } else {
        w.stop_timeout(Duration::from_millis(opts.get("stop_timeout_ms").and_then(|v| v.as_u64()).unwrap_or(5000)));
    }
    info
}

// ------------------------------------------------------------------ hook plan (runs inside the dump)
#[derive(Default)]
struct Plan {
    pid: i32,
    steps: Vec<Value>,
    name_fail_tids: Vec<i32>,
    /// (hook point, tid filter (0 = any), action)
    actions: Vec<(String, i32, Value)>,
    shared_path: Option<String>,
    slot_tids: Vec<i32>,
    flush_images: bool,
    last_flush: Option<Vec<u8>>,
    dest_actions: Vec<(usize, Value)>,
}
static PLAN: Mutex<Option<Plan>> = Mutex::new(None);
thread_local! {
    static CLIENT: std::cell::RefCell<Option<failspot::testing::Client<'static, FailSpotName>>> = const { std::cell::RefCell::new(None) };
}

fn set_exit_flag(path: &str, slot: usize) {
    use std::os::unix::fs::FileExt;
    if let Ok(f) = std::fs::OpenOptions::new().write(true).open(path) {
        let _ = f.write_at(&1u64.to_le_bytes(), (slot * 64 + 32) as u64);
    }
}

fn do_action(plan: &mut Plan, act: &Value) {
    match act["do"].as_str().unwrap_or("") {
        "signal" => {
            let slot = act["to_slot"].as_u64().unwrap_or(0) as usize;
            let tid = if act["to"].as_str() == Some("main") { plan.pid } else { plan.slot_tids.get(slot).copied().unwrap_or(0) };
            let sig = match act["sig"].as_str().unwrap_or("rt") {
                "usr1" => libc::SIGUSR1,
                _ => libc::SIGRTMIN() + 1,
            };
            let r = unsafe { libc::syscall(libc::SYS_tgkill, plan.pid, tid, sig) };
            plan.steps.push(json!({"k":"send","tid":tid,"slot":slot,"sig":act["sig"].as_str().unwrap_or("rt"),"rc":r,"seq":crate::next_seq()}));
        }
        "exit" => {
            let slot = act["slot"].as_u64().unwrap_or(0) as usize;
            let tid = plan.slot_tids.get(slot).copied().unwrap_or(0);
            if let Some(p) = &plan.shared_path {
                set_exit_flag(p, slot);
            }
            // wait until the thread is gone (a group-stopped thread cannot exit: bounded wait)
            let t0 = Instant::now();
            let mut gone = false;
            while t0.elapsed() < Duration::from_millis(300) {
                if !std::path::Path::new(&format!("/proc/{}/task/{}", plan.pid, tid)).exists() {
                    gone = true;
                    break;
                }
                std::thread::sleep(Duration::from_micros(200));
            }
            plan.steps.push(json!({"k":"exit","tid":tid,"slot":slot,"gone":gone,"seq":crate::next_seq()}));
        }
        _ => {}
    }
}

fn hook(point: &'static str, args: &[(&'static str, i64)], bytes: Option<&[u8]>) {
    let mut g = PLAN.lock().unwrap_or_else(|e| e.into_inner());
    let Some(plan) = g.as_mut() else { return };
    let mut ev = json!({"k":"hook","p":point,"seq":crate::next_seq()});
    for (k, v) in args {
        ev[*k] = json!(v);
    }
    let tid = args.iter().find(|(k, _)| *k == "tid").map(|(_, v)| *v as i32).unwrap_or(0);
    if point == "flush" {
        if plan.flush_images {
            plan.last_flush = bytes.map(|b| b.to_vec());
        }
        // C09 at every flush of a real dump: compare the destination with the image right now
        DEST.with(|d| {
            if let (Some((dest, from)), Some(img)) = (d.borrow_mut().as_mut(), bytes) {
                let dd = dest.borrow();
                ev["obs"] = crate::dirops::observe(&dd, img, *from);
                *from = dd.calls.len();
            }
        });
    }
    plan.steps.push(ev);
    if point == "enumerate:entry" {
        let fail = plan.name_fail_tids.contains(&tid);
        CLIENT.with(|c| {
            if let Some(c) = c.borrow_mut().as_mut() {
                c.set_enabled(FailSpotName::ThreadName, fail);
            }
        });
    }
    let todo: Vec<Value> = plan.actions.iter().filter(|(p, t, _)| p == point && (*t == 0 || *t == tid)).map(|(_, _, a)| a.clone()).collect();
    if !todo.is_empty() {
        plan.actions.retain(|(p, t, _)| !(p == point && (*t == 0 || *t == tid)));
        for a in todo {
            do_action(plan, &a);
        }
    }
}

/// destination wrapper: numbers every call in the global sequence and runs planned actions at call indices
pub struct PlanDest {
    pub inner: std::rc::Rc<std::cell::RefCell<RecDest>>,
    pub seqs: std::rc::Rc<std::cell::RefCell<Vec<u64>>>,
}
thread_local! {
    static DEST: std::cell::RefCell<Option<(std::rc::Rc<std::cell::RefCell<RecDest>>, usize)>> = const { std::cell::RefCell::new(None) };
}
impl PlanDest {
    fn before(&mut self) {
        let k = self.inner.borrow().ncalls;
        let mut g = PLAN.lock().unwrap_or_else(|e| e.into_inner());
        if let Some(plan) = g.as_mut() {
            let todo: Vec<Value> = plan.dest_actions.iter().filter(|(i, _)| *i == k).map(|(_, a)| a.clone()).collect();
            plan.dest_actions.retain(|(i, _)| *i != k);
            for a in todo {
                do_action(plan, &a);
            }
        }
        self.seqs.borrow_mut().push(crate::next_seq());
    }
}
impl std::io::Write for PlanDest {
    fn write(&mut self, buf: &[u8]) -> std::io::Result<usize> {
        self.before();
        self.inner.borrow_mut().write(buf)
    }
    fn flush(&mut self) -> std::io::Result<()> {
        self.before();
        self.inner.borrow_mut().flush()
    }
}
impl std::io::Seek for PlanDest {
    fn seek(&mut self, to: std::io::SeekFrom) -> std::io::Result<u64> {
        self.before();
        self.inner.borrow_mut().seek(to)
    }
}

// ------------------------------------------------------------------ the worker: one scenario
fn failspot_by_name(n: &str) -> Option<FailSpotName> {
    Some(match n {
        "StopProcess" => FailSpotName::StopProcess,
        "FillMissingAuxvInfo" => FailSpotName::FillMissingAuxvInfo,
        "ThreadName" => FailSpotName::ThreadName,
        "SuspendThreads" => FailSpotName::SuspendThreads,
        "CpuInfoFileOpen" => FailSpotName::CpuInfoFileOpen,
        _ => return None,
    })
}

fn prefix_facts(dest: &RecDest, last_only: bool) -> Vec<Value> {
    // positions inside the destination's window (see RecDest::base)
    let start = dest.rel(dest.start);
    let mut out = Vec::new();
    let mut hi = start;
    for k in 0..dest.calls.len() {
        if let Call::Write { pos, data } = &dest.calls[k] {
            if *pos >= dest.base {
                hi = hi.max(dest.rel(*pos) + data.len());
            }
        }
        if last_only && k + 1 < dest.calls.len() {
            continue;
        }
        let content = dest.content_after(k + 1);
        let img = &content[start..hi.min(content.len())];
        let p = mdparse::parse(img);
        let entries: Vec<Value> = p.dir.iter().enumerate().map(|(i, (t, s, r))| json!([t, r, s, p.ref_end.get(i).copied().unwrap_or(0)])).collect();
        out.push(json!({"call": k, "kind": match &dest.calls[k] { Call::Write{..} => "write", Call::Seek{..} => "seek", Call::StreamPos{..} => "pos", Call::Flush => "flush", Call::Failed{..} => "failed" },
                        "fileLen": img.len(), "count": p.header.get("stream_count").cloned().unwrap_or(json!(0)),
                        "dirRva": p.header.get("dir_rva").cloned().unwrap_or(json!(0)),
                        "sigOk": p.header.get("sig_ok").cloned().unwrap_or(json!(false)), "dirComplete": p.complete, "entries": entries}));
    }
    out
}

fn raw_stream_compare(p: &mdparse::Parsed, img: &[u8], ty: u32, path: &str) -> Value {
    let Some(sb) = p.stream_bytes(img, ty) else { return json!({"present": false}) };
    match std::fs::read(path) {
        Ok(fb) => {
            let mis = sb.iter().zip(fb.iter()).position(|(a, b)| a != b).map(|x| x as i64).unwrap_or(if sb.len() == fb.len() { -1 } else { sb.len().min(fb.len()) as i64 });
            json!({"present": true, "len": sb.len(), "file_len": fb.len(), "mismatch": mis})
        }
        Err(e) => json!({"present": true, "len": sb.len(), "file_error": e.to_string()}),
    }
}

fn collect_oracles(report: &Value, pid: i32, blamed: i32, p: &mdparse::Parsed, img: &[u8], want_regs: bool, want_modules: bool) -> Value {
    let mut o = json!({});
    // threads as the kernel lists them now, their comm bytes and state
    let tids = target::list_tids(pid);
    o["tids"] = json!(tids);
    o["comm_hex"] = json!(tids.iter().map(|t| json!([t, target::comm_bytes(pid, *t).map(|b| mdparse::hexs(&b))])).collect::<Vec<_>>());
    // names in the memory map are arbitrary bytes: read it as bytes
    o["maps"] = json!(String::from_utf8_lossy(&std::fs::read(format!("/proc/{pid}/maps")).unwrap_or_default()).into_owned());
    // memory fidelity of every memory-list region and every thread stack
    let mut mems = Vec::new();
    if let Some(regs) = p.streams.get("memlist").and_then(|m| m["regions"].as_array()) {
        for r in regs {
            let (s, z, rv) = (r["start"].as_u64().unwrap_or(0), r["size"].as_u64().unwrap_or(0) as usize, r["rva"].as_u64().unwrap_or(0) as usize);
            if let Some(b) = img.get(rv..rv + z) {
                let (rl, mis) = target::compare_mem(pid, s, b);
                mems.push(json!({"start": s, "size": z, "readable": rl, "mismatch": mis}));
            } else {
                mems.push(json!({"start": s, "size": z, "readable": 0, "mismatch": 0, "outside": true}));
            }
        }
    }
    o["mem_compare"] = json!(mems);
    // per thread: the captured stack from the stack pointer upward vs. target memory
    let mut spc = Vec::new();
    if let Some(ths) = p.streams.get("threads").and_then(|t| t["threads"].as_array()) {
        for th in ths {
            let (s, z, rv) = (th["stack_start"].as_u64().unwrap_or(0), th["stack_size"].as_u64().unwrap_or(0) as usize, th["stack_rva"].as_u64().unwrap_or(0) as usize);
            if z == 0 { continue; }
            let rsp = th["ctx"]["rsp"].as_str().and_then(|h| u64::from_str_radix(h, 16).ok()).unwrap_or(0);
            let from = if rsp >= s && rsp < s + z as u64 { (rsp - s) as usize } else { 0 };
            if let Some(b) = img.get(rv + from..rv + z) {
                let (rl, mis) = target::compare_mem(pid, s + from as u64, b);
                spc.push(json!({"tid": th["tid"], "from": from, "readable": rl, "mismatch": mis}));
            }
        }
    }
    o["sp_compare"] = json!(spc);
    // the live stack memory of every parked thread from its (aligned-up) stack pointer to the end of its stack mapping
    let mut sm = Vec::new();
    for t in report["threads"].as_array().cloned().unwrap_or_default() {
        if t["mode"].as_str() != Some("pause") { continue; }
        let (sp, st, ln) = (t["sp"].as_u64().unwrap_or(0), t["stack_start"].as_u64().unwrap_or(0), t["stack_len"].as_u64().unwrap_or(0));
        let a = (sp + 7) & !7;
        if a >= st && a < st + ln && ln <= 64 * 4096 {
            if let Some(m) = target::read_mem(pid, a, (st + ln - a) as usize) {
                sm.push(json!({"tid": t["tid"], "from": a, "hex": mdparse::hexs(&m)}));
            }
        }
    }
    o["stack_mem"] = json!(sm);
    if want_regs {
        let mut regs = serde_json::Map::new();
        for t in report["threads"].as_array().cloned().unwrap_or_default() {
            let mode = t["mode"].as_str().unwrap_or("");
            if mode == "pause" || mode == "rsp0" {
                let tid = t["tid"].as_i64().unwrap_or(0) as i32;
                if let Some(r) = target::ptrace_regs(tid) {
                    regs.insert(tid.to_string(), r);
                }
            }
        }
        o["regs"] = Value::Object(regs);
    }
    let b = blamed;
    o["raw"] = json!({
        "cpuinfo": raw_stream_compare(p, img, mdparse::T_CPUINFO, "/proc/cpuinfo"),
        "status": raw_stream_compare(p, img, mdparse::T_STATUS, &format!("/proc/{b}/status")),
        "cmdline": raw_stream_compare(p, img, mdparse::T_CMDLINE, &format!("/proc/{b}/cmdline")),
        "environ": raw_stream_compare(p, img, mdparse::T_ENVIRON, &format!("/proc/{b}/environ")),
        "auxv": raw_stream_compare(p, img, mdparse::T_AUXV, &format!("/proc/{b}/auxv")),
        "maps": raw_stream_compare(p, img, mdparse::T_MAPS, &format!("/proc/{b}/maps")),
        "limits": raw_stream_compare(p, img, mdparse::T_LIMITS, &format!("/proc/{b}/limits")),
        "lsb": raw_stream_compare(p, img, mdparse::T_LSB, if std::path::Path::new("/etc/lsb-release").exists() { "/etc/lsb-release" } else { "/etc/os-release" }),
    });
    // independent ELF identification of every named mapping that starts a file (or an embedded image):
    // from the file when it exists, and from the mapped memory
    let mut mods = Vec::new();
    if want_modules {
        let text = o["maps"].as_str().unwrap_or("").to_string();
        let lines = crate::maps::parse_text(&text);
        let gs = mapping_groups(&lines);
        for g in &gs {
            if let Some(name) = &g.name {
                let path = name.clone();
                let mem = target::read_mem(pid, g.start, ((g.sys_end - g.start) as usize).min(1 << 20)).unwrap_or_default();
                // a deleted mapping's path may have been taken by another file since: what is mapped can then only be read from memory
                let file = if path.starts_with('/') && g.off == 0 && !g.deleted { std::fs::read(&path).ok() } else { None };
                let idm = crate::elfgen::oracle_build_id(&mem).map(|x| mdparse::hexs(&x.0));
                let idf = file.as_ref().and_then(|f| crate::elfgen::oracle_build_id(f)).map(|x| mdparse::hexs(&x.0));
                let som = crate::elfgen::oracle_soname(&mem).map(|s| String::from_utf8_lossy(&s).into_owned());
                let sof = file.as_ref().and_then(|f| crate::elfgen::oracle_soname(f)).map(|s| String::from_utf8_lossy(&s).into_owned());
                mods.push(json!({"name": name, "start": g.start, "end": g.end, "off": g.off, "perms": g.perms,
                                 "id_mem": idm, "id_file": idf, "soname_mem": som, "soname_file": sof, "file_exists": file.is_some()}));
            }
        }
    }
    o["modules_oracle"] = json!(mods);
    // descriptors
    let mut fds = Vec::new();
    if let Ok(rd) = std::fs::read_dir(format!("/proc/{pid}/fd")) {
        for e in rd.flatten() {
            let Ok(fd) = e.file_name().to_string_lossy().parse::<u64>() else { continue };
            let link = std::fs::read_link(e.path()).map(|p| p.to_string_lossy().into_owned()).ok();
            let mode = std::fs::metadata(e.path()).map(|m| std::os::unix::fs::MetadataExt::mode(&m)).ok();
            fds.push(json!({"fd": fd, "link": link, "mode": mode}));
        }
    }
    fds.sort_by_key(|f| f["fd"].as_u64());
    o["fds"] = json!(fds);
    o
}

pub fn worker_main(scn: &Value, report: &Value, shared_path: Option<String>, out_path: &str) {
    let mut tr = Trace::to_file(out_path).expect("worker trace");
    let pid = report["pid"].as_i64().unwrap_or(0) as i32;
    let wopts = scn.get("writer").cloned().unwrap_or(json!({}));
    let faults = scn.get("faults").cloned().unwrap_or(json!({}));
    let slot_tids: Vec<i32> = report["threads"].as_array().map(|a| a.iter().map(|t| t["tid"].as_i64().unwrap_or(0) as i32).collect()).unwrap_or_default();

    let mut client = FailSpotName::testing_client();
    for n in faults.get("failspots").and_then(|v| v.as_array()).cloned().unwrap_or_default() {
        if let Some(f) = n.as_str().and_then(failspot_by_name) {
            client.set_enabled(f, true);
        }
    }
    let name_fail_tids: Vec<i32> = faults.get("name_fail").and_then(|v| v.as_array()).map(|a| a.iter().map(|s| resolve_tid(s, report)).collect()).unwrap_or_default();
    let thread_name_globally = faults.get("failspots").and_then(|v| v.as_array()).map(|a| a.iter().any(|x| x == "ThreadName")).unwrap_or(false);

    let blamed = resolve_tid(wopts.get("blamed").unwrap_or(&json!("main")), report);
    let mut writer = MinidumpWriter::new(pid, blamed);
    let mut winfo = configure_writer(&mut writer, &wopts, report);
    let mut supplied = Value::Null;
    if let Some(cc) = wopts.get("crash_context").filter(|v| !v.is_null()) {
        let (c, s) = build_crash_context(cc, report, blamed);
        supplied = s;
        writer.set_crash_context(c);
    }
    winfo["blamed"] = json!(blamed);

    *PLAN.lock().unwrap() = Some(Plan {
        pid,
        name_fail_tids: if thread_name_globally { vec![] } else { name_fail_tids.clone() },
        shared_path,
        slot_tids,
        flush_images: true,
        ..Default::default()
    });
    if thread_name_globally {
        // the global fail point stays on: the per-thread toggle must not switch it off
        if let Some(p) = PLAN.lock().unwrap().as_mut() {
            p.name_fail_tids = target::list_tids(pid);
        }
    }
    CLIENT.with(|c| *c.borrow_mut() = Some(client));
    minidump_writer::verif_hooks::set_hook(Some(Box::new(hook)));

    // "interrupt_wait": while the dump waits for an attached thread that cannot stop yet (one in vfork()), the dumping thread
    // takes a handled signal without SA_RESTART - its waitpid returns EINTR - several times
    if faults.get("interrupt_wait").and_then(|v| v.as_bool()).unwrap_or(false) {
        extern "C" fn noop(_: i32) {}
        unsafe {
            let mut sa: libc::sigaction = std::mem::zeroed();
            sa.sa_sigaction = noop as usize;
            sa.sa_flags = 0;
            libc::sigaction(libc::SIGUSR1, &sa, std::ptr::null_mut());
        }
        let me = unsafe { libc::syscall(libc::SYS_gettid) } as i32;
        let slow: Vec<i64> = report["threads"].as_array().map(|a| a.iter().filter(|t| t["mode"] == "vfork").filter_map(|t| t["tid"].as_i64()).collect()).unwrap_or_default();
        std::thread::spawn(move || {
            for _ in 0..4000 {
                let held = slow.iter().any(|t| target::task_status(pid, *t as i32)["tracer"].as_i64().unwrap_or(0) != 0);
                if held {
                    for _ in 0..3 {
                        unsafe { libc::syscall(libc::SYS_tgkill, libc::getpid(), me, libc::SIGUSR1) };
                        std::thread::sleep(Duration::from_millis(20));
                    }
                    return;
                }
                std::thread::sleep(Duration::from_millis(1));
            }
        });
    }
    let history = scn.get("history").and_then(|v| v.as_array()).cloned().unwrap_or_else(|| vec![json!({"op":"dump"})]);
    let mut dump_no = 0;
    for step in history {
        match step["op"].as_str().unwrap_or("dump") {
            "set" => {
                let i = configure_writer(&mut writer, &step["writer"], report);
                for (k, v) in i.as_object().cloned().unwrap_or_default() {
                    winfo[k] = v;
                }
                if let Some(b) = step["writer"].get("blamed") {
                    writer.blamed_thread = resolve_tid(b, report);
                    winfo["blamed"] = json!(writer.blamed_thread);
                }
                if let Some(cc) = step["writer"].get("crash_context") {
                    if cc.is_null() {
                        writer.crash_context = None;
                        supplied = Value::Null;
                    } else {
                        let (c, s) = build_crash_context(cc, report, writer.blamed_thread);
                        supplied = s;
                        writer.set_crash_context(c);
                    }
                }
            }
            "fake" => {
                // {"op":"fake","path":"/proc/cpuinfo","content_hex":".."}: what this worker (only) sees at `path` from now on
                let path = step["path"].as_str().unwrap_or("/proc/cpuinfo").replace("{pid}", &pid.to_string());
                let path = path.as_str();
                let mut content = unhex(step["content_hex"].as_str().unwrap_or(""));
                // "pairs": [[key, value spec], ..] = an auxiliary vector; "extra": bytes of a truncated pair after them
                for pr in step.get("pairs").and_then(|v| v.as_array()).cloned().unwrap_or_default() {
                    content.extend_from_slice(&pr[0].as_u64().unwrap_or(0).to_le_bytes());
                    content.extend_from_slice(&resolve(&pr[1], report).to_le_bytes());
                }
                content.extend(std::iter::repeat(0x11u8).take(step.get("extra").and_then(|v| v.as_u64()).unwrap_or(0) as usize));
                // "unreadable": opening the path fails (another process' /proc/<pid>/mem is bound over it)
                let res = if step.get("unreadable").and_then(|v| v.as_bool()).unwrap_or(false) { fake_unreadable(path) } else { fake_file(path, &content) };
                match res {
                    Ok(()) => {}
                    Err(e) => {
                        tr.emit(json!({"ev":"fake_unavailable","path":path,"error":e}));
                        tr.flush();
                        break;
                    }
                }
            }
            "flag" => {
                // e.g. {"op":"flag","exit_slot":3} between dumps: change the target
                if let (Some(slot), Some(p)) = (step.get("exit_slot").and_then(|v| v.as_u64()), PLAN.lock().unwrap().as_ref().and_then(|p| p.shared_path.clone())) {
                    set_exit_flag(&p, slot as usize);
                    std::thread::sleep(Duration::from_millis(20));
                }
            }
            _ => {
                dump_no += 1;
                // per-dump plan
                {
                    let mut g = PLAN.lock().unwrap();
                    let plan = g.as_mut().unwrap();
                    plan.steps.clear();
                    plan.last_flush = None;
                    plan.actions.clear();
                    plan.dest_actions.clear();
                    let acts = step.get("actions").or_else(|| faults.get("actions")).and_then(|v| v.as_array()).cloned().unwrap_or_default();
                    for a in acts {
                        if let Some(h) = a["at"].get("hook").and_then(|h| h.as_str()) {
                            let tid = a["at"].get("slot").and_then(|s| s.as_u64()).map(|s| plan.slot_tids.get(s as usize).copied().unwrap_or(0)).unwrap_or(
                                if a["at"].get("main").is_some() { pid } else { 0 });
                            plan.actions.push((h.to_string(), tid, a.clone()));
                        } else if let Some(k) = a["at"].get("dest_call").and_then(|k| k.as_u64()) {
                            plan.dest_actions.push((k as usize, a.clone()));
                        }
                    }
                }
                let start = step.get("start").or_else(|| faults.get("start")).and_then(|v| v.as_u64()).unwrap_or(0);
                let pre_len = step.get("pre_len").or_else(|| faults.get("pre_len")).and_then(|v| v.as_u64()).unwrap_or(0) as usize;
                let shared = std::rc::Rc::new(std::cell::RefCell::new(RecDest::new(start, pre_len)));
                shared.borrow_mut().panic_at = step.get("dest_panic_at").or_else(|| faults.get("dest_panic_at")).and_then(|v| v.as_u64()).map(|k| k as usize);
                shared.borrow_mut().fail_at = step.get("dest_fail_at").or_else(|| faults.get("dest_fail_at")).and_then(|v| v.as_u64()).map(|k| k as usize);
                // {"dest_short_at": [call index, bytes accepted, disk full afterwards]}
                shared.borrow_mut().short_at = step.get("dest_short_at").or_else(|| faults.get("dest_short_at")).and_then(|v| v.as_array())
                    .map(|a| (a[0].as_u64().unwrap_or(0) as usize, a[1].as_u64().unwrap_or(0) as usize, a[2].as_bool().unwrap_or(false)));
                let seqs = std::rc::Rc::new(std::cell::RefCell::new(Vec::new()));
                let mut dest = PlanDest { inner: shared.clone(), seqs: seqs.clone() };
                DEST.with(|d| *d.borrow_mut() = Some((shared.clone(), 0)));
                let cfg_before = caller_config(&writer);
                let t0 = Instant::now();
                let res = std::panic::catch_unwind(std::panic::AssertUnwindSafe(|| writer.dump(&mut dest)));
                let wall = t0.elapsed().as_secs_f64();
                let cfg_after = caller_config(&writer);
                // who traces each thread of the target at the moment the request returns (attachments left behind would vanish
                // unseen when this worker process exits)
                let at_return: Vec<Value> = target::list_tids(pid).iter().map(|tid| { let s = target::task_status(pid, *tid); json!({"tid": tid, "tracer": s["tracer"], "state": s["state"]}) }).collect();
                DEST.with(|d| d.borrow_mut().take());
                drop(dest);
                let dest_inner = shared.borrow();
                let seqs = seqs.borrow();
                let (steps, last_flush) = {
                    let mut g = PLAN.lock().unwrap();
                    let plan = g.as_mut().unwrap();
                    (std::mem::take(&mut plan.steps), plan.last_flush.take())
                };
                let mut rec = json!({"ev":"dump","dump_no":dump_no,"wall_s":wall,"writer":winfo.clone(),"supplied":supplied.clone(),
                                     "opts": {"size_limit": wopts.get("size_limit"), "sanitize": writer.sanitize_stack, "skip": writer.skip_stacks_if_mapping_unreferenced,
                                              "crash_context": writer.crash_context.is_some()}});
                // which of the caller's settings the dump changed (none should: they are the caller's)
                rec["at_return"] = json!(at_return);
                rec["cfg_changed"] = json!(cfg_before.as_object().unwrap().iter().filter(|(k, v)| cfg_after.get(k.as_str()) != Some(*v)).map(|(k, _)| k.clone()).collect::<Vec<_>>());
                let dcalls = crate::dirops::calls_json_at(&dest_inner.calls, dest_inner.base);
                let mut allsteps = steps;
                for (c, s) in dcalls.iter().zip(seqs.iter()) {
                    allsteps.push(json!({"k":"dest","c":c,"seq":s}));
                }
                allsteps.sort_by_key(|s| s["seq"].as_u64().unwrap_or(0));
                rec["steps"] = json!(allsteps);
                rec["ncalls"] = json!(dest_inner.calls.len());
                rec["pre_len"] = json!((pre_len as u64).saturating_sub(dest_inner.base));
                rec["start"] = json!(start - dest_inner.base);
                let image: Option<Vec<u8>> = match &res {
                    Ok(Ok(img)) => {
                        rec["outcome"] = json!("ok");
                        Some(img.clone())
                    }
                    Ok(Err(e)) => {
                        rec["outcome"] = json!("err");
                        rec["error"] = json!(format!("{e:?}").chars().take(400).collect::<String>());
                        last_flush
                    }
                    Err(_) => {
                        rec["outcome"] = json!("panic");
                        last_flush
                    }
                };
                // C09 on the real dump: destination vs image
                if let Some(img) = &image {
                    let d = &*dest_inner;
                    rec["dest"] = crate::dirops::observe(d, img, d.calls.len());
                    let p = mdparse::parse(img);
                    rec["imgLen"] = json!(img.len());
                    rec["header"] = p.header.clone();
                    rec["dir"] = json!(p.dir.iter().map(|(t, s, r)| json!([t, s, r])).collect::<Vec<_>>());
                    rec["objs"] = json!(p.objects_json());
                    rec["parse_errors"] = json!(p.errors);
                    rec["streams"] = Value::Object(p.streams.clone());
                    if let Some(se) = p.stream_bytes(img, mdparse::T_SOFTERR) {
                        rec["soft_errors_raw"] = json!(String::from_utf8_lossy(se));
                    }
                    if (rec["outcome"] == "ok" || scn.get("oracles_on_error").is_some()) && scn.get("no_oracles").is_none() {
                        rec["oracle"] = collect_oracles(report, pid, writer.blamed_thread, &p, img, scn.get("want_regs").and_then(|v| v.as_bool()).unwrap_or(false),
                                                        scn.get("want_modules").and_then(|v| v.as_bool()).unwrap_or(false));
                    }
                    // small memory-list regions verbatim (counters of spinner targets)
                    if let Some(regs) = p.streams.get("memlist").and_then(|m| m["regions"].as_array()) {
                        let small: Vec<Value> = regs.iter().filter_map(|r| {
                            let (s, z, rv) = (r["start"].as_u64()?, r["size"].as_u64()? as usize, r["rva"].as_u64()? as usize);
                            if z <= 64 { img.get(rv..rv + z).map(|b| json!({"start": s, "hex": mdparse::hexs(b)})) } else { None }
                        }).collect();
                        rec["mem_small"] = json!(small);
                    }
                    // stack bytes from SP upward vs target memory, sanitised words etc. are derived from these
                    if scn.get("want_stacks").and_then(|v| v.as_bool()).unwrap_or(false) {
                        let mut stacks = Vec::new();
                        if let Some(ths) = p.streams.get("threads").and_then(|t| t["threads"].as_array()) {
                            for th in ths {
                                let (s, z, rv) = (th["stack_start"].as_u64().unwrap_or(0), th["stack_size"].as_u64().unwrap_or(0) as usize, th["stack_rva"].as_u64().unwrap_or(0) as usize);
                                if z == 0 { continue; }
                                if let Some(b) = img.get(rv..rv + z) {
                                    stacks.push(json!({"tid": th["tid"], "start": s, "hex": mdparse::hexs(b)}));
                                }
                            }
                        }
                        rec["stack_bytes"] = json!(stacks);
                    }
                }
                match scn.get("prefixes").and_then(|v| v.as_str()) {
                    Some("all") => rec["prefixes"] = json!(prefix_facts(&dest_inner, false)),
                    Some("last") => rec["prefixes"] = json!(prefix_facts(&dest_inner, true)),
                    _ => {}
                }
                tr.emit(rec);
                tr.flush();
            }
        }
    }
    minidump_writer::verif_hooks::set_hook(None);
    CLIENT.with(|c| c.borrow_mut().take());
    for (_, b) in BACKING.lock().unwrap().drain(..) {
        if !b.is_empty() {
            let _ = std::fs::remove_file(b);
        }
    }
    tr.flush();
}

/// Substitute the content of `path` for this process only: a private mount namespace (entered on first use) in which a
/// regular file of ours is bind-mounted over `path`; later calls for the same path rewrite that file.
fn unhex(s: &str) -> Vec<u8> {
    (0..s.len() / 2).map(|i| u8::from_str_radix(&s[2 * i..2 * i + 2], 16).unwrap_or(0)).collect()
}
static BACKING: Mutex<Vec<(String, String)>> = Mutex::new(Vec::new());
fn enter_private_mount_ns() -> Result<(), String> {
    if unsafe { libc::unshare(libc::CLONE_NEWNS) } != 0 {
        return Err(format!("unshare: {}", std::io::Error::last_os_error()));
    }
    let root = std::ffi::CString::new("/").unwrap();
    if unsafe { libc::mount(std::ptr::null(), root.as_ptr(), std::ptr::null(), libc::MS_REC | libc::MS_PRIVATE, std::ptr::null()) } != 0 {
        return Err(format!("make-rprivate: {}", std::io::Error::last_os_error()));
    }
    Ok(())
}
/// Make `path` fail to open for this process only: `/proc/self/mem` bound over it; open() then fails (ESRCH here), which
/// is checked before the substitution is reported as done.
fn fake_unreadable(path: &str) -> Result<(), String> {
    let mut g = BACKING.lock().unwrap();
    if g.is_empty() {
        enter_private_mount_ns()?;
    }
    let (src, dst) = (std::ffi::CString::new("/proc/self/mem").unwrap(), std::ffi::CString::new(path).unwrap());
    if unsafe { libc::mount(src.as_ptr(), dst.as_ptr(), std::ptr::null(), libc::MS_BIND, std::ptr::null()) } != 0 {
        return Err(format!("bind mount: {}", std::io::Error::last_os_error()));
    }
    if std::fs::read(path).is_ok() {
        return Err("the substituted file can still be read".into());
    }
    g.push((path.to_string(), String::new()));
    Ok(())
}
fn fake_file(path: &str, content: &[u8]) -> Result<(), String> {
    let mut g = BACKING.lock().unwrap();
    if let Some((_, b)) = g.iter().find(|(p, _)| p == path) {
        return std::fs::write(b, content).map_err(|e: std::io::Error| e.to_string());
    }
    if g.is_empty() {
        enter_private_mount_ns()?;
    }
    let backing = format!("/dev/shm/mdw_fake_{}_{}", std::process::id(), g.len());
    std::fs::write(&backing, content).map_err(|e| e.to_string())?;
    let (src, dst) = (std::ffi::CString::new(backing.clone()).unwrap(), std::ffi::CString::new(path).unwrap());
    if unsafe { libc::mount(src.as_ptr(), dst.as_ptr(), std::ptr::null(), libc::MS_BIND, std::ptr::null()) } != 0 {
        let e = format!("bind mount: {}", std::io::Error::last_os_error());
        let _ = std::fs::remove_file(&backing);
        return Err(e);
    }
    g.push((path.to_string(), backing));
    Ok(())
}

// ------------------------------------------------------------------ the parent: target + watchdog + observation
fn observe_target(t: &TargetProc, settle_ms: u64) -> Value {
    let nslots = t.report["threads"].as_array().map(|a| a.len()).unwrap_or(0);
    // settle and re-poll until nothing is pending (a not-yet-dequeued signal is a legal intermediate state)
    let t0 = Instant::now();
    let mut st;
    loop {
        st = t.tids().iter().map(|tid| (*tid, target::task_status(t.pid, *tid))).collect::<Vec<_>>();
        let pending = st.iter().any(|(_, s)| s["sigpnd"].as_str().map(|p| p.trim_start_matches('0') != "").unwrap_or(false));
        if !pending || t0.elapsed() > Duration::from_millis(settle_ms) {
            break;
        }
        std::thread::sleep(Duration::from_millis(2));
    }
    let c0 = t.counters(nslots);
    std::thread::sleep(Duration::from_millis(12));
    let mut c1 = t.counters(nslots);
    // a heartbeat thread that is merely waiting for a CPU (a busy machine) has not advanced yet: give it up to a second before
    // calling it not running (a thread that IS stopped or traced shows that in its state / TracerPid, looked at below)
    let beating: Vec<usize> = t.report["threads"].as_array().map(|a| a.iter().enumerate().filter(|(_, x)| matches!(x["mode"].as_str(), Some("heartbeat") | Some("vfork"))).map(|(i, _)| i).collect()).unwrap_or_default();
    for _ in 0..100 {
        if beating.iter().all(|&i| c1.get(i).map(|c| c[0]) > c0.get(i).map(|c| c[0]) || c1.get(i).map(|c| c[4] != 0).unwrap_or(true)) {
            break;
        }
        std::thread::sleep(Duration::from_millis(10));
        c1 = t.counters(nslots);
    }
    let st2: Vec<(i32, Value)> = t.tids().iter().map(|tid| (*tid, target::task_status(t.pid, *tid))).collect();
    json!({
        "tasks": st2.iter().map(|(tid, s)| json!({"tid": tid, "state": s["state"], "tracer": s["tracer"], "sigpnd": s["sigpnd"], "shdpnd": s["shdpnd"]})).collect::<Vec<_>>(),
        "first_poll_pending": st.iter().any(|(_, s)| s["sigpnd"].as_str().map(|p| p.trim_start_matches('0') != "").unwrap_or(false)),
        "counters": c1.iter().enumerate().map(|(i, c)| json!({"slot": i, "heartbeat0": c0.get(i).map(|x| x[0]), "heartbeat1": c[0], "usr1": c[1], "rt": c[2], "tid": c[3], "exit_flag": c[4]})).collect::<Vec<_>>(),
    })
}

pub fn run_scenario(scn: &Value, workdir: &str, tr: &mut Trace) {
    let id = scn.get("id").cloned().unwrap_or(json!("?"));
    let mut t = match TargetProc::spawn(scn.get("target").unwrap_or(&json!({})), workdir, "t") {
        Ok(t) => t,
        Err(e) => {
            tr.emit(json!({"ev":"scenario","id":id,"error":format!("target: {e}")}));
            return;
        }
    };
    // what the kernel says: the auxiliary vector and where each file-backed module starts
    {
        let pidn = t.report["pid"].as_i64().unwrap_or(0);
        let mut aux = serde_json::Map::new();
        if let Ok(b) = std::fs::read(format!("/proc/{pidn}/auxv")) {
            for ch in b.chunks_exact(16) {
                let (k, v) = (u64::from_le_bytes(ch[..8].try_into().unwrap()), u64::from_le_bytes(ch[8..].try_into().unwrap()));
                if k == 0 { break; }
                aux.entry(k.to_string()).or_insert(json!(v));
            }
        }
        t.report["real_auxv"] = Value::Object(aux);
        let mut mods = serde_json::Map::new();
        if let Ok(text) = std::fs::read(format!("/proc/{pidn}/maps")).map(|b| String::from_utf8_lossy(&b).into_owned()) {
            for l in crate::maps::parse_text(&text) {
                if let Some(n) = l.name.as_deref().filter(|n| n.starts_with('/') || *n == "[vdso]") {
                    let base = n.rsplit('/').next().unwrap_or(n).to_string();
                    mods.entry(base).or_insert(json!(l.start));
                }
            }
        }
        t.report["modules"] = Value::Object(mods);
    }
    tr.emit(json!({"ev":"scenario","id":id,"scn":scn,"report":t.report}));
    tr.flush();
    // threads that another tracer (this process) already holds: the dumper's attach fails with EPERM for them
    let mut pretraced = Vec::new();
    for sl in scn.get("pretrace_slots").and_then(|v| v.as_array()).cloned().unwrap_or_default() {
        let tid = t.report["threads"][sl.as_u64().unwrap_or(0) as usize]["tid"].as_i64().unwrap_or(0) as i32;
        unsafe {
            if libc::ptrace(libc::PTRACE_SEIZE, tid, 0, 0) == 0 {
                pretraced.push(tid);
            }
        }
    }
    if scn.get("pretrace_main").and_then(|v| v.as_bool()).unwrap_or(false) {
        let tid = t.report["pid"].as_i64().unwrap_or(0) as i32;
        unsafe {
            if libc::ptrace(libc::PTRACE_SEIZE, tid, 0, 0) == 0 {
                pretraced.push(tid);
            }
        }
    }
    // inotify watches: which of the listed files does the dump open?
    let mut watches: Vec<(i32, String)> = Vec::new();
    let ifd = unsafe { libc::inotify_init1(libc::IN_NONBLOCK) };
    for w in scn.get("watch").and_then(|v| v.as_array()).cloned().unwrap_or_default() {
        if let Some(pth) = w.as_str() {
            if let Ok(c) = std::ffi::CString::new(pth) {
                let wd = unsafe { libc::inotify_add_watch(ifd, c.as_ptr(), libc::IN_OPEN) };
                if wd >= 0 {
                    watches.push((wd, pth.to_string()));
                }
            }
        }
    }
    let before = if scn.get("observe").and_then(|v| v.as_bool()).unwrap_or(false) { Some(observe_target(&t, 50)) } else { None };
    let out_path = format!("{workdir}/worker_{}.ndjson", std::process::id());
    let _ = std::fs::remove_file(&out_path);
    let timeout = Duration::from_millis(scn.get("timeout_ms").and_then(|v| v.as_u64()).unwrap_or(20_000));
    let pid = unsafe { libc::fork() };
    if pid == 0 {
        worker_main(scn, &t.report, t.shared_path.clone(), &out_path);
        unsafe { libc::_exit(0) };
    }
    let t0 = Instant::now();
    let mut status = 0;
    let mut outcome = "exited";
    loop {
        let r = unsafe { libc::waitpid(pid, &mut status, libc::WNOHANG) };
        if r == pid {
            break;
        }
        if t0.elapsed() > timeout {
            unsafe {
                libc::kill(pid, libc::SIGKILL);
                libc::waitpid(pid, &mut status, 0);
            }
            outcome = "timeout";
            break;
        }
        std::thread::sleep(Duration::from_millis(2));
    }
    if outcome == "exited" && !(libc::WIFEXITED(status) && libc::WEXITSTATUS(status) == 0) {
        outcome = "crashed";
    }
    if let Ok(text) = std::fs::read_to_string(&out_path) {
        for l in text.lines() {
            if let Ok(v) = serde_json::from_str::<Value>(l) {
                tr.emit(v);
            }
        }
    }
    let _ = std::fs::remove_file(&out_path);
    let mut opened: Vec<String> = Vec::new();
    if ifd >= 0 {
        let mut buf = [0u8; 4096];
        loop {
            let n = unsafe { libc::read(ifd, buf.as_mut_ptr().cast(), buf.len()) };
            if n <= 0 {
                break;
            }
            let mut o = 0usize;
            while o + 16 <= n as usize {
                let wd = i32::from_ne_bytes(buf[o..o + 4].try_into().unwrap());
                let len = u32::from_ne_bytes(buf[o + 12..o + 16].try_into().unwrap()) as usize;
                if let Some((_, pth)) = watches.iter().find(|(w, _)| *w == wd) {
                    opened.push(pth.clone());
                }
                o += 16 + len;
            }
        }
        unsafe { libc::close(ifd) };
    }
    for tid in &pretraced {
        unsafe { libc::ptrace(libc::PTRACE_DETACH, *tid, 0, 0) };
    }
    let mut end = json!({"ev":"end","id":id,"worker":outcome,"wall_s":t0.elapsed().as_secs_f64(),"pretraced":pretraced,"opened":opened,"watched":watches.len()});
    if scn.get("observe").and_then(|v| v.as_bool()).unwrap_or(false) {
        end["before"] = before.unwrap_or(Value::Null);
        // "settle_ms": the target has something of its own still to finish (a thread coming back from vfork()) before it is looked at
        if let Some(ms) = scn.get("settle_ms").and_then(|v| v.as_u64()) {
            std::thread::sleep(Duration::from_millis(ms.saturating_sub((t0.elapsed().as_millis() as u64).min(ms))));
        }
        end["after"] = observe_target(&t, 300);
    }
    tr.emit(end);
    tr.flush();
    t.kill();
}
