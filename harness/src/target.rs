//! Spawning and controlling `mdw-target`, plus the oracles the driver reads from /proc itself.
use serde_json::{json, Value};
use std::io::{BufRead, BufReader, Write};
use std::process::{Child, ChildStdin, ChildStdout, Command, Stdio};

pub struct TargetProc {
    pub child: Child,
    pub stdin: ChildStdin,
    pub stdout: BufReader<ChildStdout>,
    pub report: Value,
    pub pid: i32,
    pub cfg_path: String,
    pub shared_path: Option<String>,
}

pub fn target_binary() -> String {
    std::env::var("MDW_TARGET").unwrap_or_else(|_| {
        let me = std::env::current_exe().expect("current_exe");
        me.parent().unwrap().join("mdw-target").to_string_lossy().into_owned()
    })
}

impl TargetProc {
    pub fn spawn(cfg: &Value, workdir: &str, tag: &str) -> Result<Self, String> {
        let mut cfg = cfg.clone();
        let shared_path = format!("{workdir}/shared_{tag}_{}", std::process::id());
        if cfg.get("shared").and_then(|v| v.as_bool()).unwrap_or(false) {
            cfg["shared_path"] = json!(shared_path);
        }
        let cfg_path = format!("{workdir}/target_{tag}_{}.json", std::process::id());
        std::fs::write(&cfg_path, serde_json::to_string(&cfg).unwrap()).map_err(|e| e.to_string())?;
        let mut cmd = Command::new(target_binary());
        cmd.arg(&cfg_path).stdin(Stdio::piped()).stdout(Stdio::piped()).stderr(Stdio::null());
        if let Some(args) = cfg.get("argv").and_then(|v| v.as_array()) {
            for a in args {
                cmd.arg(a.as_str().unwrap_or(""));
            }
        }
        // "env_clear": the target starts with an empty environment (its /proc/<pid>/environ is empty) plus what "env" lists
        if cfg.get("env_clear").and_then(|v| v.as_bool()).unwrap_or(false) {
            cmd.env_clear();
        }
        if let Some(envs) = cfg.get("env").and_then(|v| v.as_object()) {
            for (k, v) in envs {
                cmd.env(k, v.as_str().unwrap_or(""));
            }
        }
        let mut child = cmd.spawn().map_err(|e| format!("spawn target: {e}"))?;
        let stdin = child.stdin.take().unwrap();
        let mut stdout = BufReader::new(child.stdout.take().unwrap());
        let mut line = String::new();
        // never wait forever for a target that failed to come up
        {
            use std::os::unix::io::AsRawFd;
            let mut pfd = libc::pollfd { fd: stdout.get_ref().as_raw_fd(), events: libc::POLLIN, revents: 0 };
            let r = unsafe { libc::poll(&mut pfd, 1, 15_000) };
            if r <= 0 {
                unsafe { libc::kill(child.id() as i32, libc::SIGKILL) };
                let _ = child.wait();
                return Err("target did not report within 15 s".into());
            }
        }
        stdout.read_line(&mut line).map_err(|e| e.to_string())?;
        let report: Value = serde_json::from_str(&line).map_err(|e| format!("target report: {e}: {line:?}"))?;
        let mut ready = String::new();
        stdout.read_line(&mut ready).map_err(|e| e.to_string())?;
        if ready.trim() != "ready" {
            return Err(format!("target not ready: {ready:?}"));
        }
        let pid = report["pid"].as_i64().unwrap_or(0) as i32;
        // "ready" is written before the main thread settles: wait until it is blocked in the system call it stays in
        // (read of its standard input, or pause / exit for the special shapes), so that nothing in the target moves any more
        for _ in 0..400 {
            let sc = std::fs::read_to_string(format!("/proc/{pid}/task/{pid}/syscall")).unwrap_or_default();
            let first = sc.split_whitespace().next().unwrap_or("");
            if first == "0" || first == "34" || sc.is_empty() || first == "-1" && cfg.get("main_rsp0").is_some() {
                break;
            }
            std::thread::sleep(std::time::Duration::from_micros(500));
        }
        // ... and every parked thread: its report is sent BEFORE it switches to its own stack and blocks in pause(); with many
        // threads on a busy machine that can take longer than the target's own grace period, and a dump taken earlier would
        // capture a stack that still changes
        if let Some(ths) = report["threads"].as_array() {
            for t in ths {
                if !matches!(t["mode"].as_str(), Some("pause") | Some("rsp0")) {
                    continue;
                }
                let tid = t["tid"].as_i64().unwrap_or(0);
                for _ in 0..4000 {
                    let sc = std::fs::read_to_string(format!("/proc/{pid}/task/{tid}/syscall")).unwrap_or_default();
                    if sc.split_whitespace().next() == Some("34") || sc.is_empty() {
                        break;
                    }
                    std::thread::sleep(std::time::Duration::from_micros(500));
                }
            }
        }
        let has_shared = cfg.get("shared_path").is_some();
        Ok(TargetProc { child, stdin, stdout, report, pid, cfg_path, shared_path: has_shared.then_some(shared_path) })
    }
    pub fn command(&mut self, cmd: &str) -> String {
        let _ = writeln!(self.stdin, "{cmd}");
        let _ = self.stdin.flush();
        let mut l = String::new();
        let _ = self.stdout.read_line(&mut l);
        l.trim().to_string()
    }
    pub fn tids(&self) -> Vec<i32> {
        list_tids(self.pid)
    }
    /// (heartbeat, usr1 count, rt count, tid, exit flag) per slot, from the shared page
    pub fn counters(&self, slots: usize) -> Vec<[u64; 5]> {
        let Some(p) = &self.shared_path else { return vec![] };
        let Ok(b) = std::fs::read(p) else { return vec![] };
        (0..slots)
            .map(|s| {
                let mut r = [0u64; 5];
                for (f, x) in r.iter_mut().enumerate() {
                    let at = s * 64 + f * 8;
                    if at + 8 <= b.len() {
                        *x = u64::from_le_bytes(b[at..at + 8].try_into().unwrap());
                    }
                }
                r
            })
            .collect()
    }
    pub fn kill(&mut self) {
        unsafe {
            libc::kill(self.pid, libc::SIGKILL);
            // a stopped process does not die until continued
            libc::kill(self.pid, libc::SIGCONT);
        }
        let _ = self.child.wait();
        let _ = std::fs::remove_file(&self.cfg_path);
        if let Some(p) = &self.shared_path {
            let _ = std::fs::remove_file(p);
        }
    }
}

impl Drop for TargetProc {
    fn drop(&mut self) {
        self.kill();
    }
}

pub fn list_tids(pid: i32) -> Vec<i32> {
    let mut v: Vec<i32> = std::fs::read_dir(format!("/proc/{pid}/task"))
        .map(|rd| rd.flatten().filter_map(|e| e.file_name().to_string_lossy().parse().ok()).collect())
        .unwrap_or_default();
    v.sort();
    v
}

/// Fields of /proc/<pid>/task/<tid>/status the checks look at
pub fn task_status(pid: i32, tid: i32) -> Value {
    let Ok(b) = std::fs::read(format!("/proc/{pid}/task/{tid}/status")) else { return json!({"gone": true}) };
    let text = String::from_utf8_lossy(&b);
    let mut v = json!({"gone": false});
    for l in text.lines() {
        if let Some((k, val)) = l.split_once(':') {
            let val = val.trim();
            match k {
                "State" => v["state"] = json!(val.chars().next().map(|c| c.to_string()).unwrap_or_default()),
                "TracerPid" => v["tracer"] = json!(val.parse::<i64>().unwrap_or(-1)),
                "SigPnd" => v["sigpnd"] = json!(val),
                "ShdPnd" => v["shdpnd"] = json!(val),
                _ => {}
            }
        }
    }
    v
}

pub fn comm_bytes(pid: i32, tid: i32) -> Option<Vec<u8>> {
    std::fs::read(format!("/proc/{pid}/task/{tid}/comm")).ok()
}

/// Read target memory through /proc/<pid>/mem (independent of the crate's readers).
pub fn read_mem(pid: i32, addr: u64, len: usize) -> Option<Vec<u8>> {
    use std::os::unix::fs::FileExt;
    let f = std::fs::File::open(format!("/proc/{pid}/mem")).ok()?;
    let mut buf = vec![0u8; len];
    let mut got = 0;
    while got < len {
        match f.read_at(&mut buf[got..], addr + got as u64) {
            Ok(0) => break,
            Ok(n) => got += n,
            Err(_) => break,
        }
    }
    buf.truncate(got);
    Some(buf)
}

/// Compare a blob with target memory: (length readable, index of first mismatch or -1)
pub fn compare_mem(pid: i32, addr: u64, blob: &[u8]) -> (usize, i64) {
    match read_mem(pid, addr, blob.len()) {
        None => (0, 0),
        Some(m) => {
            let mis = blob.iter().zip(m.iter()).position(|(a, b)| a != b);
            let mis = match mis {
                Some(i) => i as i64,
                None if m.len() < blob.len() => m.len() as i64,
                None => -1,
            };
            (m.len(), mis)
        }
    }
}

/// General and FP registers of a (stopped-in-syscall) thread, read by the driver's own ptrace calls.
pub fn ptrace_regs(tid: i32) -> Option<Value> {
    unsafe {
        if libc::ptrace(libc::PTRACE_ATTACH, tid, 0, 0) != 0 {
            return None;
        }
        let mut st = 0;
        loop {
            let r = libc::waitpid(tid, &mut st, libc::__WALL);
            if r < 0 {
                libc::ptrace(libc::PTRACE_DETACH, tid, 0, 0);
                return None;
            }
            if libc::WIFSTOPPED(st) {
                if libc::WSTOPSIG(st) == libc::SIGSTOP {
                    break;
                }
                libc::ptrace(libc::PTRACE_CONT, tid, 0, libc::WSTOPSIG(st));
            } else {
                return None;
            }
        }
        let mut regs: libc::user_regs_struct = std::mem::zeroed();
        let mut fp: libc::user_fpregs_struct = std::mem::zeroed();
        let ok1 = libc::ptrace(libc::PTRACE_GETREGS, tid, 0, &mut regs as *mut _) == 0;
        let ok2 = libc::ptrace(libc::PTRACE_GETFPREGS, tid, 0, &mut fp as *mut _) == 0;
        let mut dr = [0u64; 8];
        let dbg_off = 848usize; // offsetof(struct user, u_debugreg) on x86-64
        for (i, d) in dr.iter_mut().enumerate() {
            *libc::__errno_location() = 0;
            let v = libc::ptrace(libc::PTRACE_PEEKUSER, tid, dbg_off + i * 8, 0);
            *d = v as u64;
        }
        libc::ptrace(libc::PTRACE_DETACH, tid, 0, 0);
        if !(ok1 && ok2) {
            return None;
        }
        let h = |v: u64| format!("{v:x}");
        let fpb: &[u8] = std::slice::from_raw_parts((&fp as *const libc::user_fpregs_struct).cast(), 512);
        Some(json!({
            "rax": h(regs.rax), "rbx": h(regs.rbx), "rcx": h(regs.rcx), "rdx": h(regs.rdx), "rsi": h(regs.rsi), "rdi": h(regs.rdi),
            "rbp": h(regs.rbp), "rsp": h(regs.rsp), "r8": h(regs.r8), "r9": h(regs.r9), "r10": h(regs.r10), "r11": h(regs.r11),
            "r12": h(regs.r12), "r13": h(regs.r13), "r14": h(regs.r14), "r15": h(regs.r15), "rip": h(regs.rip), "eflags": h(regs.eflags),
            "cs": h(regs.cs), "ss": h(regs.ss), "ds": h(regs.ds), "es": h(regs.es), "fs": h(regs.fs), "gs": h(regs.gs),
            "orig_rax": h(regs.orig_rax),
            "dr0": h(dr[0]), "dr1": h(dr[1]), "dr2": h(dr[2]), "dr3": h(dr[3]), "dr6": h(dr[6]), "dr7": h(dr[7]),
            "cwd": h(fp.cwd as u64), "swd": h(fp.swd as u64), "ftw": h(fp.ftw as u64), "fop": h(fp.fop as u64),
            "fp_rip": h(fp.rip), "fp_rdp": h(fp.rdp), "mxcsr": h(fp.mxcsr as u64), "mxcr_mask": h(fp.mxcr_mask as u64),
            "st": crate::mdparse::hexs(&fpb[32..160]), "xmm": crate::mdparse::hexs(&fpb[160..416]),
        }))
    }
}
