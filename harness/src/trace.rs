//! ndjson trace writer: one event per line, a global sequence number.
use serde_json::{Map, Value};
use std::io::Write;

pub struct Trace {
    out: Box<dyn Write + Send>,
    seq: u64,
}

impl Trace {
    pub fn to_file(path: &str) -> std::io::Result<Self> {
        let f = std::fs::File::create(path)?;
        Ok(Trace {
            out: Box::new(std::io::BufWriter::new(f)),
            seq: 0,
        })
    }
    pub fn to_writer(w: Box<dyn Write + Send>) -> Self {
        Trace { out: w, seq: 0 }
    }
    /// `ev` must be a JSON object; "seq" is added.
    pub fn emit(&mut self, ev: Value) {
        self.seq += 1;
        let mut m = match ev {
            Value::Object(m) => m,
            other => {
                let mut m = Map::new();
                m.insert("value".into(), other);
                m
            }
        };
        m.insert("seq".into(), Value::from(self.seq));
        let line = serde_json::to_string(&Value::Object(m)).expect("json");
        self.out.write_all(line.as_bytes()).expect("trace write");
        self.out.write_all(b"\n").expect("trace write");
    }
    pub fn flush(&mut self) {
        let _ = self.out.flush();
    }
    pub fn count(&self) -> u64 {
        self.seq
    }
}

impl Drop for Trace {
    fn drop(&mut self) {
        self.flush();
    }
}
