//! ELF builder (64- and 32-bit, little endian) with named fields that can be overridden, and an
//! independent, straightforward ELF reader (build id, SONAME) used as the oracle for C08/C14.
use std::collections::BTreeMap;

#[derive(Clone, Debug)]
pub struct Spec {
    pub bits64: bool,
    pub ph_note: bool,       // PT_NOTE with a GNU build-id note (id_ph)
    pub sec_note: bool,      // .note.gnu.build-id section (id_sec), not covered by the PT_NOTE
    pub text: bool,          // executable PROGBITS section
    pub dynamic: bool,       // PT_DYNAMIC / .dynamic with DT_SONAME
    pub phdrs: bool,         // program header table present (e_phoff != 0)
    pub shdrs: bool,         // section header table present (e_shoff != 0)
    pub soname: Option<String>,
    pub id_ph: Vec<u8>,
    pub id_sec: Vec<u8>,
    pub text_fill: u8,
    pub pad_to: usize,
    pub vshift: u64,         // virtual address = file offset + vshift (one PT_LOAD covering the file)
}

impl Default for Spec {
    fn default() -> Self {
        Spec {
            bits64: true, ph_note: true, sec_note: true, text: true, dynamic: true, phdrs: true, shdrs: true,
            soname: Some("libverif.so.3".into()),
            id_ph: (1..=20).collect(), id_sec: (101..=120).collect(), text_fill: 0x5a, pad_to: 0x3000, vshift: 0,
        }
    }
}

pub struct Built {
    pub bytes: Vec<u8>,
    /// field name -> (offset, size in bytes)
    pub fields: BTreeMap<String, (usize, usize)>,
}

struct W {
    b: Vec<u8>,
    f: BTreeMap<String, (usize, usize)>,
}
impl W {
    fn at(&self) -> usize { self.b.len() }
    fn put(&mut self, name: &str, v: u64, size: usize) {
        self.f.insert(name.to_string(), (self.b.len(), size));
        self.b.extend_from_slice(&v.to_le_bytes()[..size]);
    }
    fn word(&mut self, name: &str, v: u64, b64: bool) { self.put(name, v, if b64 { 8 } else { 4 }) }
    fn pad(&mut self, to: usize) { while self.b.len() < to { self.b.push(0) } }
}

pub fn note(id: &[u8], name: &[u8], ty: u32) -> Vec<u8> {
    let mut n = Vec::new();
    n.extend_from_slice(&((name.len() + 1) as u32).to_le_bytes());
    n.extend_from_slice(&(id.len() as u32).to_le_bytes());
    n.extend_from_slice(&ty.to_le_bytes());
    n.extend_from_slice(name);
    n.push(0);
    while n.len() % 4 != 0 { n.push(0) }
    n.extend_from_slice(id);
    while n.len() % 4 != 0 { n.push(0) }
    n
}

/// Layout: ehdr | phdrs (text, note, dynamic) | shdrs (null, .text, .note.gnu.build-id, .shstrtab, .dynamic, .dynstr) |
///         ph note | section note | shstrtab | dynamic | dynstr | text ... padded
pub fn build(s: &Spec) -> Built {
    let b64 = s.bits64;
    let (ehsz, phsz, shsz) = if b64 { (64, 56, 64) } else { (52, 32, 40) };
    let nph = 3usize;
    let nsh = 6usize;
    let phoff = ehsz;
    let shoff = phoff + nph * phsz;
    let mut off = shoff + nsh * shsz;
    let ph_note = note(&s.id_ph, b"GNU", 3);
    let sec_note = note(&s.id_sec, b"GNU", 3);
    let ph_note_off = off; off += ph_note.len();
    let sec_note_off = off; off += sec_note.len();
    let shstr: &[u8] = b"\0.text\0.note.gnu.build-id\0.shstrtab\0.dynamic\0.dynstr\0";
    let name_off = |n: &[u8]| shstr.windows(n.len()).position(|w| w == n).unwrap() as u64;
    let shstr_off = off; off += shstr.len();
    off = (off + 7) & !7;
    let dyn_off = off;
    let dynent = if b64 { 16 } else { 8 };
    let soname = s.soname.clone().unwrap_or_default();
    let mut dynstr = vec![0u8];
    let soname_idx = dynstr.len();
    dynstr.extend_from_slice(soname.as_bytes());
    dynstr.push(0);
    let ndyn = 4;
    off += ndyn * dynent;
    let dynstr_off = off; off += dynstr.len();
    off = (off + 15) & !15;
    let text_off = off;
    let text_len = 0x1200usize;
    let total = (text_off + text_len).max(s.pad_to);

    let mut w = W { b: Vec::new(), f: BTreeMap::new() };
    // ---- ELF header
    w.b.extend_from_slice(&[0x7f, b'E', b'L', b'F', if b64 { 2 } else { 1 }, 1, 1, 0, 0, 0, 0, 0, 0, 0, 0, 0]);
    w.put("e_type", 3, 2);
    w.put("e_machine", if b64 { 62 } else { 3 }, 2);
    w.put("e_version", 1, 4);
    let vs = s.vshift;
    w.word("e_entry", text_off as u64 + vs, b64);
    w.word("e_phoff", if s.phdrs { phoff as u64 } else { 0 }, b64);
    w.word("e_shoff", if s.shdrs { shoff as u64 } else { 0 }, b64);
    w.put("e_flags", 0, 4);
    w.put("e_ehsize", ehsz as u64, 2);
    w.put("e_phentsize", phsz as u64, 2);
    w.put("e_phnum", nph as u64, 2);
    w.put("e_shentsize", shsz as u64, 2);
    w.put("e_shnum", nsh as u64, 2);
    w.put("e_shstrndx", 3, 2);
    // ---- program headers
    let ph = |w: &mut W, i: usize, ty: u32, flags: u32, off: u64, size: u64, align: u64| {
        let p = format!("ph{i}.");
        if b64 {
            w.put(&(p.clone() + "p_type"), ty as u64, 4);
            w.put(&(p.clone() + "p_flags"), flags as u64, 4);
            w.put(&(p.clone() + "p_offset"), off, 8);
            w.put(&(p.clone() + "p_vaddr"), off + vs, 8);
            w.put(&(p.clone() + "p_paddr"), off + vs, 8);
            w.put(&(p.clone() + "p_filesz"), size, 8);
            w.put(&(p.clone() + "p_memsz"), size, 8);
            w.put(&(p + "p_align"), align, 8);
        } else {
            w.put(&(p.clone() + "p_type"), ty as u64, 4);
            w.put(&(p.clone() + "p_offset"), off, 4);
            w.put(&(p.clone() + "p_vaddr"), off + vs, 4);
            w.put(&(p.clone() + "p_paddr"), off + vs, 4);
            w.put(&(p.clone() + "p_filesz"), size, 4);
            w.put(&(p.clone() + "p_memsz"), size, 4);
            w.put(&(p.clone() + "p_flags"), flags as u64, 4);
            w.put(&(p + "p_align"), align, 4);
        }
    };
    ph(&mut w, 0, 1, 5, 0, total as u64, 0x1000); // PT_LOAD
    ph(&mut w, 1, if s.ph_note { 4 } else { 0x6474e551 }, 4, ph_note_off as u64, ph_note.len() as u64, 4); // PT_NOTE
    ph(&mut w, 2, if s.dynamic { 2 } else { 0x6474e552 }, 6, dyn_off as u64, (ndyn * dynent) as u64, 8); // PT_DYNAMIC
    // ---- section headers
    let sh = |w: &mut W, i: usize, name: u64, ty: u32, flags: u64, off: u64, size: u64, link: u32, align: u64| {
        let p = format!("sh{i}.");
        w.put(&(p.clone() + "sh_name"), name, 4);
        w.put(&(p.clone() + "sh_type"), ty as u64, 4);
        w.word(&(p.clone() + "sh_flags"), flags, b64);
        w.word(&(p.clone() + "sh_addr"), if flags & 2 != 0 { off + vs } else { 0 }, b64);
        w.word(&(p.clone() + "sh_offset"), off, b64);
        w.word(&(p.clone() + "sh_size"), size, b64);
        w.put(&(p.clone() + "sh_link"), link as u64, 4);
        w.put(&(p.clone() + "sh_info"), 0, 4);
        w.word(&(p.clone() + "sh_addralign"), align, b64);
        w.word(&(p + "sh_entsize"), 0, b64);
    };
    sh(&mut w, 0, 0, 0, 0, 0, 0, 0, 0);
    sh(&mut w, 1, name_off(b".text"), if s.text { 1 } else { 8 }, if s.text { 6 } else { 2 }, text_off as u64, text_len as u64, 0, 16);
    sh(&mut w, 2, if s.sec_note { name_off(b".note.gnu.build-id") } else { name_off(b".dynstr") }, 7, 2, sec_note_off as u64, sec_note.len() as u64, 0, 4);
    sh(&mut w, 3, name_off(b".shstrtab"), 3, 0, shstr_off as u64, shstr.len() as u64, 0, 1);
    sh(&mut w, 4, name_off(b".dynamic"), if s.dynamic { 6 } else { 1 }, 3, dyn_off as u64, (ndyn * dynent) as u64, 5, 8);
    sh(&mut w, 5, name_off(b".dynstr"), 3, 2, dynstr_off as u64, dynstr.len() as u64, 0, 1);
    // ---- data
    assert_eq!(w.at(), ph_note_off);
    w.f.insert("phnote.namesz".into(), (w.at(), 4));
    w.f.insert("phnote.descsz".into(), (w.at() + 4, 4));
    w.f.insert("phnote.type".into(), (w.at() + 8, 4));
    w.b.extend_from_slice(&ph_note);
    w.f.insert("secnote.namesz".into(), (w.at(), 4));
    w.f.insert("secnote.descsz".into(), (w.at() + 4, 4));
    w.f.insert("secnote.type".into(), (w.at() + 8, 4));
    w.b.extend_from_slice(&sec_note);
    w.b.extend_from_slice(shstr);
    w.pad(dyn_off);
    let dyns: [(u64, u64); 4] = [(if s.soname.is_some() { 14 } else { 0x6ffffef5 }, soname_idx as u64), (5, dynstr_off as u64 + vs), (10, dynstr.len() as u64), (0, 0)];
    for (i, (tag, val)) in dyns.iter().enumerate() {
        w.word(&format!("dyn{i}.d_tag"), *tag, b64);
        w.word(&format!("dyn{i}.d_val"), *val, b64);
    }
    w.b.extend_from_slice(&dynstr);
    w.pad(text_off);
    for i in 0..text_len {
        w.b.push(s.text_fill.wrapping_add((i % 251) as u8));
    }
    w.pad(total);
    Built { bytes: w.b, fields: w.f }
}

pub fn set_field(b: &mut Built, name: &str, v: u64) -> bool {
    match b.fields.get(name) {
        Some(&(o, s)) => {
            b.bytes[o..o + s].copy_from_slice(&v.to_le_bytes()[..s]);
            true
        }
        None => false,
    }
}

// ------------------------------------------------------------------------------------------------
// Independent reader: plain, fully bounds-checked; returns None for anything it cannot follow.
fn rd(b: &[u8], off: u64, size: usize) -> Option<u64> {
    let o = usize::try_from(off).ok()?;
    let s = b.get(o..o.checked_add(size)?)?;
    let mut v = [0u8; 8];
    v[..size].copy_from_slice(s);
    Some(u64::from_le_bytes(v))
}

pub struct Hdr { pub b64: bool, pub phoff: u64, pub shoff: u64, pub phentsize: u64, pub phnum: u64, pub shentsize: u64, pub shnum: u64, pub shstrndx: u64 }
pub fn header(b: &[u8]) -> Option<Hdr> {
    if b.get(..4)? != [0x7f, b'E', b'L', b'F'] || *b.get(5)? != 1 { return None; }
    let b64 = match *b.get(4)? { 2 => true, 1 => false, _ => return None };
    Some(if b64 {
        Hdr { b64, phoff: rd(b, 32, 8)?, shoff: rd(b, 40, 8)?, phentsize: rd(b, 54, 2)?, phnum: rd(b, 56, 2)?, shentsize: rd(b, 58, 2)?, shnum: rd(b, 60, 2)?, shstrndx: rd(b, 62, 2)? }
    } else {
        Hdr { b64, phoff: rd(b, 28, 4)?, shoff: rd(b, 32, 4)?, phentsize: rd(b, 42, 2)?, phnum: rd(b, 44, 2)?, shentsize: rd(b, 46, 2)?, shnum: rd(b, 48, 2)?, shstrndx: rd(b, 50, 2)? }
    })
}
pub struct Ph { pub ty: u64, pub off: u64, pub filesz: u64, pub flags: u64, pub vaddr: u64, pub align: u64 }
pub fn phdrs(b: &[u8], h: &Hdr) -> Vec<Ph> {
    let mut v = Vec::new();
    if h.phoff == 0 { return v; }
    for i in 0..h.phnum {
        let Some(o) = h.phoff.checked_add(i * h.phentsize) else { break };
        let p = if h.b64 { (rd(b, o, 4), rd(b, o + 8, 8), rd(b, o + 32, 8), rd(b, o + 4, 4), rd(b, o + 16, 8), rd(b, o + 48, 8)) } else { (rd(b, o, 4), rd(b, o + 4, 4), rd(b, o + 16, 4), rd(b, o + 24, 4), rd(b, o + 8, 4), rd(b, o + 28, 4)) };
        if let (Some(ty), Some(off), Some(filesz), Some(flags), Some(vaddr), Some(align)) = p { v.push(Ph { ty, off, filesz, flags, vaddr, align }) } else { break }
    }
    v
}
pub struct Sh { pub name: u64, pub ty: u64, pub flags: u64, pub off: u64, pub size: u64, pub link: u64 }
pub fn shdrs(b: &[u8], h: &Hdr) -> Vec<Sh> {
    let mut v = Vec::new();
    if h.shoff == 0 { return v; }
    for i in 0..h.shnum {
        let Some(o) = h.shoff.checked_add(i * h.shentsize) else { break };
        let s = if h.b64 { (rd(b, o, 4), rd(b, o + 4, 4), rd(b, o + 8, 8), rd(b, o + 24, 8), rd(b, o + 32, 8), rd(b, o + 40, 4)) }
                else { (rd(b, o, 4), rd(b, o + 4, 4), rd(b, o + 8, 4), rd(b, o + 16, 4), rd(b, o + 20, 4), rd(b, o + 24, 4)) };
        if let (Some(name), Some(ty), Some(flags), Some(off), Some(size), Some(link)) = s { v.push(Sh { name, ty, flags, off, size, link }) } else { break }
    }
    v
}
fn gnu_build_id(notes: &[u8], align: usize) -> Option<Vec<u8>> {
    let al = if align == 8 { 8 } else { 4 };
    let mut o = 0usize;
    while o + 12 <= notes.len() {
        let namesz = u32::from_le_bytes(notes[o..o + 4].try_into().ok()?) as usize;
        let descsz = u32::from_le_bytes(notes[o + 4..o + 8].try_into().ok()?) as usize;
        let ty = u32::from_le_bytes(notes[o + 8..o + 12].try_into().ok()?);
        let name_at = o + 12;
        let desc_at = (name_at.checked_add(namesz)? + al - 1) & !(al - 1);
        let next = (desc_at.checked_add(descsz)? + al - 1) & !(al - 1);
        let name = notes.get(name_at..name_at + namesz)?;
        let desc = notes.get(desc_at..desc_at + descsz)?;
        if ty == 3 && name == b"GNU\0" { return Some(desc.to_vec()); }
        o = next;
    }
    None
}
fn cstr(b: &[u8], off: u64) -> Option<&[u8]> {
    let o = usize::try_from(off).ok()?;
    let s = b.get(o..)?;
    let n = s.iter().position(|c| *c == 0)?;
    Some(&s[..n])
}
/// (build id, which strategy found it: "ph" | "section" | "text")
pub fn oracle_build_id(b: &[u8]) -> Option<(Vec<u8>, &'static str)> {
    let h = header(b)?;
    for p in phdrs(b, &h) {
        if p.ty == 4 {
            if let Some(n) = usize::try_from(p.off).ok().and_then(|o| b.get(o..o.checked_add(p.filesz as usize)?)) {
                // each note segment is laid out with its own alignment (8 for .note.gnu.property, 4 for the classic notes)
                if let Some(id) = gnu_build_id(n, p.align as usize) { return Some((id, "ph")); }
            }
        }
    }
    let shs = shdrs(b, &h);
    let strtab = shs.get(h.shstrndx as usize).filter(|s| s.ty == 3);
    if let Some(st) = strtab {
        for s in &shs {
            if s.name < st.size && cstr(b, st.off.checked_add(s.name)?) == Some(b".note.gnu.build-id") {
                if let Some(n) = usize::try_from(s.off).ok().and_then(|o| b.get(o..o.checked_add(s.size as usize)?)) {
                    if let Some(id) = gnu_build_id(n, 4) { return Some((id, "section")); }
                }
                break;
            }
        }
    }
    let text = shs.iter().find(|s| s.ty == 1 && s.flags & 2 != 0 && s.flags & 4 != 0)?;
    let len = text.size.min(4096) as usize;
    let data = b.get(text.off as usize..(text.off as usize).checked_add(len)?)?;
    let mut id = vec![0u8; 16];
    for ch in data.chunks(16) {
        for (i, c) in ch.iter().enumerate() { id[i] ^= c; }
    }
    Some((id, "text"))
}
pub fn oracle_soname(b: &[u8]) -> Option<Vec<u8>> {
    let h = header(b)?;
    let es = if h.b64 { 16 } else { 8 };
    let ws = es / 2;
    // a dynamic array ends with DT_NULL; one that does not within its declared size is not well-formed: no answer
    let scan = |dy: &[u8]| -> (Option<u64>, Option<u64>, Option<u64>) {
        let (mut so, mut st, mut sz) = (None, None, None);
        let mut terminated = false;
        for ch in dy.chunks_exact(es) {
            let tag = rd(ch, 0, ws).unwrap();
            let val = rd(ch, ws as u64, ws).unwrap();
            match tag { 0 => { terminated = true; break } 14 => so = Some(val), 5 => st = Some(val), 10 => sz = Some(val), _ => {} }
        }
        if terminated { (so, st, sz) } else { (None, None, None) }
    };
    // DT_STRTAB is a virtual address: in a file it is translated through the PT_LOAD segment that contains it
    let phs = phdrs(b, &h);
    let file_off = |va: u64| phs.iter().find(|p| p.ty == 1 && p.vaddr <= va && va - p.vaddr < p.filesz).and_then(|p| (va - p.vaddr).checked_add(p.off));
    if let Some(p) = phs.iter().find(|p| p.ty == 2) {
        let dy = (p.off as usize).checked_add(p.filesz as usize).and_then(|e| b.get(p.off as usize..e));
        if let Some((Some(so), Some(st), Some(sz))) = dy.map(scan) {
            if so < sz {
                if let Some(s) = file_off(st).and_then(|o| o.checked_add(so)).and_then(|o| cstr(b, o)) { return Some(s.to_vec()); }
            }
        }
    }
    let shs = shdrs(b, &h);
    let d = shs.iter().find(|s| s.ty == 6)?;
    let strs = shs.get(d.link as usize).filter(|s| s.ty == 3)?;
    let dy = b.get(d.off as usize..(d.off as usize).checked_add(d.size as usize)?)?;
    let (so, _, _) = scan(dy);
    let so = so?;
    if so < strs.size { cstr(b, strs.off.checked_add(so)?).map(|s| s.to_vec()) } else { None }
}
