//! Small deterministic PRNG (splitmix64) so that no extra crate is needed.
#[derive(Clone)]
pub struct Rng(pub u64);

impl Rng {
    pub fn new(seed: u64) -> Self {
        Rng(seed ^ 0x9E37_79B9_7F4A_7C15)
    }
    pub fn next(&mut self) -> u64 {
        self.0 = self.0.wrapping_add(0x9E37_79B9_7F4A_7C15);
        let mut z = self.0;
        z = (z ^ (z >> 30)).wrapping_mul(0xBF58_476D_1CE4_E5B9);
        z = (z ^ (z >> 27)).wrapping_mul(0x94D0_49BB_1331_11EB);
        z ^ (z >> 31)
    }
    /// uniform in 0..n (n > 0)
    pub fn below(&mut self, n: u64) -> u64 {
        self.next() % n
    }
    pub fn range(&mut self, lo: u64, hi: u64) -> u64 {
        lo + self.below(hi - lo + 1)
    }
    pub fn chance(&mut self, num: u64, den: u64) -> bool {
        self.below(den) < num
    }
    pub fn pick<'a, T>(&mut self, xs: &'a [T]) -> &'a T {
        &xs[self.below(xs.len() as u64) as usize]
    }
    pub fn fill(&mut self, buf: &mut [u8]) {
        for chunk in buf.chunks_mut(8) {
            let v = self.next().to_le_bytes();
            chunk.copy_from_slice(&v[..chunk.len()]);
        }
    }
}
