//! C12: `sanitize_stack_copy` on generated (mappings, stack, sp) triples.
use crate::{rng::Rng, synth, trace::Trace};
use serde_json::{json, Value};

pub const DEFACED: u64 = 0x0defaced0defaced;
const SHIFT: u32 = 21;

#[derive(Clone, Debug)]
pub struct Map {
    pub start: u64,
    pub end: u64,
    pub exec: bool,
}

pub struct Case {
    pub maps: Vec<Map>,
    pub sp: u64,
    pub sp_off: usize,
    pub stack: Vec<u8>,
    pub origin: &'static str,
}

/// address as [bucket, offset] (64-bit values beyond the user range keep their bucket class mod 2^11)
pub fn addr_pair(a: u64) -> Value {
    let b = a >> SHIFT;
    let o = a & ((1 << SHIFT) - 1);
    let bp = if a < (1u64 << 47) { b } else { (1u64 << 27) + (b & 2047) };
    json!({"b": bp, "o": o})
}
pub fn word_json(w: u64) -> Value {
    let s = w as i64;
    let big = s.unsigned_abs() > (1 << 30);
    let mut v = addr_pair(w);
    v["big"] = json!(big);
    v["s"] = json!(if big { 0 } else { s });
    v
}

pub fn run_case(sy: &mut synth::Synth, c: &Case, tr: &mut Trace) {
    let d = sy.d();
    d.mappings = c.maps.iter().map(|m| synth::mapping(m.start as usize, m.end as usize, if m.exec { "r-xp" } else { "rw-p" }, Some("/x"))).collect();
    let stack_idx = c.maps.iter().position(|m| m.start <= c.sp && c.sp < m.end).map(|i| i + 1).unwrap_or(0);
    let len = c.stack.len();
    let aligned = (c.sp_off + 7) & !7;
    let words_in: Vec<u64> = if aligned <= len { c.stack[aligned..].chunks_exact(8).map(|ch| u64::from_ne_bytes(ch.try_into().unwrap())).collect() } else { vec![] };
    let mut copy = c.stack.clone();
    let res = std::panic::catch_unwind(std::panic::AssertUnwindSafe(|| d.sanitize_stack_copy(&mut copy, c.sp as usize, c.sp_off)));
    let mut ev = json!({"ev":"case","origin":c.origin,
        "maps": c.maps.iter().map(|m| json!({"start":addr_pair(m.start),"end":addr_pair(m.end),"exec":m.exec})).collect::<Vec<_>>(),
        "stackIdx": stack_idx, "spOff": c.sp_off, "len": len,
        "words": words_in.iter().map(|w| word_json(*w)).collect::<Vec<_>>()});
    match res {
        Err(_) => ev["panic"] = json!(true),
        Ok(Err(e)) => ev["error"] = json!(e.to_string()),
        Ok(Ok(())) => {
            let below_zero = copy[..aligned.min(copy.len())].iter().all(|b| *b == 0);
            let nwords = words_in.len();
            let tail_start = (aligned + nwords * 8).min(copy.len());
            let tail_zero = copy[tail_start..].iter().all(|b| *b == 0);
            let out: Vec<&str> = words_in
                .iter()
                .enumerate()
                .map(|(k, w)| {
                    let o = u64::from_ne_bytes(copy[aligned + k * 8..aligned + k * 8 + 8].try_into().unwrap());
                    match (o == *w, o == DEFACED) {
                        (true, true) => "kd",
                        (true, false) => "k",
                        (false, true) => "d",
                        _ => "x",
                    }
                })
                .collect();
            ev["out"] = json!(out);
            ev["belowZero"] = json!(below_zero);
            ev["tailZero"] = json!(tail_zero);
            ev["lenKept"] = json!(copy.len() == len);
        }
    }
    tr.emit(ev);
}

/// Concretise a model case (BucketSize 4, NBits 4, Small 2) into real addresses, preserving order,
/// containment and the aliasing classes of the pre-filter.
pub fn from_model(c: &Value) -> Case {
    let conv = |p: &Value| -> u64 {
        let b = p["b"].as_u64().unwrap();
        let o = p["o"].as_u64().unwrap();
        let rb = (b % 4) + (b / 4) * 2048;
        (rb << SHIFT) + o * (1 << (SHIFT - 2)) + 0x40
    };
    let maps: Vec<Map> = c["maps"].as_array().unwrap().iter().map(|m| Map { start: conv(&m["start"]) - 0x40, end: conv(&m["end"]) - 0x40, exec: m["exec"].as_bool().unwrap() }).collect();
    let stack_idx = c["stackIdx"].as_u64().unwrap() as usize;
    let sp = if stack_idx == 0 { 0x1000 } else { maps[stack_idx - 1].start + 8 };
    let mut stack = vec![0xAAu8; 8]; // 8 bytes below sp
    for w in c["words"].as_array().unwrap() {
        let s = w["s"].as_i64().unwrap();
        let v: u64 = if s.abs() <= 3 {
            // model small ints -3..3  ->  boundary of the real magnitude: +-4097, +-4096, +-1, 0
            (match s.abs() { 0 => 0i64, 1 => 1, 2 => 4096, _ => 4097 } * s.signum()) as u64
        } else {
            conv(w)
        };
        stack.extend_from_slice(&v.to_ne_bytes());
    }
    stack.extend_from_slice(&[0x55, 0x66, 0x77]); // partial tail
    Case { maps, sp, sp_off: 5, stack, origin: "tlc" }
}

pub fn random_case(r: &mut Rng) -> Case {
    // layout: 1..6 disjoint ascending mappings; executables sometimes placed in aliasing buckets
    let n = r.range(1, 6) as usize;
    let mut maps = Vec::new();
    let mut cur: u64 = match r.below(3) { 0 => 0x40_0000, 1 => 0x5555_5540_0000, _ => 0x7f00_0000_0000 } + r.below(1 << 12) * 0x1000;
    for _ in 0..n {
        cur += match r.below(4) { 0 => 0, 1 => 0x1000, 2 => r.below(1 << 22), _ => (r.below(3) + 1) << 32 } & !0xfff;
        let len = match r.below(4) { 0 => 0x1000, 1 => r.range(1, 64) * 0x1000, 2 => r.range(1, 4) << SHIFT, _ => r.range(1, 600) * 0x1000 };
        maps.push(Map { start: cur, end: cur + len, exec: r.chance(1, 2) });
        cur += len;
    }
    let stack_idx = r.below(n as u64 + 1) as usize;
    let sp = if stack_idx == 0 { r.next() & 0x7fff_ffff_f000 } else { let m = &maps[stack_idx - 1]; m.start + r.below(m.end - m.start) };
    let nwords = r.below(24) as usize;
    let sp_off = match r.below(4) { 0 => 0, 1 => r.below(9) as usize, 2 => r.below(4096) as usize, _ => 8 * r.below(8) as usize };
    let aligned = (sp_off + 7) & !7;
    let tail = r.below(8) as usize;
    let len = if r.chance(1, 12) { r.below(aligned as u64 + 1) as usize } else { aligned + nwords * 8 + tail };
    let mut stack = vec![0u8; len];
    r.fill(&mut stack);
    for k in 0..nwords {
        let at = aligned + k * 8;
        if at + 8 > len { break; }
        let m = r.pick(&maps).clone();
        let v: u64 = match r.below(12) {
            0 => r.below(4098),
            1 => (-(r.below(4098) as i64)) as u64,
            2 => *r.pick(&[4096u64, 4097, (-4096i64) as u64, (-4097i64) as u64, 0, u64::MAX]),
            3 => m.start + r.below(m.end - m.start),
            4 => *r.pick(&[m.start, m.end - 1, m.end, m.start.wrapping_sub(1)]),
            5 => (m.start + r.below(m.end - m.start)).wrapping_add((r.below(4) + 1) << 32),      // same pre-filter bit, other address
            6 => (m.start + r.below(m.end - m.start)).wrapping_sub((r.below(4) + 1) << 32),
            7 => ((m.end >> SHIFT) << SHIFT) + r.below(1 << SHIFT),                                // in the bucket of the end address
            8 => DEFACED,
            9 => r.next(),
            10 => r.next() & 0x7fff_ffff_ffff,
            _ => (maps[0].start & !0xfff_ffff) + r.below(1 << 28),
        };
        stack[at..at + 8].copy_from_slice(&v.to_ne_bytes());
    }
    Case { maps, sp, sp_off, stack, origin: "random" }
}
