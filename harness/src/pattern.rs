//! The address-derived fill pattern shared by the target (which writes it) and the driver (which predicts it).
pub fn mix(a: u64) -> u64 {
    let mut z = a.wrapping_add(0x9E37_79B9_7F4A_7C15);
    z = (z ^ (z >> 30)).wrapping_mul(0xBF58_476D_1CE4_E5B9);
    z = (z ^ (z >> 27)).wrapping_mul(0x94D0_49BB_1331_11EB);
    z ^ (z >> 31)
}
