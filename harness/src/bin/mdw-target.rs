//! mdw-target: a process whose shape is dictated by a JSON scenario, used as the target of dumps.
//!
//!   mdw-target <scenario.json>
//!
//! It builds the requested threads / memory regions / files / descriptors, prints ONE line of JSON
//! describing what it built (tids, addresses, sentinel values) followed by a line `ready`, and then
//! obeys one-line commands on stdin: `exit <slot>` (a heartbeat thread returns), `quit`.
//! It does not use the crate under test.
use serde_json::{json, Value};
use std::io::{BufRead, Write};
use std::sync::atomic::{AtomicU64, Ordering};

// ------------------------------------------------------------------ parked / spinning thread bodies
// Table layout (u64 slots): 0 rbx, 1 rdx, 2 rsi, 3 rdi, 4 rbp, 5 r8, 6 r9, 7 r10, 8 r12, 9 r13, 10 r14, 11 r15,
// 12 rsp (chosen stack pointer), 13 app word pointer (spin), 14..15 unused, 16.. xmm0..xmm15 (16 bytes each)
std::arch::global_asm!(
    ".globl mdw_parked",
    "mdw_parked:",
    "mov rax, rdi",
    "movdqu xmm0, [rax + 128]",
    "movdqu xmm1, [rax + 144]",
    "movdqu xmm2, [rax + 160]",
    "movdqu xmm3, [rax + 176]",
    "movdqu xmm4, [rax + 192]",
    "movdqu xmm5, [rax + 208]",
    "movdqu xmm6, [rax + 224]",
    "movdqu xmm7, [rax + 240]",
    "movdqu xmm8, [rax + 256]",
    "movdqu xmm9, [rax + 272]",
    "movdqu xmm10, [rax + 288]",
    "movdqu xmm11, [rax + 304]",
    "movdqu xmm12, [rax + 320]",
    "movdqu xmm13, [rax + 336]",
    "movdqu xmm14, [rax + 352]",
    "movdqu xmm15, [rax + 368]",
    // data segment selectors (0 or the 32-bit user data selector 0x2b), distinct per thread: es [112], ds [120], gs [104]
    "mov cx, [rax + 112]",
    "mov es, cx",
    "mov cx, [rax + 120]",
    "mov ds, cx",
    "mov cx, [rax + 104]",
    "mov gs, cx",
    "mov rbx, [rax + 0]",
    "mov rdx, [rax + 8]",
    "mov rsi, [rax + 16]",
    "mov rbp, [rax + 32]",
    "mov r8,  [rax + 40]",
    "mov r9,  [rax + 48]",
    "mov r10, [rax + 56]",
    "mov r12, [rax + 64]",
    "mov r13, [rax + 72]",
    "mov r14, [rax + 80]",
    "mov r15, [rax + 88]",
    "mov rsp, [rax + 96]",
    "mov rdi, [rax + 24]",
    "2:",
    "mov eax, 34", // pause
    "syscall",
    ".globl mdw_parked_ip",
    "mdw_parked_ip:",
    "jmp 2b",
    // spinner: a counter kept in rbx, in the word at [rsp] and in the application word at [r12]
    ".globl mdw_spin",
    "mdw_spin:",
    "mov rax, rdi",
    "mov r12, [rax + 104]",
    "mov rsp, [rax + 96]",
    "xor ebx, ebx",
    "3:",
    "inc rbx",
    "mov [rsp], rbx",
    "mov [r12], rbx",
    "jmp 3b",
);
extern "C" {
    fn mdw_parked(tbl: *const u64) -> !;
    fn mdw_spin(tbl: *const u64) -> !;
    static mdw_parked_ip: u8;
}

const PAGE: usize = 4096;

fn mix(a: u64) -> u64 {
    let mut z = a.wrapping_add(0x9E37_79B9_7F4A_7C15);
    z = (z ^ (z >> 30)).wrapping_mul(0xBF58_476D_1CE4_E5B9);
    z = (z ^ (z >> 27)).wrapping_mul(0x94D0_49BB_1331_11EB);
    z ^ (z >> 31)
}
/// address-derived fill: the word at aligned address a is mix(a) with the top bits forced so that it
/// is neither a small integer nor a plausible pointer
fn fill_pattern(start: usize, len: usize) {
    let mut a = start;
    while a + 8 <= start + len {
        let v = (mix(a as u64) | 0x8000_0000_0000_0000) & !0x0000_8000_0000_0000;
        unsafe { (a as *mut u64).write_unaligned(v) };
        a += 8;
    }
    while a < start + len {
        unsafe { (a as *mut u8).write(mix(a as u64) as u8 | 1) };
        a += 1;
    }
}

unsafe fn mmap_anon(len: usize, prot: i32) -> usize {
    let p = libc::mmap(std::ptr::null_mut(), len, prot, libc::MAP_PRIVATE | libc::MAP_ANONYMOUS, -1, 0);
    if p == libc::MAP_FAILED {
        eprintln!("mmap failed");
        std::process::exit(3);
    }
    p as usize
}

/// [below][pages...][above]: `below`/`above` in {"guard","hole","mapped"}; returns the start of the inner pages
/// `at`: 0 = wherever the kernel puts it, otherwise the address of the page below the inner pages (e.g. below the executable)
unsafe fn carve(pages: usize, below: &str, above: &str, at: usize) -> usize {
    let total = (pages + 2) * PAGE;
    let base = if at == 0 { mmap_anon(total, libc::PROT_NONE) } else {
        let p = libc::mmap(at as *mut libc::c_void, total, libc::PROT_NONE, libc::MAP_PRIVATE | libc::MAP_ANONYMOUS | libc::MAP_FIXED_NOREPLACE, -1, 0);
        if p == libc::MAP_FAILED { mmap_anon(total, libc::PROT_NONE) } else { p as usize }
    };
    let inner = base + PAGE;
    libc::mprotect(inner as *mut _, pages * PAGE, libc::PROT_READ | libc::PROT_WRITE);
    for (name, at) in [(below, base), (above, inner + pages * PAGE)] {
        match name {
            "hole" => {
                libc::munmap(at as *mut _, PAGE);
            }
            "mapped" => {
                // readable page with different permissions so the kernel does not merge the VMAs
                libc::mprotect(at as *mut _, PAGE, libc::PROT_READ);
            }
            _ => {} // guard: stays PROT_NONE
        }
    }
    inner
}

// ------------------------------------------------------------------ shared page with counters
static SHARED: AtomicU64 = AtomicU64::new(0);
const SLOT: usize = 64; // bytes per thread slot: heartbeat, usr1, rt, tid, exit flag
fn slot_ptr(slot: usize, field: usize) -> *mut u64 {
    (SHARED.load(Ordering::Relaxed) as usize + slot * SLOT + field * 8) as *mut u64
}
const MAXSLOTS: usize = 60;
extern "C" fn on_signal(sig: i32) {
    let base = SHARED.load(Ordering::Relaxed);
    if base == 0 {
        return;
    }
    let tid = unsafe { libc::syscall(libc::SYS_gettid) } as u64;
    for s in 0..MAXSLOTS {
        unsafe {
            if slot_ptr(s, 3).read_volatile() == tid {
                let f = if sig == libc::SIGUSR1 { 1 } else { 2 };
                let p = slot_ptr(s, f);
                p.write_volatile(p.read_volatile() + 1);
                return;
            }
        }
    }
}

fn hex(b: &[u8]) -> String {
    b.iter().map(|x| format!("{x:02x}")).collect()
}
fn unhex(s: &str) -> Vec<u8> {
    (0..s.len() / 2).map(|i| u8::from_str_radix(&s[2 * i..2 * i + 2], 16).unwrap_or(0)).collect()
}

/// The C library registers a restartable-sequences area in every thread's control block, which sits at the top of the
/// thread's stack mapping; the kernel rewrites its cpu fields whenever the thread resumes on another CPU (for instance when
/// a tracer detaches), so a stack captured during a dump would differ from the target's memory read afterwards although the
/// thread never ran user code.  Every thread of the target therefore un-registers the area first: nothing but the thread
/// itself writes its stack from then on.
fn rseq_off() {
    extern "C" {
        static __rseq_offset: isize;
        static __rseq_size: u32;
    }
    unsafe {
        if __rseq_size == 0 {
            return;
        }
        let tp: usize;
        std::arch::asm!("mov {}, fs:0", out(reg) tp);
        let area = (tp as isize + __rseq_offset) as usize;
        // RSEQ_FLAG_UNREGISTER = 1, RSEQ_SIG = 0x53053053; the length is the one glibc registered (32)
        libc::syscall(libc::SYS_rseq, area, 32usize, 1usize, 0x5305_3053usize);
    }
}

fn main() {
    rseq_off();
    // a panic anywhere (bad scenario) must end the process, never leave the driver waiting
    std::panic::set_hook(Box::new(|i| {
        eprintln!("mdw-target panic: {i}");
        std::process::abort();
    }));
    let path = std::env::args().nth(1).unwrap_or_else(|| {
        eprintln!("usage: mdw-target <scenario.json>");
        std::process::exit(2)
    });
    let cfg: Value = serde_json::from_str(&std::fs::read_to_string(&path).expect("read scenario")).expect("scenario json");
    let mut report = json!({"pid": std::process::id(), "at_entry": unsafe { libc::getauxval(libc::AT_ENTRY) }, "at_sysinfo_ehdr": unsafe { libc::getauxval(libc::AT_SYSINFO_EHDR) },
                            "exe": std::fs::read_link("/proc/self/exe").map(|p| p.to_string_lossy().into_owned()).unwrap_or_default()});

    // shared counters page
    if let Some(sp) = cfg.get("shared_path").and_then(|v| v.as_str()) {
        use std::os::unix::io::AsRawFd;
        let f = std::fs::OpenOptions::new().read(true).write(true).create(true).open(sp).expect("shared file");
        f.set_len(PAGE as u64).unwrap();
        let p = unsafe { libc::mmap(std::ptr::null_mut(), PAGE, libc::PROT_READ | libc::PROT_WRITE, libc::MAP_SHARED, f.as_raw_fd(), 0) };
        assert!(p != libc::MAP_FAILED);
        SHARED.store(p as u64, Ordering::SeqCst);
        unsafe {
            let mut sa: libc::sigaction = std::mem::zeroed();
            sa.sa_sigaction = on_signal as extern "C" fn(i32) as usize;
            sa.sa_flags = libc::SA_RESTART;
            libc::sigaction(libc::SIGUSR1, &sa, std::ptr::null_mut());
            libc::sigaction(libc::SIGRTMIN() + 1, &sa, std::ptr::null_mut());
        }
    }

    // ---- memory regions
    let mut regions = serde_json::Map::new();
    let mut region_addr = std::collections::HashMap::<String, (usize, usize, usize, usize)>::new();
    for r in cfg.get("regions").and_then(|v| v.as_array()).cloned().unwrap_or_default() {
        let name = r["name"].as_str().unwrap_or("r").to_string();
        let len = r["len"].as_u64().unwrap_or(PAGE as u64) as usize;
        let lead = r["lead"].as_u64().unwrap_or(0) as usize; // bytes between the first inner page start and the region
        let pages = (lead + len + PAGE - 1) / PAGE;
        let below = r["below"].as_str().unwrap_or("guard");
        let above = r["above"].as_str().unwrap_or("guard");
        // "page_zero": the region is the page at address 0 (legal for a privileged process or with vm.mmap_min_addr = 0); it keeps
        // the zeros the kernel gives it (nothing here may form a reference to address 0)
        if r["page_zero"].as_bool().unwrap_or(false) {
            let prot = if r["exec"].as_bool().unwrap_or(false) { libc::PROT_READ | libc::PROT_EXEC } else { libc::PROT_READ | libc::PROT_WRITE };
            let a = unsafe { libc::mmap(std::ptr::null_mut(), PAGE, prot, libc::MAP_PRIVATE | libc::MAP_ANONYMOUS | libc::MAP_FIXED, -1, 0) };
            let ok = a != libc::MAP_FAILED && a as usize == 0;
            region_addr.insert(name.clone(), (0, PAGE, 0, PAGE));
            regions.insert(name, json!({"addr": 0, "len": PAGE, "map_start": 0, "map_len": PAGE, "mapped": ok}));
            continue;
        }
        let inner = unsafe { carve(pages.max(1), below, above, r["low_addr"].as_u64().unwrap_or(0) as usize) };
        fill_pattern(inner, pages.max(1) * PAGE);
        // "ones_before_end": [k, ..]: eight 0xff bytes starting k bytes before the end of the inner pages (content that looks
        // like the error return of a system call when read as a word)
        for k in r["ones_before_end"].as_array().cloned().unwrap_or_default() {
            let k = k.as_u64().unwrap_or(8) as usize;
            if k >= 8 && k <= pages.max(1) * PAGE {
                unsafe { std::ptr::write_bytes((inner + pages.max(1) * PAGE - k) as *mut u8, 0xff, 8) };
            }
        }
        // "image": the bytes of this file at the start of the (anonymous) mapping
        if let Some(b) = r["image"].as_str().and_then(|p| std::fs::read(p).ok()) {
            let n = b.len().min(pages.max(1) * PAGE);
            unsafe { std::ptr::copy_nonoverlapping(b.as_ptr(), inner as *mut u8, n) };
        }
        // the region either starts `lead` bytes into the inner pages or ends exactly at their end
        let start = if r["at_end"].as_bool().unwrap_or(false) { inner + pages.max(1) * PAGE - len } else { inner + lead };
        if r["exec"].as_bool().unwrap_or(false) {
            unsafe { libc::mprotect(inner as *mut _, pages.max(1) * PAGE, libc::PROT_READ | libc::PROT_EXEC) };
        }
        region_addr.insert(name.clone(), (start, len, inner, pages.max(1) * PAGE));
        regions.insert(name, json!({"addr": start, "len": len, "map_start": inner, "map_len": pages.max(1) * PAGE}));
    }
    report["regions"] = Value::Object(regions);

    // ---- open descriptors
    let mut keep_files = Vec::new();
    for f in cfg.get("open_files").and_then(|v| v.as_array()).cloned().unwrap_or_default() {
        if let Some(p) = f.as_str() {
            if let Ok(fh) = std::fs::OpenOptions::new().read(true).write(true).create(true).open(p) {
                keep_files.push(fh);
            }
        }
    }
    for _ in 0..cfg.get("pipes").and_then(|v| v.as_u64()).unwrap_or(0) {
        let mut fds = [0i32; 2];
        unsafe { libc::pipe(fds.as_mut_ptr()) };
    }
    for _ in 0..cfg.get("sockets").and_then(|v| v.as_u64()).unwrap_or(0) {
        unsafe { libc::socket(libc::AF_UNIX, libc::SOCK_STREAM, 0) };
    }

    // ---- file mappings
    let mut fmaps = Vec::new();
    for f in cfg.get("file_maps").and_then(|v| v.as_array()).cloned().unwrap_or_default() {
        use std::os::unix::io::AsRawFd;
        // "path_hex": a path that is not UTF-8 (JSON cannot carry it)
        let pbytes: Vec<u8> = f["path_hex"].as_str().map(unhex).unwrap_or_else(|| f["path"].as_str().unwrap_or("").as_bytes().to_vec());
        let posstr = { use std::os::unix::ffi::OsStrExt; std::ffi::OsStr::from_bytes(&pbytes).to_os_string() };
        let p = &posstr;
        let off = f["off"].as_u64().unwrap_or(0);
        let len = f["len"].as_u64().unwrap_or(PAGE as u64) as usize;
        let prot = if f["exec"].as_bool().unwrap_or(false) { libc::PROT_READ | libc::PROT_EXEC } else { libc::PROT_READ };
        // "gap_before": one page of ordinary anonymous memory is mapped first, so that this file's lines do not touch the previous mapping's
        if f["gap_before"].as_bool().unwrap_or(false) {
            unsafe { libc::mmap(std::ptr::null_mut(), PAGE, libc::PROT_READ | libc::PROT_WRITE, libc::MAP_PRIVATE | libc::MAP_ANONYMOUS, -1, 0) };
        }
        match std::fs::File::open(p) {
            Ok(fh) => {
                // "guard_after": n pages of inaccessible anonymous memory directly after the file mapping (the reservation a
                // linker leaves behind a library's text): the address range is reserved first and the file mapped over its start
                let guard_after = f["guard_after"].as_u64().unwrap_or(0) as usize;
                let reserved = if guard_after > 0 && f["fixed"].as_u64().unwrap_or(0) == 0 {
                    let rlen = ((len + PAGE - 1) / PAGE + guard_after) * PAGE;
                    let r = unsafe { libc::mmap(std::ptr::null_mut(), rlen, libc::PROT_NONE, libc::MAP_PRIVATE | libc::MAP_ANONYMOUS, -1, 0) };
                    if r == libc::MAP_FAILED { 0 } else { r as usize }
                } else { 0 };
                // "fixed": map at this address (an image linked at a fixed address, i.e. not position independent)
                let fixed = if reserved != 0 { reserved } else { f["fixed"].as_u64().unwrap_or(0) as usize };
                let flags = if reserved != 0 { libc::MAP_PRIVATE | libc::MAP_FIXED } else if fixed != 0 { libc::MAP_PRIVATE | libc::MAP_FIXED_NOREPLACE } else { libc::MAP_PRIVATE };
                let a = unsafe { libc::mmap(fixed as *mut libc::c_void, len, prot, flags, fh.as_raw_fd(), off as i64) };
                if a == libc::MAP_FAILED {
                    fmaps.push(json!({"path": p.to_string_lossy(), "error": "mmap"}));
                } else {
                    // "split": the last page gets other permissions, so that the kernel reports the file as two adjacent lines
                    if f["split"].as_bool().unwrap_or(false) && len >= 2 * PAGE {
                        unsafe { libc::mprotect((a as usize + len - PAGE) as *mut libc::c_void, PAGE, libc::PROT_READ | libc::PROT_WRITE) };
                    }
                    fmaps.push(json!({"path": p.to_string_lossy(), "addr": a as usize, "len": len, "off": off}));
                }
                if f["delete"].as_bool().unwrap_or(false) {
                    let _ = std::fs::remove_file(p);
                }
                // "recreate_from": after the deletion another file takes the path (a library replaced by an update while it is loaded)
                if let Some(src) = f["recreate_from"].as_str() {
                    let _ = std::fs::copy(src, p);
                }
            }
            Err(e) => fmaps.push(json!({"path": p.to_string_lossy(), "error": e.to_string()})),
        }
    }
    report["file_maps"] = json!(fmaps);

    // ---- synthetic linker chain (fake PHDR table, PT_DYNAMIC, DT_DEBUG, r_debug, link_map list)
    if let Some(lc) = cfg.get("linker_chain") {
        report["linker_chain"] = build_linker_chain(lc);
    }

    // ---- threads
    let threads = cfg.get("threads").and_then(|v| v.as_array()).cloned().unwrap_or_default();
    let (tx, rx) = std::sync::mpsc::channel::<(usize, Value)>();
    for (slot, t) in threads.iter().enumerate() {
        let t = t.clone();
        let tx = tx.clone();
        let region_addr = region_addr.clone();
        std::thread::Builder::new()
            .stack_size(64 * 1024)
            .spawn(move || thread_main(slot, t, region_addr, tx))
            .expect("spawn");
    }
    let mut treps = vec![Value::Null; threads.len()];
    for _ in 0..threads.len() {
        let (slot, rep) = rx.recv().expect("thread report");
        treps[slot] = rep;
    }
    // give parked threads time to reach their blocking syscall
    std::thread::sleep(std::time::Duration::from_millis(30));
    report["threads"] = json!(treps);
    report["main_tid"] = json!(unsafe { libc::syscall(libc::SYS_gettid) });
    if let Some(n) = cfg.get("main_name_hex").and_then(|v| v.as_str()) {
        set_comm(&unhex(n));
    }

    let out = std::io::stdout();
    let mut o = out.lock();
    writeln!(o, "{}", serde_json::to_string(&report).unwrap()).unwrap();
    writeln!(o, "ready").unwrap();
    o.flush().unwrap();
    drop(o);

    if cfg.get("main_rsp0").and_then(|v| v.as_bool()).unwrap_or(false) {
        // the main thread too runs without a stack from now on (a sandboxed process): it only sleeps in pause()
        unsafe { std::arch::asm!("xor rsp, rsp", "2:", "mov eax, 34", "syscall", "jmp 2b", options(noreturn)) };
    }
    if cfg.get("leader_exits").and_then(|v| v.as_bool()).unwrap_or(false) {
        // only this thread exits: the thread-group leader becomes a zombie while the other threads keep running
        unsafe { libc::syscall(libc::SYS_exit, 0) };
    }
    let stdin = std::io::stdin();
    for line in stdin.lock().lines() {
        let Ok(line) = line else { break };
        let mut it = line.split_whitespace();
        match it.next() {
            Some("quit") => break,
            Some("exit") => {
                if let Some(slot) = it.next().and_then(|s| s.parse::<usize>().ok()) {
                    unsafe { slot_ptr(slot, 4).write_volatile(1) };
                }
                println!("ok");
            }
            Some("ping") => println!("pong"),
            _ => println!("?"),
        }
        let _ = std::io::stdout().flush();
    }
    drop(keep_files);
    std::process::exit(0);
}

fn set_comm(name: &[u8]) {
    let mut buf = [0u8; 17];
    let n = name.len().min(15);
    buf[..n].copy_from_slice(&name[..n]);
    unsafe { libc::prctl(libc::PR_SET_NAME, buf.as_ptr() as usize, 0, 0, 0) };
}

fn thread_main(slot: usize, t: Value, regions: std::collections::HashMap<String, (usize, usize, usize, usize)>, tx: std::sync::mpsc::Sender<(usize, Value)>) {
    rseq_off();
    let tid = unsafe { libc::syscall(libc::SYS_gettid) } as u64;
    if let Some(n) = t.get("name_hex").and_then(|v| v.as_str()) {
        set_comm(&unhex(n));
    }
    // "unshare_files": this thread gets a descriptor table of its own (as after clone without CLONE_FILES) and changes it
    if t.get("unshare_files").and_then(|v| v.as_bool()).unwrap_or(false) {
        unsafe {
            if libc::unshare(libc::CLONE_FILES) == 0 {
                let z = std::ffi::CString::new("/dev/zero").unwrap();
                let a = libc::open(z.as_ptr(), libc::O_RDONLY);
                let _b = libc::open(z.as_ptr(), libc::O_RDONLY);
                if a >= 0 {
                    libc::dup2(a, 0);
                }
            }
        }
    }
    let mode = t["mode"].as_str().unwrap_or("pause").to_string();
    let mut rep = json!({"slot": slot, "tid": tid, "mode": mode});
    if SHARED.load(Ordering::Relaxed) != 0 && slot < MAXSLOTS {
        unsafe { slot_ptr(slot, 3).write_volatile(tid) };
    }
    // "vfork": the thread sits in vfork(): it sleeps in the kernel, not interruptibly, until its child execs or exits.  Without
    // "vfork_ms" the child only pauses (the thread never comes back); with it the child exits after that many milliseconds and
    // the thread goes on as a heartbeat thread.
    let mut reported = false;
    if mode == "vfork" {
        let ms = t["vfork_ms"].as_u64();
        tx.send((slot, rep.clone())).unwrap();
        reported = true;
        unsafe {
            #[allow(deprecated)]
            let r = libc::vfork();
            if r == 0 {
                libc::prctl(libc::PR_SET_PDEATHSIG, libc::SIGKILL);
                if let Some(ms) = ms {
                    libc::usleep((ms * 1000) as u32);
                    libc::_exit(0);
                }
                loop {
                    libc::pause();
                }
            }
            if ms.is_none() {
                loop {
                    libc::pause();
                }
            }
            let mut st = 0;
            libc::waitpid(r, &mut st, 0);
        }
    }
    if mode == "heartbeat" || mode == "vfork" {
        if !reported {
            tx.send((slot, rep)).unwrap();
        }
        loop {
            unsafe {
                if SHARED.load(Ordering::Relaxed) != 0 {
                    let p = slot_ptr(slot, 0);
                    p.write_volatile(p.read_volatile() + 1);
                    if slot_ptr(slot, 4).read_volatile() != 0 {
                        return; // thread exits
                    }
                }
                libc::usleep(200);
            }
        }
    }
    // private stack mapping with chosen neighbours
    let pages = t["stack_pages"].as_u64().unwrap_or(4) as usize;
    let below = t["below"].as_str().unwrap_or("guard").to_string();
    let above = t["above"].as_str().unwrap_or("guard").to_string();
    // "low_addr": the stack is mapped at this fixed address (below the executable), not where the kernel would put it
    let stack = unsafe { carve(pages, &below, &above, t["low_addr"].as_u64().unwrap_or(0) as usize) };
    fill_pattern(stack, pages * PAGE);
    let sp_off = t["sp_off"].as_u64().unwrap_or((pages * PAGE - 256) as u64) as usize;
    let sp = if mode == "rsp0" { 0 } else if let Some(abs) = t.get("sp_abs_below").and_then(|v| v.as_u64()) {
        // stack pointer placed `abs` bytes BELOW the stack mapping (in the guard page / hole)
        stack - abs as usize
    } else {
        stack + sp_off
    };
    // planted words: [slot index (in words from sp), value] ; value = number | {"region": name, "off": n}
    let mut planted = Vec::new();
    for w in t.get("words").and_then(|v| v.as_array()).cloned().unwrap_or_default() {
        let at = (sp as i64 + w[0].as_i64().unwrap_or(0)) as usize; // byte offset relative to sp
        let val: u64 = match &w[1] {
            Value::Object(o) => {
                let g = |k: &str| o.get(k).and_then(|v| v.as_str()).and_then(|n| regions.get(n)).copied();
                let base = if let Some((a, _, _, _)) = g("region") {
                    a
                } else if let Some((a, l, _, _)) = g("region_end") {
                    a + l
                } else if let Some((_, _, m, _)) = g("region_map") {
                    m
                } else if let Some((_, _, m, ml)) = g("region_map_end") {
                    m + ml
                } else if o.get("self_stack").is_some() {
                    stack                       // an address inside this thread's own stack mapping
                } else {
                    0
                };
                (base as i64 + o.get("off").and_then(|x| x.as_i64()).unwrap_or(0)) as u64
            }
            Value::String(s) => u64::from_str_radix(s.trim_start_matches("0x"), 16).unwrap_or(0),
            v => v.as_i64().map(|x| x as u64).or(v.as_u64()).unwrap_or(0),
        };
        if at >= stack && at + 8 <= stack + pages * PAGE {
            unsafe { (at as *mut u64).write_unaligned(val) };
            planted.push(json!([at, format!("{val:x}")]));
        }
    }
    // sentinel table
    let seed = t["seed"].as_u64().unwrap_or(slot as u64 + 1);
    let tbl: &'static mut [u64; 48] = Box::leak(Box::new([0u64; 48]));
    let names = ["rbx", "rdx", "rsi", "rdi", "rbp", "r8", "r9", "r10", "r12", "r13", "r14", "r15"];
    let mut sent = serde_json::Map::new();
    for (i, n) in names.iter().enumerate() {
        tbl[i] = mix(seed * 1000 + i as u64) | 0x0100_0000_0000_0000;
        sent.insert(n.to_string(), json!(format!("{:x}", tbl[i])));
    }
    tbl[12] = sp as u64;
    // selectors by the bits of the seed, so that es, ds and gs differ from each other in most threads
    tbl[14] = if seed & 1 != 0 { 0x2b } else { 0 };
    tbl[15] = if seed & 2 != 0 { 0x2b } else { 0 };
    if t.get("spin_word").is_none() {
        tbl[13] = if seed & 4 != 0 { 0x2b } else { 0 };
    }
    if let Some((a, _, _, _)) = t.get("spin_word").and_then(|v| v.as_str()).and_then(|n| regions.get(n)) {
        tbl[13] = *a as u64;
    }
    for x in 0..16 {
        tbl[16 + 2 * x] = mix(seed * 7777 + x as u64);
        tbl[17 + 2 * x] = mix(seed * 8888 + x as u64);
        sent.insert(format!("xmm{x}"), json!(format!("{:016x}{:016x}", tbl[17 + 2 * x], tbl[16 + 2 * x])));
    }
    rep["stack_start"] = json!(stack);
    rep["stack_len"] = json!(pages * PAGE);
    rep["sp"] = json!(sp);
    rep["sentinels"] = Value::Object(sent);
    rep["planted"] = json!(planted);
    rep["parked_ip"] = json!(unsafe { &mdw_parked_ip as *const u8 as usize });
    rep["comm_hex"] = json!(t.get("name_hex").and_then(|v| v.as_str()).map(|s| hex(&unhex(s)[..unhex(s).len().min(15)])));
    tx.send((slot, rep)).unwrap();
    unsafe {
        if mode == "spin" {
            mdw_spin(tbl.as_ptr())
        } else {
            mdw_parked(tbl.as_ptr())
        }
    }
}

/// Builds, in this process's memory, the structures `dso_debug` walks: a program-header table with
/// PT_PHDR/PT_LOAD/PT_DYNAMIC, a dynamic section with DT_DEBUG, an r_debug and a link_map list.
/// cfg: {"names": ["libA", ...] | hex via "names_hex", "cyclic": bool, "dangling": bool, "no_debug": bool,
///       "phnum_extra": n, "unterminated_dynamic": bool}
fn build_linker_chain(lc: &Value) -> Value {
    let area = unsafe { carve(4, "guard", "hole", 0) };
    unsafe { std::ptr::write_bytes(area as *mut u8, 0, 4 * PAGE) };
    let w64 = |at: usize, v: u64| unsafe { (at as *mut u64).write_unaligned(v) };
    let w32 = |at: usize, v: u32| unsafe { (at as *mut u32).write_unaligned(v) };
    // page 0: phdrs at +0x40 (like a real ELF), page 1: dynamic + r_debug, page 2: link_maps, page 3: names
    let phdr = area + 0x40;
    let dynamic = area + PAGE + 0x100;
    let rdebug = area + PAGE + 0x800;
    let lmaps = area + 2 * PAGE;
    let names_at = area + 3 * PAGE;
    // Elf64_Phdr: p_type u32, p_flags u32, p_offset, p_vaddr, p_paddr, p_filesz, p_memsz, p_align
    let ph = |i: usize, ty: u32, off: u64, vaddr: u64, sz: u64| {
        let at = phdr + i * 56;
        w32(at, ty);
        w32(at + 4, 4);
        w64(at + 8, off);
        w64(at + 16, vaddr);
        w64(at + 24, vaddr);
        w64(at + 32, sz);
        w64(at + 40, sz);
        w64(at + 48, 8);
    };
    // base = (phdr & !0xfff) - p_vaddr(of PT_LOAD with offset 0) ; we use link-time addresses = offsets from `area`
    ph(0, 6, 0x40, 0x40, 3 * 56); // PT_PHDR
    let load_vaddr = lc.get("load_vaddr").and_then(|v| v.as_u64()).unwrap_or(0);
    ph(1, 1, 0, load_vaddr, 4 * PAGE as u64); // PT_LOAD offset 0 (its p_vaddr is subtracted from the base)
    ph(2, 2, (dynamic - area) as u64, (dynamic - area) as u64, 0x100); // PT_DYNAMIC
    let phnum = 3 + lc.get("phnum_extra").and_then(|v| v.as_u64()).unwrap_or(0);
    // dynamic: DT_NEEDED(1), DT_DEBUG(21) = &r_debug, DT_NULL
    let mut d = dynamic;
    w64(d, 1);
    w64(d + 8, 1);
    d += 16;
    if !lc.get("no_debug").and_then(|v| v.as_bool()).unwrap_or(false) {
        w64(d, 21);
        w64(d + 8, rdebug as u64);
        d += 16;
    }
    if lc.get("unterminated_dynamic").and_then(|v| v.as_bool()).unwrap_or(false) {
        // fill the rest of the mapped area with non-null tags so that the scan runs into the hole
        let mut q = d;
        while q + 16 <= area + 4 * PAGE {
            w64(q, 0x6fff_fff0);
            w64(q + 8, 0);
            q += 16;
        }
    } else {
        w64(d, 0);
        w64(d + 8, 0);
    }
    // link maps
    let names: Vec<Vec<u8>> = if let Some(a) = lc.get("names_hex").and_then(|v| v.as_array()) {
        a.iter().map(|s| unhex(s.as_str().unwrap_or(""))).collect()
    } else {
        lc.get("names").and_then(|v| v.as_array()).map(|a| a.iter().map(|s| s.as_str().unwrap_or("").as_bytes().to_vec()).collect()).unwrap_or_default()
    };
    let n = names.len();
    // "name_cross_page": the second name starts ten bytes before a page boundary inside the mapped area (as a name malloc'ed by the
    // loader at run time may); the other names keep clear of its tail
    let cross = lc.get("name_cross_page").and_then(|v| v.as_bool()).unwrap_or(false);
    let mut np = if cross { names_at + 512 } else { names_at };
    let mut entries = Vec::new();
    for (i, nm) in names.iter().enumerate() {
        let at = lmaps + i * 40;
        let at_end = lc.get("name_at_end").and_then(|v| v.as_bool()).unwrap_or(false) && i + 1 == n && !nm.is_empty();
        if at_end {
            np = area + 4 * PAGE - nm.len();
        }
        let crossing = cross && i == 1 && !nm.is_empty() && nm.len() < 500;
        let name_ptr = if nm.is_empty() { 0 } else if crossing { names_at - 10 } else { np };
        if !nm.is_empty() {
            unsafe { std::ptr::copy_nonoverlapping(nm.as_ptr(), name_ptr as *mut u8, nm.len()) };
            if !at_end && !crossing {
                np += nm.len() + 1;
            }
        }
        let l_addr = 0x1000_0000u64 * (i as u64 + 1);
        let l_ld = l_addr + 0x2000;
        w64(at, l_addr);
        w64(at + 8, name_ptr as u64);
        w64(at + 16, l_ld);
        let next = if lc.get("selfloop").and_then(|v| v.as_bool()).unwrap_or(false) && i + 1 == n {
            at
        } else if i + 1 < n {
            lmaps + (i + 1) * 40
        } else if lc.get("cyclic").and_then(|v| v.as_bool()).unwrap_or(false) {
            lmaps
        } else if lc.get("dangling").and_then(|v| v.as_bool()).unwrap_or(false) {
            area + 4 * PAGE + 64 // in the hole
        } else {
            0
        };
        w64(at + 24, next as u64);
        w64(at + 32, if i > 0 { lmaps + (i - 1) * 40 } else { 0 } as u64);
        entries.push(json!({"addr": l_addr, "ld": l_ld, "name_hex": hex(nm)}));
    }
    // r_debug: r_version i32, pad, r_map, r_brk, r_state i32, pad, r_ldbase
    w32(rdebug, 1);
    w64(rdebug + 8, if n > 0 { lmaps as u64 } else { 0 });
    w64(rdebug + 16, 0xb4b4_0000);
    w32(rdebug + 24, 0);
    w64(rdebug + 32, 0x7f00_dead_0000);
    json!({"phdr": phdr, "phnum": phnum, "dynamic": dynamic, "r_debug": rdebug, "brk": 0xb4b4_0000u64, "ldbase": 0x7f00_dead_0000u64,
           "entries": entries, "area": area,
           "dynamic_len": (d + 16 - dynamic)})
}
