fn main() {}
