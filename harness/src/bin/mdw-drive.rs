//! mdw-drive: runs model-generated behaviours and generated scenarios on the real
//! minidump-writer code and records ndjson traces for validation by TLC.
//!
//!   mdw-drive <subcommand> --in <file> --out <trace.ndjson> [--seed N] [--random N]
use mdwh::{rng::Rng, trace::Trace};
use serde_json::Value;
use std::io::BufRead;

struct Args {
    sub: String,
    input: Option<String>,
    out: String,
    seed: u64,
    random: usize,
    extra: Vec<String>,
}

fn parse_args() -> Args {
    let mut a = std::env::args().skip(1);
    let sub = a.next().unwrap_or_else(|| usage());
    let mut args = Args { sub, input: None, out: "/dev/stdout".into(), seed: 1, random: 0, extra: vec![] };
    while let Some(x) = a.next() {
        match x.as_str() {
            "--in" => args.input = a.next(),
            "--out" => args.out = a.next().unwrap_or_else(|| usage()),
            "--seed" => args.seed = a.next().and_then(|s| s.parse().ok()).unwrap_or(1),
            "--random" => args.random = a.next().and_then(|s| s.parse().ok()).unwrap_or(0),
            other => args.extra.push(other.to_string()),
        }
    }
    args
}

fn flag_val(extra: &[String], name: &str) -> Option<u64> {
    extra.iter().position(|x| x == name).and_then(|i| extra.get(i + 1)).and_then(|s| s.parse().ok())
}

fn flag_str(extra: &[String], name: &str) -> Option<String> {
    extra.iter().position(|x| x == name).and_then(|i| extra.get(i + 1)).cloned()
}

fn usage() -> ! {
    eprintln!("usage: mdw-drive <imgops|dirops|...> [--in file] --out trace [--seed N] [--random N]");
    std::process::exit(2)
}

/// Each line of the input is one JSON array (a history / a batch of cases).
fn read_histories(path: &Option<String>) -> Vec<Vec<Value>> {
    let Some(path) = path else { return vec![] };
    let f = std::fs::File::open(path).unwrap_or_else(|e| {
        eprintln!("cannot open {path}: {e}");
        std::process::exit(2)
    });
    std::io::BufReader::new(f)
        .lines()
        .map_while(Result::ok)
        .filter(|l| !l.trim().is_empty())
        .map(|l| serde_json::from_str::<Vec<Value>>(&l).unwrap_or_else(|e| {
            eprintln!("bad history line: {e}");
            std::process::exit(2)
        }))
        .collect()
}

fn main() {
    // panics of the code under test are data (caught and logged), not noise
    std::panic::set_hook(Box::new(|_| {}));
    let args = parse_args();
    let mut tr = Trace::to_file(&args.out).unwrap_or_else(|e| {
        eprintln!("cannot create {}: {e}", args.out);
        std::process::exit(2)
    });
    let mut rng = Rng::new(args.seed);
    match args.sub.as_str() {
        "imgops" => {
            for (i, h) in read_histories(&args.input).iter().enumerate() {
                mdwh::imgops::replay_history(h, i as u64 + args.seed, &mut tr, "tlc");
            }
            for i in 0..args.random {
                let len = rng.range(1, 30) as usize;
                let h = mdwh::imgops::random_history(&mut rng, len);
                mdwh::imgops::replay_history(&h, 1_000_000 + i as u64, &mut tr, "random");
            }
            // string-only histories: empty, short, long, BMP-only, astral-heavy
            let nstr = args.extra.iter().position(|x| x == "--strings").and_then(|i| args.extra.get(i + 1)).and_then(|s| s.parse::<usize>().ok()).unwrap_or(0);
            for i in 0..nstr / 20 + usize::from(nstr % 20 != 0) {
                let h: Vec<Value> = (0..20)
                    .map(|k| {
                        let (bmp, astral) = match (i + k) % 7 {
                            0 => (0, 0),
                            1 => (1, 0),
                            2 => (0, 1),
                            3 => (rng.below(64), rng.below(64)),
                            4 => (rng.below(16), 0),
                            5 => (0, rng.below(16)),
                            _ => if rng.chance(1, 20) { (rng.below(10_000), rng.below(2_000)) } else { (rng.below(300), rng.below(30)) },
                        };
                        serde_json::json!({"op":"string","bmp":bmp,"astral":astral})
                    })
                    .collect();
                mdwh::imgops::replay_history(&h, 2_000_000 + i as u64, &mut tr, "strings");
            }
        }
        "dirops" => {
            for (i, h) in read_histories(&args.input).iter().enumerate() {
                mdwh::dirops::replay_history(h, i as u64 + args.seed, &mut tr, "tlc");
            }
            for i in 0..args.random {
                let h = mdwh::dirops::random_history(&mut rng);
                mdwh::dirops::replay_history(&h, 1_000_000 + i as u64, &mut tr, "random");
            }
        }
        "aggregate" => {
            // input: one JSON array of model cases per line
            for batch in read_histories(&args.input) {
                for c in &batch {
                    mdwh::maps::run_model_case(c, &mut tr);
                }
            }
            if let Some(d) = flag_val(&args.extra, "--enum") {
                for gate in [0u64, 2, 3] {
                    mdwh::maps::enumerate(d as usize, gate, &mut tr);
                }
            }
            for _ in 0..args.random {
                let (text, gate) = mdwh::maps::random_text(&mut rng);
                mdwh::maps::run_case(&text, gate, "random", None, &mut tr);
            }
            // live samples: this process and every readable /proc/<pid>/maps
            if args.extra.iter().any(|x| x == "--live") {
                let mut n = 0;
                if let Ok(rd) = std::fs::read_dir("/proc") {
                    for e in rd.flatten() {
                        if n >= 40 { break; }
                        let name = e.file_name();
                        if !name.to_string_lossy().chars().all(|c| c.is_ascii_digit()) { continue; }
                        if let Ok(text) = std::fs::read_to_string(e.path().join("maps")) {
                            if text.is_empty() { continue; }
                            let vdso = mdwh::maps::parse_text(&text).iter().find(|l| l.name.as_deref() == Some("[vdso]")).map(|l| l.start).unwrap_or(0);
                            mdwh::maps::run_case(&text, vdso, "live", None, &mut tr);
                            n += 1;
                        }
                    }
                }
            }
        }
        "sanitize" => {
            let mut sy = mdwh::synth::Synth::new().unwrap_or_else(|e| { eprintln!("{e}"); std::process::exit(2) });
            for batch in read_histories(&args.input) {
                for c in &batch {
                    mdwh::sanitize::run_case(&mut sy, &mdwh::sanitize::from_model(c), &mut tr);
                }
            }
            for _ in 0..args.random {
                let c = mdwh::sanitize::random_case(&mut rng);
                mdwh::sanitize::run_case(&mut sy, &c, &mut tr);
            }
        }
        "dump" => {
            // input: one scenario (JSON object) per line
            let workdir = flag_str(&args.extra, "--workdir").unwrap_or_else(|| "/tmp".into());
            let path = args.input.clone().unwrap_or_else(|| usage());
            let text = std::fs::read_to_string(&path).unwrap_or_else(|e| { eprintln!("{path}: {e}"); std::process::exit(2) });
            for l in text.lines().filter(|l| !l.trim().is_empty()) {
                let scn: Value = serde_json::from_str(l).unwrap_or_else(|e| { eprintln!("bad scenario: {e}"); std::process::exit(2) });
                mdwh::dumprun::run_scenario(&scn, &workdir, &mut tr);
            }
        }
        "memread" => {
            let workdir = flag_str(&args.extra, "--workdir").unwrap_or_else(|| "/tmp".into());
            let cases: Vec<Value> = read_histories(&args.input).into_iter().flatten().collect();
            mdwh::memread::run(&cases, args.random, args.seed, &workdir, &mut tr);
        }
        "elf" => {
            let workdir = flag_str(&args.extra, "--workdir").unwrap_or_else(|| "/tmp".into());
            for c in read_histories(&args.input).into_iter().flatten() {
                mdwh::elfcases::model_case(&c, &mut tr, &workdir);
            }
            mdwh::elfcases::fuzz_cases(args.random, args.seed, &mut tr);
            mdwh::elfcases::system_files(flag_val(&args.extra, "--sysfiles").unwrap_or(0) as usize, &mut tr);
            mdwh::elfcases::live_mappings(&workdir, &mut tr);
        }
        "mkelf" => {
            // mkelf --kind elf|non_elf|elf_corrupt|elf_undyn|elf_badnote|elf_binnote|elf_noid|elf_zeroid|elf_nosoname --soname NAME --idseed N   (writes to --out)
            let kind = flag_str(&args.extra, "--kind").unwrap_or_else(|| "elf".into());
            let mut spec = mdwh::elfgen::Spec::default();
            if let Some(sn) = flag_str(&args.extra, "--soname") { spec.soname = if sn.is_empty() { None } else { Some(sn) }; }
            let ids = flag_val(&args.extra, "--idseed").unwrap_or(1);
            spec.id_ph = (0..20).map(|i| (ids as u8).wrapping_mul(7).wrapping_add(i)).collect();
            spec.text_fill = ids as u8;
            if kind == "elf_noid" { spec.ph_note = false; spec.sec_note = false; }
            if kind == "elf_zeroid" { spec.id_ph = vec![0; 20]; }
            if kind == "elf_nosoname" { spec.soname = None; }
            let mut b = mdwh::elfgen::build(&spec);
            if kind == "elf_badnote" {
                // the first (only) note of the segment and of the section claims a name longer than the segment: it cannot be decoded
                for f in ["phnote.namesz", "secnote.namesz"] { mdwh::elfgen::set_field(&mut b, f, 0xffff_fff0); }
            }
            if kind == "elf_binnote" {
                // the note of the segment and of the section has a well-formed header but a name that is not text ("GNU\0" -> ff fe fd 00):
                // a decoder that takes names as UTF-8 reports an error for it - a different one than for a note that does not fit
                for f in ["phnote.namesz", "secnote.namesz"] {
                    let at = b.fields[f].0 + 12;
                    b.bytes[at..at + 4].copy_from_slice(&[0xff, 0xfe, 0xfd, 0x00]);
                }
            }
            if kind == "elf_undyn" {
                // the dynamic segment / section ends right after its last real entry: no DT_NULL within the declared size
                let dynent = 16;
                for f in ["ph2.p_filesz", "ph2.p_memsz", "sh4.sh_size"] { mdwh::elfgen::set_field(&mut b, f, 3 * dynent); }
            }
            if kind == "elf_corrupt" {
                mdwh::elfgen::set_field(&mut b, "e_phoff", 0);
                mdwh::elfgen::set_field(&mut b, "sh3.sh_offset", u64::MAX);
                mdwh::elfgen::set_field(&mut b, "sh3.sh_size", u64::MAX);
                mdwh::elfgen::set_field(&mut b, "sh0.sh_name", 0xffff_fff0);
                mdwh::elfgen::set_field(&mut b, "dyn1.d_val", u64::MAX);
            }
            let bytes = if kind == "non_elf" { let mut v = vec![0u8; 0x3000]; rng.fill(&mut v); v } else { b.bytes };
            drop(tr);
            std::fs::write(&args.out, &bytes).unwrap_or_else(|e| { eprintln!("{e}"); std::process::exit(2) });
            let id = mdwh::elfgen::oracle_build_id(&bytes).map(|x| x.0.iter().map(|b| format!("{b:02x}")).collect::<String>());
            let so = mdwh::elfgen::oracle_soname(&bytes).map(|s| String::from_utf8_lossy(&s).into_owned());
            println!("{}", serde_json::json!({"len": bytes.len(), "oracle_id": id, "oracle_soname": so}));
            return;
        }
        "pure" => {
            mdwh::pure::run(args.random, args.seed, &mut tr);
        }
        "sover" => {
            mdwh::pure::sover(args.input.as_deref().unwrap_or(""), &mut tr);
        }
        "flood" => {
            let workdir = flag_str(&args.extra, "--workdir").unwrap_or_else(|| "/tmp".into());
            let rounds = flag_val(&args.extra, "--rounds").unwrap_or(1);
            for r in 0..rounds {
                mdwh::flood::run(args.random.max(100), args.seed + r, &workdir, &mut tr);
            }
        }
        _ => usage(),
    }
    tr.flush();
}
