//! C16: replay of ImageBuilder histories on the real `Buffer` / `MemoryWriter` /
//! `MemoryArrayWriter` / `write_string_to_location`, logging what each operation returned and
//! which bytes of the image it changed.
use crate::{rng::Rng, trace::Trace};
use minidump_writer::{
    mem_writer::{write_string_to_location, Buffer, MemoryArrayWriter, MemoryWriter},
    minidump_cpu::RawContextCPU,
    minidump_format::*,
};
use scroll::{
    ctx::{SizeWith, TryFromCtx, TryIntoCtx},
    Endian, Pread,
};
use serde_json::{json, Value};

/// deterministic non-zero pattern byte for (operation w, byte k)
fn pat(w: u64, k: usize) -> u8 {
    let x = (w.wrapping_mul(0x9E37_79B9) ^ (k as u64).wrapping_mul(0x85EB_CA6B)).wrapping_add(k as u64);
    ((x ^ (x >> 7) ^ (x >> 13)) as u8) | 1
}
fn pattern(w: u64, n: usize) -> Vec<u8> {
    (0..n).map(|k| pat(w, k)).collect()
}

trait SlotDyn {
    /// fill element `i` with the pattern of operation `w`; returns the bytes expected in the slot
    fn fill(&mut self, buf: &mut Buffer, w: u64, i: usize) -> Result<Vec<u8>, String>;
    fn elem_size(&self) -> usize;
    fn count(&self) -> usize;
    fn off(&self) -> usize;
    fn is_array(&self) -> bool;
}

struct One<T>(MemoryWriter<T>);
struct Arr<T>(MemoryArrayWriter<T>, usize);

fn sz<T: SizeWith<Endian>>() -> usize {
    T::size_with(&Endian::Little)
}
fn value_of<T>(bytes: &[u8]) -> Result<T, String>
where
    T: for<'a> TryFromCtx<'a, Endian, Error = scroll::Error>,
{
    bytes.pread_with::<T>(0, Endian::Little).map_err(|e| format!("pread: {e}"))
}

impl<T> SlotDyn for One<T>
where
    T: TryIntoCtx<Endian, Error = scroll::Error> + SizeWith<Endian> + for<'a> TryFromCtx<'a, Endian, Error = scroll::Error>,
{
    fn fill(&mut self, buf: &mut Buffer, w: u64, _i: usize) -> Result<Vec<u8>, String> {
        let p = pattern(w, sz::<T>());
        self.0.set_value(buf, value_of::<T>(&p)?).map_err(|e| e.to_string())?;
        Ok(p)
    }
    fn elem_size(&self) -> usize { sz::<T>() }
    fn count(&self) -> usize { 1 }
    fn off(&self) -> usize { self.0.position as usize }
    fn is_array(&self) -> bool { false }
}
impl<T> SlotDyn for Arr<T>
where
    T: TryIntoCtx<Endian, Error = scroll::Error> + SizeWith<Endian> + for<'a> TryFromCtx<'a, Endian, Error = scroll::Error>,
{
    fn fill(&mut self, buf: &mut Buffer, w: u64, i: usize) -> Result<Vec<u8>, String> {
        let p = pattern(w, sz::<T>());
        self.0.set_value_at(buf, value_of::<T>(&p)?, i).map_err(|e| e.to_string())?;
        // the writer's own idea of where element i lives must agree with base + i * size
        let loc = self.0.location_of_index(i);
        if loc.rva as usize != self.0.position as usize + i * sz::<T>() || loc.data_size as usize != sz::<T>() {
            return Err(format!("location_of_index({i}) = ({}, {})", loc.rva, loc.data_size));
        }
        Ok(p)
    }
    fn elem_size(&self) -> usize { sz::<T>() }
    fn count(&self) -> usize { self.1 }
    fn off(&self) -> usize { self.0.position as usize }
    fn is_array(&self) -> bool { true }
}

struct OpOut {
    loc_off: u32,
    loc_size: u32,
    slot: Option<Box<dyn SlotDyn>>,
    /// bytes expected at [loc_off, loc_off+loc_size)
    expect: Vec<u8>,
}

fn op_typed<T>(kind: &str, buf: &mut Buffer, w: u64, n: usize, variant: u64) -> Result<OpOut, String>
where
    T: TryIntoCtx<Endian, Error = scroll::Error> + SizeWith<Endian> + for<'a> TryFromCtx<'a, Endian, Error = scroll::Error> + 'static,
{
    let s = sz::<T>();
    match kind {
        "alloc" => {
            let mw = MemoryWriter::<T>::alloc(buf).map_err(|e| e.to_string())?;
            let l = mw.location();
            Ok(OpOut { loc_off: l.rva, loc_size: l.data_size, slot: Some(Box::new(One(mw))), expect: vec![0; s] })
        }
        "allocval" => {
            let p = pattern(w, s);
            let mw = MemoryWriter::<T>::alloc_with_val(buf, value_of::<T>(&p)?).map_err(|e| e.to_string())?;
            let l = mw.location();
            Ok(OpOut { loc_off: l.rva, loc_size: l.data_size, slot: Some(Box::new(One(mw))), expect: p })
        }
        "allocarray" => {
            let aw = MemoryArrayWriter::<T>::alloc_array(buf, n).map_err(|e| e.to_string())?;
            let l = aw.location();
            Ok(OpOut { loc_off: l.rva, loc_size: l.data_size, slot: Some(Box::new(Arr(aw, n))), expect: vec![0; s * n] })
        }
        "allocfrom" => {
            let p = pattern(w, s * n);
            let mut vals = Vec::new();
            for i in 0..n {
                vals.push(value_of::<T>(&p[i * s..(i + 1) * s])?);
            }
            let _ = variant;
            let aw = MemoryArrayWriter::<T>::alloc_from_iter(buf, vals).map_err(|e| e.to_string())?;
            let l = aw.location();
            Ok(OpOut { loc_off: l.rva, loc_size: l.data_size, slot: Some(Box::new(Arr(aw, n))), expect: p })
        }
        other => Err(format!("unknown typed op {other}")),
    }
}

/// `alloc_from_array` needs `Copy`; used for the Copy element types.
fn op_from_array<T>(buf: &mut Buffer, w: u64, n: usize) -> Result<OpOut, String>
where
    T: TryIntoCtx<Endian, Error = scroll::Error> + SizeWith<Endian> + for<'a> TryFromCtx<'a, Endian, Error = scroll::Error> + Copy + 'static,
{
    let s = sz::<T>();
    let p = pattern(w, s * n);
    let mut vals = Vec::new();
    for i in 0..n {
        vals.push(value_of::<T>(&p[i * s..(i + 1) * s])?);
    }
    let aw = MemoryArrayWriter::<T>::alloc_from_array(buf, &vals).map_err(|e| e.to_string())?;
    let l = aw.location();
    Ok(OpOut { loc_off: l.rva, loc_size: l.data_size, slot: Some(Box::new(Arr(aw, n))), expect: p })
}

pub const TYPE_NAMES: &[&[&str]] = &[
    // class 0 (model size 1): scalar element types
    &["u8", "u16", "u32", "u64"],
    // class 1 (model size 3): the record types the stream writers use
    &[
        "MDRawDirectory", "MDLocationDescriptor", "MDMemoryDescriptor", "MDRawThreadName", "MDRawThread",
        "MDRawModule", "MDRawHandleDescriptor", "MDRawHandleDataStream", "MDRawHeader", "MDRawSystemInfo",
        "MDMemoryInfo", "MDMemoryInfoList", "MDRawLinkMap", "MDRawDebug", "MDRawExceptionStream", "RawContextCPU",
    ],
];

fn dispatch(ty: &str, kind: &str, buf: &mut Buffer, w: u64, n: usize, variant: u64) -> Result<OpOut, String> {
    macro_rules! go {
        ($t:ty) => { op_typed::<$t>(kind, buf, w, n, variant) };
    }
    macro_rules! go_copy {
        ($t:ty) => {
            if kind == "allocfrom" && variant % 2 == 0 { op_from_array::<$t>(buf, w, n) } else { op_typed::<$t>(kind, buf, w, n, variant) }
        };
    }
    match ty {
        "u8" => go_copy!(u8),
        "u16" => go_copy!(u16),
        "u32" => go_copy!(u32),
        "u64" => go_copy!(u64),
        "MDMemoryDescriptor" => go_copy!(MDMemoryDescriptor),
        "MDLocationDescriptor" => go_copy!(MDLocationDescriptor),
        "MDRawDirectory" => go!(MDRawDirectory),
        "MDRawThreadName" => go!(MDRawThreadName),
        "MDRawThread" => go!(MDRawThread),
        "MDRawModule" => go!(MDRawModule),
        "MDRawHandleDescriptor" => go!(MDRawHandleDescriptor),
        "MDRawHandleDataStream" => go!(MDRawHandleDataStream),
        "MDRawHeader" => go!(MDRawHeader),
        "MDRawSystemInfo" => go!(MDRawSystemInfo),
        "MDMemoryInfo" => go!(MDMemoryInfo),
        "MDMemoryInfoList" => go!(MDMemoryInfoList),
        "MDRawLinkMap" => go!(MDRawLinkMap),
        "MDRawDebug" => go!(MDRawDebug),
        "MDRawExceptionStream" => go!(MDRawExceptionStream),
        "RawContextCPU" => go!(RawContextCPU),
        other => Err(format!("unknown type {other}")),
    }
}

fn diff_range(before: &[u8], after: &[u8]) -> (i64, i64) {
    let n = before.len().min(after.len());
    let lo = (0..n).find(|&i| before[i] != after[i]);
    match lo {
        None => (-1, -1),
        Some(lo) => {
            let hi = (0..n).rev().find(|&i| before[i] != after[i]).unwrap();
            (lo as i64, hi as i64 + 1)
        }
    }
}

/// A string of `bmp` BMP scalar values and `astral` supplementary ones, in an order derived from w.
pub fn make_string(w: u64, bmp: usize, astral: usize) -> String {
    let mut r = Rng::new(w ^ 0x5712);
    let mut kinds: Vec<bool> = std::iter::repeat(false).take(bmp).chain(std::iter::repeat(true).take(astral)).collect();
    for i in (1..kinds.len()).rev() {
        kinds.swap(i, r.below(i as u64 + 1) as usize);
    }
    let mut s = String::new();
    for a in kinds {
        loop {
            let cp = if a { r.range(0x10000, 0x10FFFF) } else { r.range(1, 0xFFFF) } as u32;
            if let Some(c) = char::from_u32(cp) {
                s.push(c);
                break;
            }
        }
    }
    s
}

/// Replays one history (array of op records). `hid` selects the concrete element types.
pub fn replay_history(hist: &[Value], hid: u64, tr: &mut Trace, origin: &str) {
    let mut buf = Buffer::with_capacity(0);
    let mut slots: Vec<Option<Box<dyn SlotDyn>>> = Vec::new();
    tr.emit(json!({"ev":"reset","origin":origin,"hid":hid}));
    for (k, op) in hist.iter().enumerate() {
        let w = (k + 1) as u64;
        let kind = op["op"].as_str().unwrap_or("");
        let before: Vec<u8> = buf.to_vec();
        let variant = hid.wrapping_add(k as u64);
        let mut ev = json!({"ev":"op","op":kind});
        let mut obs = json!({});
        let mut err: Option<String> = None;
        match kind {
            "alloc" | "allocval" | "allocarray" | "allocfrom" => {
                let class = if let Some(t) = op.get("ty").and_then(|t| t.as_str()) {
                    Some(t.to_string())
                } else {
                    let c = match op["sz"].as_u64().unwrap_or(1) { 1 => 0, _ => 1 };
                    let names = TYPE_NAMES[c];
                    Some(names[(variant % names.len() as u64) as usize].to_string())
                };
                let ty = class.unwrap();
                let n = op.get("n").and_then(|n| n.as_u64()).unwrap_or(1) as usize;
                match dispatch(&ty, kind, &mut buf, w, n, variant) {
                    Ok(out) => {
                        let s = out.slot.as_ref().map(|s| s.elem_size()).unwrap_or(0);
                        ev["ty"] = json!(ty);
                        ev["sz"] = json!(s);
                        ev["n"] = json!(if kind == "alloc" || kind == "allocval" { 1 } else { n });
                        let lo = out.loc_off as usize;
                        let hi = lo + out.loc_size as usize;
                        let content_ok = hi <= buf.len() && buf[lo..hi] == out.expect[..];
                        obs["loc_off"] = json!(out.loc_off);
                        obs["loc_size"] = json!(out.loc_size);
                        obs["content_ok"] = json!(content_ok);
                        slots.push(out.slot);
                    }
                    Err(e) => { err = Some(e); slots.push(None); }
                }
            }
            "bytes" => {
                let n = op["n"].as_u64().unwrap_or(0) as usize;
                let p = pattern(w, n);
                let aw = MemoryArrayWriter::<u8>::write_bytes(&mut buf, &p);
                let l = aw.location();
                let lo = l.rva as usize;
                let hi = lo + l.data_size as usize;
                ev["sz"] = json!(1);
                ev["n"] = json!(n);
                obs["loc_off"] = json!(l.rva);
                obs["loc_size"] = json!(l.data_size);
                obs["content_ok"] = json!(hi <= buf.len() && buf[lo..hi] == p[..]);
                slots.push(None);
            }
            "string" => {
                let (bmp, astral) = if let Some(n) = op.get("n").and_then(|n| n.as_u64()) {
                    // model history: n units; realise as a mix of BMP and astral scalars when n is even
                    let n = n as usize;
                    if variant % 2 == 0 && n >= 2 { (n - 2, 1) } else { (n, 0) }
                } else {
                    (op["bmp"].as_u64().unwrap_or(0) as usize, op["astral"].as_u64().unwrap_or(0) as usize)
                };
                let text = op.get("text").and_then(|t| t.as_str()).map(|s| s.to_string()).unwrap_or_else(|| make_string(w ^ hid, bmp, astral));
                let (bmp, astral) = (text.chars().filter(|c| (*c as u32) <= 0xFFFF).count(), text.chars().filter(|c| (*c as u32) > 0xFFFF).count());
                match write_string_to_location(&mut buf, &text) {
                    Ok(l) => {
                        let lo = l.rva as usize;
                        let hi = lo + l.data_size as usize;
                        // independent decode: u32 LE byte length, then that many bytes of UTF-16LE
                        let mut ok = hi <= buf.len() && l.data_size >= 4;
                        let mut hdr = 0u32;
                        if ok {
                            hdr = u32::from_le_bytes([buf[lo], buf[lo + 1], buf[lo + 2], buf[lo + 3]]);
                            ok = lo + 4 + hdr as usize <= buf.len() && hdr % 2 == 0;
                        }
                        let mut roundtrip = false;
                        if ok {
                            let units: Vec<u16> = buf[lo + 4..lo + 4 + hdr as usize].chunks(2).map(|c| u16::from_le_bytes([c[0], c[1]])).collect();
                            roundtrip = String::from_utf16(&units).map(|s| s == text).unwrap_or(false);
                        }
                        ev["bmp"] = json!(bmp);
                        ev["astral"] = json!(astral);
                        obs["loc_off"] = json!(l.rva);
                        obs["loc_size"] = json!(l.data_size);
                        obs["hdr"] = json!(hdr);
                        obs["content_ok"] = json!(ok && roundtrip);
                    }
                    Err(e) => err = Some(e.to_string()),
                }
                slots.push(None);
            }
            "setvalue" | "setat" => {
                let h = op["h"].as_u64().unwrap_or(0) as usize;
                let i = op.get("i").and_then(|i| i.as_u64()).unwrap_or(0) as usize;
                ev["h"] = json!(h);
                ev["i"] = json!(i);
                match slots.get_mut(h.wrapping_sub(1)).and_then(|s| s.as_mut()) {
                    Some(slot) if i < slot.count() && (kind == "setat") == slot.is_array() => {
                        let off = slot.off() + i * slot.elem_size();
                        match slot.fill(&mut buf, w, i) {
                            Ok(p) => {
                                obs["content_ok"] = json!(off + p.len() <= buf.len() && buf[off..off + p.len()] == p[..]);
                            }
                            Err(e) => err = Some(e),
                        }
                    }
                    _ => {
                        ev["skipped"] = json!(true); // out-of-contract in this concretisation
                    }
                }
                slots.push(None);
            }
            other => err = Some(format!("unknown op {other}")),
        }
        let (lo, hi) = diff_range(&before, &buf);
        obs["len"] = json!(buf.len());
        obs["len_before"] = json!(before.len());
        obs["chg_lo"] = json!(lo);
        obs["chg_hi"] = json!(hi);
        obs["position"] = json!(buf.position());
        if let Some(e) = err {
            ev["error"] = json!(e);
        }
        ev["obs"] = obs;
        if let Some(exp) = op.get("exp") {
            ev["exp"] = exp.clone();
        }
        tr.emit(ev);
    }
}

/// Random histories beyond the TLC bounds (longer, all element types, bigger arrays).
pub fn random_history(r: &mut Rng, len: usize) -> Vec<Value> {
    let mut h = Vec::new();
    // slot table mirrors what replay_history will build: (is_array, n) or None
    let mut slots: Vec<Option<(bool, usize)>> = Vec::new();
    for _ in 0..len {
        let live: Vec<usize> = slots.iter().enumerate().filter(|(_, s)| matches!(s, Some((_, n)) if *n > 0)).map(|(i, _)| i).collect();
        let c = r.below(if live.is_empty() { 6 } else { 9 });
        let all: Vec<&str> = TYPE_NAMES.iter().flat_map(|c| c.iter().copied()).collect();
        let ty = *r.pick(&all);
        match c {
            0 => { h.push(json!({"op":"alloc","ty":ty})); slots.push(Some((false, 1))); }
            1 => { h.push(json!({"op":"allocval","ty":ty})); slots.push(Some((false, 1))); }
            2 => { let n = r.below(6) as usize; h.push(json!({"op":"allocarray","ty":ty,"n":n})); slots.push(Some((true, n))); }
            3 => { let n = r.below(6) as usize; h.push(json!({"op":"allocfrom","ty":ty,"n":n})); slots.push(Some((true, n))); }
            4 => { h.push(json!({"op":"bytes","n":r.below(40)})); slots.push(None); }
            5 => { h.push(json!({"op":"string","bmp":r.below(12),"astral":r.below(4)})); slots.push(None); }
            _ => {
                let s = *r.pick(&live);
                let (arr, n) = slots[s].unwrap();
                if arr { h.push(json!({"op":"setat","h":s+1,"i":r.below(n as u64)})); } else { h.push(json!({"op":"setvalue","h":s+1})); }
                slots.push(None);
            }
        }
    }
    h
}
