//! C13: `MappingInfo::aggregate` on generated /proc/<pid>/maps texts.
//!
//! A case is a maps text plus a vDSO address. The harness parses the text with its own tiny
//! parser (the *input* side of the property), calls the real aggregation on the text as parsed by
//! procfs-core, and projects all addresses to ranks (order- and equality-preserving small
//! integers) so that TLC can compute with them.
use crate::{rng::Rng, trace::Trace};
use minidump_writer::maps_reader::MappingInfo;
use procfs_core::{process::MemoryMaps, FromRead};
use serde_json::{json, Value};
use std::collections::BTreeSet;

#[derive(Clone, Debug)]
pub struct Line {
    pub start: u64,
    pub end: u64,
    pub perms: String,
    pub off: u64,
    pub name: Option<String>,
}

pub fn render(lines: &[Line]) -> String {
    let mut s = String::new();
    for l in lines {
        let inode = if l.name.as_deref().map(|n| n.starts_with('/')).unwrap_or(false) { 1234 } else { 0 };
        s.push_str(&format!("{:08x}-{:08x} {} {:08x} 00:00 {} ", l.start, l.end, l.perms, l.off, inode));
        for _ in 0..10 {
            s.push(' ');
        }
        if let Some(n) = &l.name {
            s.push_str(n);
        }
        s.push('\n');
    }
    s
}

/// Independent parser of one maps line (address range, perms, offset, dev, inode, rest = name).
pub fn parse_text(text: &str) -> Vec<Line> {
    let mut v = Vec::new();
    for l in text.lines() {
        let mut it = l.splitn(6, ' ');
        let (Some(range), Some(perms), Some(off), Some(_dev), Some(_ino)) = (it.next(), it.next(), it.next(), it.next(), it.next()) else { continue };
        let rest = it.next().unwrap_or("").trim_start();
        let Some((a, b)) = range.split_once('-') else { continue };
        let (Ok(a), Ok(b), Ok(off)) = (u64::from_str_radix(a, 16), u64::from_str_radix(b, 16), u64::from_str_radix(off, 16)) else { continue };
        v.push(Line { start: a, end: b, perms: perms.to_string(), off, name: if rest.is_empty() { None } else { Some(rest.to_string()) } });
    }
    v
}

const DELETED: &str = " (deleted)";

pub struct Proj {
    addrs: Vec<u64>,
    offs: Vec<u64>,
}
impl Proj {
    pub fn new(lines: &[Line], gate: u64) -> Self {
        let mut a = BTreeSet::new();
        for l in lines {
            a.insert(l.start);
            a.insert(l.end);
        }
        let _ = gate;
        let addrs: Vec<u64> = a.into_iter().collect();
        let mut o = BTreeSet::new();
        for l in lines {
            if l.off != 0 && addrs.binary_search(&l.off).is_err() {
                o.insert(l.off);
            }
        }
        Proj { addrs, offs: o.into_iter().collect() }
    }
    /// rank of an address among the line boundaries (1-based); non-boundary addresses get 900000+
    pub fn addr(&self, a: u64) -> u64 {
        match self.addrs.binary_search(&a) {
            Ok(i) => i as u64 + 1,
            Err(i) => 900_000 + i as u64,
        }
    }
    /// file offsets: 0 stays 0, an offset equal to a boundary address gets that rank, others 1000000+
    pub fn off(&self, o: u64) -> u64 {
        if o == 0 {
            return 0;
        }
        match self.addrs.binary_search(&o) {
            Ok(i) => i as u64 + 1,
            Err(_) => 1_000_000 + self.offs.binary_search(&o).map(|i| i as u64).unwrap_or(99_999),
        }
    }
}

fn is_path(n: &str) -> bool {
    n.contains('/')
}

pub fn run_case(text: &str, gate: u64, origin: &str, exp: Option<&Value>, tr: &mut Trace) {
    let lines = parse_text(text);
    let pj = Proj::new(&lines, gate);
    let jl: Vec<Value> = lines
        .iter()
        .map(|l| {
            let raw = l.name.clone().unwrap_or_else(|| "none".into());
            let name = raw.strip_suffix(DELETED).map(|s| s.to_string()).unwrap_or(raw.clone());
            json!({"start": pj.addr(l.start), "end": pj.addr(l.end), "perms": l.perms, "off": pj.off(l.off),
                   "name": name, "path": is_path(&name)})
        })
        .collect();
    let gate_p = if gate == 0 { 0 } else { pj.addr(gate) };
    let mut ev = json!({"ev":"case","origin":origin,"gate":gate_p,"lines":jl});
    if let Some(e) = exp {
        ev["exp"] = e.clone();
    }
    let res = std::panic::catch_unwind(|| {
        let maps = MemoryMaps::from_read(text.as_bytes()).map_err(|e| format!("procfs parse: {e}"))?;
        MappingInfo::aggregate(maps, if gate == 0 { None } else { Some(gate) }).map_err(|e| format!("aggregate: {e}"))
    });
    match res {
        Ok(Ok(infos)) => {
            let out: Vec<Value> = infos
                .iter()
                .map(|m| {
                    let name = m.name.as_ref().map(|n| n.to_string_lossy().into_owned()).unwrap_or_else(|| "none".into());
                    let end = m.start_address as u64 + m.size as u64;
                    let s = pj.addr(m.start_address as u64);
                    json!({"start": s, "size": pj.addr(end) - s,
                           "sysend": pj.addr(m.system_mapping_info.end_address as u64),
                           "sysstart": pj.addr(m.system_mapping_info.start_address as u64),
                           "off": pj.off(m.offset as u64), "exec": m.is_executable(),
                           "privonly": m.permissions == procfs_core::process::MMPermissions::PRIVATE,
                           "name": name})
                })
                .collect();
            ev["out"] = json!(out);
        }
        Ok(Err(e)) => ev["error"] = json!(e),
        Err(_) => ev["panic"] = json!(true),
    }
    tr.emit(ev);
}

/// Case from a model record {lines:[{start,end,perms,off,name}], gate, exp}
pub fn run_model_case(c: &Value, tr: &mut Trace) {
    const K: u64 = 0x1000;
    let lines: Vec<Line> = c["lines"]
        .as_array()
        .map(|a| {
            a.iter()
                .map(|l| Line {
                    start: l["start"].as_u64().unwrap() * K,
                    end: l["end"].as_u64().unwrap() * K,
                    perms: l["perms"].as_str().unwrap().to_string(),
                    off: l["off"].as_u64().unwrap() * K,
                    name: match l["name"].as_str().unwrap() {
                        "none" => None,
                        n => Some(n.to_string()),
                    },
                })
                .collect()
        })
        .unwrap_or_default();
    let gate = c["gate"].as_u64().unwrap_or(0) * K;
    run_case(&render(&lines), gate, "tlc", None, tr);
}

const PERMS: &[&str] = &["---p", "r--p", "r-xp", "rw-p", "rwxp", "r--s", "rw-s", "--xp", "-w-p"];
const NAMES: &[&str] = &[
    "/usr/lib/libfoo.so.1", "/usr/lib/libbar.so", "/opt/my app/lib baz.so", "/tmp/gone.so (deleted)", "/tmp/gone.so", "[heap]",
    "[stack]", "[vdso]", "[vvar]", "[anon:scudo]", "/dev/shm/x", "/memfd:jit (deleted)", "[vsyscall]", "/usr/lib/libfoo.so.1 (deleted)",
];

/// Random long maps: runs of lines shaped like real libraries (so that the merge rules fire often)
/// mixed with arbitrary lines.
pub fn random_text(r: &mut Rng) -> (String, u64) {
    let n = r.range(1, 60);
    let mut lines = Vec::new();
    let mut cur: u64 = 0x5555_0000_0000 + r.below(1 << 20) * 0x1000;
    let mut vdso = 0u64;
    while (lines.len() as u64) < n {
        if r.chance(1, 2) {
            cur += r.range(1, 1 << 16) * 0x1000;
        }
        match r.below(5) {
            0 | 1 => {
                // a library-like run: name with parts, optional reserved gaps
                let name = *r.pick(NAMES);
                let parts = r.range(1, 5);
                for p in 0..parts {
                    let len = r.range(1, 8) * 0x1000;
                    let perms = if p == 0 && r.chance(2, 3) { "r-xp" } else { *r.pick(PERMS) };
                    let gap = r.chance(1, 3);
                    if gap {
                        let off = match r.below(3) { 0 => 0, 1 => cur, _ => r.below(16) * 0x1000 };
                        let glen = r.range(1, 512) * 0x1000;
                        let gname = if r.chance(1, 6) { Some(name.to_string()) } else { None };
                        lines.push(Line { start: cur, end: cur + glen, perms: "---p".into(), off, name: gname });
                        cur += glen;
                    }
                    if r.chance(1, 8) {
                        cur += 0x1000; // a hole inside the run
                    }
                    lines.push(Line { start: cur, end: cur + len, perms: perms.into(), off: if p == 0 { 0 } else { r.below(64) * 0x1000 }, name: Some(name.to_string()) });
                    cur += len;
                }
            }
            2 => {
                let len = r.range(1, 64) * 0x1000;
                lines.push(Line { start: cur, end: cur + len, perms: r.pick(PERMS).to_string(), off: 0, name: None });
                cur += len;
            }
            3 => {
                let len = r.range(1, 4) * 0x1000;
                if vdso == 0 || r.chance(1, 2) {
                    vdso = cur;
                }
                let nm = if r.chance(1, 2) { Some("[vdso]".to_string()) } else { None };
                lines.push(Line { start: cur, end: cur + len, perms: "r-xp".into(), off: 0, name: nm });
                cur += len;
            }
            _ => {
                let len = r.range(1, 16) * 0x1000;
                lines.push(Line { start: cur, end: cur + len, perms: r.pick(PERMS).to_string(), off: r.below(4) * 0x1000, name: Some(r.pick(NAMES).to_string()) });
                cur += len;
            }
        }
    }
    let gate = match r.below(4) {
        0 => 0,
        1 => lines[r.below(lines.len() as u64) as usize].start,
        _ => vdso,
    };
    (render(&lines), gate)
}

/// Driver-side exhaustive enumeration of all sequences of `depth` lines over the model's alphabet
/// (for depths the TLC export would make too slow); same space as MapsAggregate!Next.
pub fn enumerate(depth: usize, gate_unit: u64, tr: &mut Trace) -> usize {
    let perms = ["---p", "r--p", "r-xp", "rw-p"];
    let names = ["/a", "/b", "none", "[vdso]"];
    let per = 2 * perms.len() * 3 * names.len();
    let total = per.pow(depth as u32);
    for code in 0..total {
        let mut c = code;
        let mut lines = Vec::new();
        let mut last_end = 1u64;
        for _ in 0..depth {
            let k = c % per;
            c /= per;
            let gap = (k % 2) as u64;
            let p = perms[(k / 2) % perms.len()];
            let o = (k / 2 / perms.len()) % 3;
            let nm = names[k / 2 / perms.len() / 3];
            let start = last_end + gap;
            let off = match o { 0 => 0, 1 => 1, _ => last_end };
            lines.push(Line { start: start * 0x1000, end: (start + 1) * 0x1000, perms: p.into(), off: off * 0x1000, name: if nm == "none" { None } else { Some(nm.into()) } });
            last_end = start + 1;
        }
        run_case(&render(&lines), gate_unit * 0x1000, "enum", None, tr);
    }
    total
}
