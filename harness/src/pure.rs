//! C02: the public parsing entry points that take target-controlled values, on generated inputs.
//! Each call runs under catch_unwind; the outcome (ok / err / panic) is the datum.
use crate::{rng::Rng, synth, trace::Trace};
use serde_json::json;

fn outcome<T, E>(r: std::thread::Result<Result<T, E>>) -> &'static str {
    match r {
        Err(_) => "panic",
        Ok(Ok(_)) => "ok",
        Ok(Err(_)) => "err",
    }
}

pub fn run(random: usize, seed: u64, tr: &mut Trace) {
    let mut r = Rng::new(seed);
    // ---- .so version parsing through get_mapping_effective_path_name_and_version
    let pieces = ["1", "12", "3", "0", "", "rc", "a", "é", "ü7", "4é", "é4", "3é4", "2rcé", "😀", "3a😀5", "x", "1b2", "07", "٣", "1２"];
    let mut names: Vec<String> = vec!["/l/lib.so".into(), "/l/lib.so.".into(), "/l/libé.so.1".into(), "/l/lib.so.1.2.3é4".into(), "/l/lib.so.1.2.3rcé".into(),
                                      "/l/lib.so.1.2.é".into(), "/l/lib.so.1.2.3a😀5".into(), "/l/lib.so.1.2.3.4.5.6".into(), "/l/.so.".into(), "lib.so.1".into(), "/".into(), "".into()];
    for a in &pieces { for b in &pieces { names.push(format!("/l/lib.so.1.{a}.{b}")); names.push(format!("/l/lib.so.{a}.{b}")); } }
    for _ in 0..random {
        let n = r.range(1, 5);
        let mut s = String::from("/l/libx.so");
        for _ in 0..n { s.push('.'); s.push_str(*r.pick(&pieces[..])); if r.chance(1, 3) { s.push_str(*r.pick(&pieces[..])); } }
        names.push(s);
    }
    for n in &names {
        let m = synth::mapping(0x1000, 0x3000, "r-xp", Some(n));
        let res = std::panic::catch_unwind(|| m.get_mapping_effective_path_name_and_version(Some("libsoname.so.9".to_string())));
        tr.emit(json!({"ev":"pure","fn":"so_version","input":n,"outcome":outcome(res)}));
    }
    // non-UTF-8 file names
    {
        use std::os::unix::ffi::OsStringExt;
        for raw in [&b"/l/lib\xff.so.1.2\xfe3"[..], &b"/l/lib.so.1.2.\xc3"[..], &b"/l/\xff\xfe.so.1.\xff4"[..]] {
            let mut m = synth::mapping(0x1000, 0x3000, "r-xp", Some("/x"));
            m.name = Some(std::ffi::OsString::from_vec(raw.to_vec()));
            let res = std::panic::catch_unwind(|| m.get_mapping_effective_path_name_and_version(Some("s".to_string())));
            tr.emit(json!({"ev":"pure","fn":"so_version","input":String::from_utf8_lossy(raw),"outcome":outcome(res)}));
        }
    }
    // ---- stack scanning on short / odd copies
    let pm = synth::mapping(0x7000_0000, 0x7000_2000, "r-xp", Some("/p"));
    for len in [0usize, 1, 3, 7, 8, 9, 15, 16, 17] {
        for off in [0usize, 1, 7, 8, 9, 16, 24, 4096] {
            let copy = vec![0x41u8; len];
            let res = std::panic::catch_unwind(|| Ok::<bool, ()>(pm.stack_has_pointer_to_mapping(&copy, off)));
            tr.emit(json!({"ev":"pure","fn":"stack_has_pointer","input":format!("len={len} sp_offset={off}"),"outcome":outcome(res)}));
        }
    }
    // ---- get_stack_info at the edges of the address space
    if let Ok(mut sy) = synth::Synth::new() {
        let d = sy.d();
        d.mappings = vec![synth::mapping(0x10000, 0x20000, "rw-p", None), synth::mapping(usize::MAX - 0x1fff, usize::MAX - 0xfff, "rw-p", None)];
        for sp in [0usize, 1, 0xfff, 0x10000, 0x1ffff, 0x20000, usize::MAX, usize::MAX - 7, usize::MAX - 0xfff, usize::MAX - 0x1000, usize::MAX - 0x100000, 1 << 63, (1 << 47) - 8] {
            let res = std::panic::catch_unwind(std::panic::AssertUnwindSafe(|| d.get_stack_info(sp)));
            tr.emit(json!({"ev":"pure","fn":"get_stack_info","input":format!("{sp:#x}"),"outcome":outcome(res)}));
        }
        // sanitising with odd geometry
        for (len, off) in [(0usize, 0usize), (0, 8), (7, 0), (8, 9), (16, 4096), (4096, 4095)] {
            let mut copy = vec![0x42u8; len];
            let res = std::panic::catch_unwind(std::panic::AssertUnwindSafe(|| d.sanitize_stack_copy(&mut copy, 0x10010, off)));
            tr.emit(json!({"ev":"pure","fn":"sanitize","input":format!("len={len} sp_offset={off}"),"outcome":outcome(res)}));
        }
    }
}


/// SoVersion model cases: each abstract component sequence exported by TLC is written out as a file name and parsed by the
/// crate (through the public name/version function); the four fields are the datum.
pub fn sover(input: &str, tr: &mut Trace) {
    for line in std::fs::read_to_string(input).unwrap_or_default().lines() {
        let Ok(c) = serde_json::from_str::<serde_json::Value>(line) else { continue };
        let kinds: Vec<String> = c["kinds"].as_array().map(|a| a.iter().map(|k| k.as_str().unwrap_or("").to_string()).collect()).unwrap_or_default();
        let comps: Vec<String> = kinds.iter().enumerate().map(|(p, k)| match k.as_str() {
            "num" => format!("{}", 3 + p),
            "big" => "99999999999".to_string(),
            "empty" => String::new(),
            "a" => "rc".to_string(),
            "nan" => format!("{}rc{}", 20 + p, 40 + p),
            "na" => format!("{}beta", 20 + p),
            "an" => format!("rc{}", 40 + p),
            _ => "?".to_string(),
        }).collect();
        let name = format!("/usr/lib/libmodel.so.{}", comps.join("."));
        let m = synth::mapping(0x1000, 0x3000, "r-xp", Some(&name));
        let res = std::panic::catch_unwind(|| m.get_mapping_effective_path_name_and_version(Some("libmodel.so.1".to_string())));
        let got = match res {
            Ok(Ok((_, _, Some(v)))) => json!([v.major, v.minor, v.patch, v.prerelease]),
            Ok(Ok((_, _, None))) => json!("none"),
            Ok(Err(_)) => json!("err"),
            Err(_) => json!("panic"),
        };
        tr.emit(json!({"ev":"sover","kinds":kinds,"name":name,"got":got}));
    }
}
