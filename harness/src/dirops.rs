//! C09: replay of DirOps histories on the real `Buffer` + `DirSection` over a recording
//! destination; after every public call the destination and the image are compared.
use crate::{
    recdest::{Call, RecDest},
    rng::Rng,
    trace::Trace,
};
use minidump_writer::{
    dir_section::DirSection,
    mem_writer::{Buffer, MemoryArrayWriter, MemoryWriter},
    minidump_format::*,
};
use serde_json::{json, Value};
use std::{
    cell::RefCell,
    io::{Seek, SeekFrom, Write},
    rc::Rc,
};

/// `Write + Seek` handle on a shared RecDest, so that the harness can look at the destination
/// while a `DirSection` holds the mutable borrow of the handle.
#[derive(Clone)]
pub struct SharedDest(pub Rc<RefCell<RecDest>>);
impl Write for SharedDest {
    fn write(&mut self, buf: &[u8]) -> std::io::Result<usize> {
        self.0.borrow_mut().write(buf)
    }
    fn flush(&mut self) -> std::io::Result<()> {
        self.0.borrow_mut().flush()
    }
}
impl Seek for SharedDest {
    fn seek(&mut self, to: SeekFrom) -> std::io::Result<u64> {
        self.0.borrow_mut().seek(to)
    }
}

/// Positions are shown relative to `disp` (the window base of the destination: 0 unless the dump started beyond 4 GiB), as signed
/// numbers, so that they stay small enough for TLC's integers.
pub fn calls_json_at(calls: &[Call], disp: u64) -> Vec<Value> {
    let r = |p: &u64| *p as i128 - disp as i128;
    calls
        .iter()
        .map(|c| match c {
            Call::StreamPos { res } => json!(["pos", r(res) as i64, 0]),
            Call::Seek { to, .. } => json!(["seek", r(to) as i64, 0]),
            Call::Write { pos, data } => json!(["write", r(pos) as i64, data.len()]),
            Call::Flush => json!(["flush", 0, 0]),
            Call::Failed { what } => json!(["failed", what, 0]),
        })
        .collect()
}

pub fn calls_json(calls: &[Call]) -> Vec<Value> {
    calls_json_at(calls, 0)
}

/// The same, with the pieces of one `write_all` (consecutive writes at contiguous positions) joined: the unit DirOps speaks about.
pub fn calls_json_joined(calls: &[Call], disp: u64) -> Vec<Value> {
    let mut out: Vec<Value> = Vec::new();
    for c in calls_json_at(calls, disp) {
        if let Some(last) = out.last_mut() {
            if last[0] == "write" && c[0] == "write" && last[1].as_i64().unwrap_or(0) + last[2].as_i64().unwrap_or(0) == c[1].as_i64().unwrap_or(i64::MAX) {
                last[2] = json!(last[2].as_u64().unwrap_or(0) + c[2].as_u64().unwrap_or(0));
                continue;
            }
        }
        out.push(c);
    }
    out
}

fn lcp(a: &[u8], b: &[u8]) -> usize {
    a.iter().zip(b.iter()).take_while(|(x, y)| x == y).count()
}

/// Observation after a public call: everything C09 talks about, computed from the real bytes.
pub fn observe(dest: &RecDest, buf: &[u8], calls_from: usize) -> Value {
    let disp = dest.base;
    let start = (dest.start - disp) as usize;
    let img_part = dest.image_part();
    let hi = (dest.written_hi().max(dest.start) - disp) as usize;
    let tail_mod = dest.first_modified_from(dest.start as usize + buf.len()).map(|x| x - disp as usize);
    json!({
        "imgLen": buf.len(),
        "fpos": dest.pos as i128 as i64 - disp as i64,
        "fileHi": hi,
        // longest common prefix of destination[start..written_hi) and the image
        "lcp": lcp(&img_part[..(hi - start).min(img_part.len())], buf),
        "prefixIntact": dest.prefix_intact(),
        // first pre-existing byte beyond the end of the image that was modified (-1: none)
        "tailMod": tail_mod.map(|x| x as i64).unwrap_or(-1),
        "calls": calls_json_joined(&dest.calls[calls_from..], disp),
    })
}

pub fn replay_history(hist: &[Value], hid: u64, tr: &mut Trace, origin: &str) {
    let first = &hist[0];
    let start = first["start"].as_u64().unwrap_or(0);
    let slots = first["slots"].as_u64().unwrap_or(3) as u32;
    // pre-existing content: alternately just up to the start offset, or longer than any image here
    let pre_len = if hid % 2 == 0 { start as usize } else { start as usize + 4096 };
    let shared = SharedDest(Rc::new(RefCell::new(RecDest::new(start, pre_len))));
    let mut handle = shared.clone();
    let mut buf = Buffer::with_capacity(0);
    let mut r = Rng::new(hid);

    tr.emit(json!({"ev":"reset","origin":origin,"hid":hid}));
    let _hdr = MemoryWriter::<MDRawHeader>::alloc(&mut buf).expect("alloc header");
    let mut dir = match DirSection::new(&mut buf, slots, &mut handle) {
        Ok(d) => d,
        Err(e) => {
            tr.emit(json!({"ev":"new","start":start,"slots":slots,"error":e.to_string()}));
            return;
        }
    };
    let ncalls0 = shared.0.borrow().calls.len();
    let disp = shared.0.borrow().base;
    tr.emit(json!({"ev":"new","start":start - disp,"slots":slots,"preLen":pre_len as u64 - disp.min(pre_len as u64),"dirPos":dir.position(),
                   "obs": observe(&shared.0.borrow(), &buf, 0)}));
    let mut ncalls = ncalls0;
    let mut last_grow = MDLocationDescriptor { data_size: 0, rva: 0 };
    let mut stream_no = 1u32;
    for op in &hist[1..] {
        let kind = op["op"].as_str().unwrap_or("");
        let mut ev = json!({"ev": kind});
        match kind {
            "grow" => {
                let n = op["n"].as_u64().unwrap_or(0) as usize;
                let mut bytes = vec![0u8; n];
                r.fill(&mut bytes);
                let w = MemoryArrayWriter::<u8>::write_bytes(&mut buf, &bytes);
                last_grow = w.location();
                ev["n"] = json!(n);
            }
            "flush" => {
                let entry = op["entry"].as_bool().unwrap_or(false);
                ev["entry"] = json!(entry);
                // "short": n - the destination takes only n bytes of the first write of this flush (and everything afterwards)
                if let Some(n) = op.get("short").and_then(|v| v.as_u64()) {
                    let mut d = shared.0.borrow_mut();
                    let k = d.ncalls;
                    d.short_at = Some((k, n as usize, false));
                    ev["short"] = json!(n);
                }
                let dirent = entry.then(|| MDRawDirectory { stream_type: stream_no, location: last_grow });
                if entry {
                    stream_no += 1;
                }
                if let Err(e) = dir.write_to_file(&mut buf, dirent) {
                    ev["error"] = json!(e.to_string());
                }
            }
            _ => ev["error"] = json!("unknown op"),
        }
        ev["obs"] = observe(&shared.0.borrow(), &buf, ncalls);
        ncalls = shared.0.borrow().calls.len();
        if let Some(exp) = op.get("exp") {
            ev["exp"] = exp.clone();
        }
        if let Some(c) = op.get("calls") {
            ev["expCalls"] = c.clone();
        }
        tr.emit(ev);
    }
}

/// Random histories beyond the TLC bounds: more slots, more operations, arbitrary sizes/offsets.
pub fn random_history(r: &mut Rng) -> Vec<Value> {
    let slots = r.range(1, 20);
    // destinations positioned beyond 4 GiB too (a dump appended to a huge file): offsets do not fit 32 bits there
    let start = *r.pick(&[0u64, 1, 7, 12, 4096, 65537, (1 << 32) + 4096, (1 << 32) + 7, 5 * (1 << 32), (1 << 40) + 12345]);
    let mut h = vec![json!({"op":"new","start":start,"slots":slots})];
    let mut used = 0;
    // one history in ten works with multi-MiB streams (size thresholds), and is kept short
    let big = r.chance(1, 10);
    for _ in 0..r.range(1, if big { 12 } else { 40 }) {
        match r.below(3) {
            0 => h.push(json!({"op":"grow","n": if r.chance(1, 5) { 0 } else if big && r.chance(1, 3) { *r.pick(&[65536u64, 1 << 20, (1 << 20) + 1, 3 << 20, (5 << 20) + 7]) } else { r.below(3000) }})),
            1 => h.push(if r.chance(1, 4) { json!({"op":"flush","entry":false,"short":r.range(1, 40)}) } else { json!({"op":"flush","entry":false}) }),
            _ => {
                if used < slots {
                    used += 1;
                    h.push(if r.chance(1, 4) { json!({"op":"flush","entry":true,"short":r.range(1, 40)}) } else { json!({"op":"flush","entry":true}) });
                }
            }
        }
    }
    h
}
