//! mdparse: a from-scratch decoder of the minidump images this writer produces (x86-64 Linux).
//!
//! It shares no code with minidump-writer or minidump-common: all layouts are written down here
//! from the format. It decodes an image — or any *prefix* of one — into header, directory, and a
//! list of *objects* (kind, offset, length, owner) for every stream body and every blob reachable
//! through an RVA, plus the decoded content the properties need.
use serde_json::{json, Map, Value};

pub const SIG: u32 = 0x504d_444d; // "MDMP"
pub const T_THREADS: u32 = 3;
pub const T_MODULES: u32 = 4;
pub const T_MEMLIST: u32 = 5;
pub const T_EXCEPTION: u32 = 6;
pub const T_SYSINFO: u32 = 7;
pub const T_HANDLES: u32 = 12;
pub const T_MEMINFO: u32 = 16;
pub const T_THREADNAMES: u32 = 24;
pub const T_CPUINFO: u32 = 0x4767_0003;
pub const T_STATUS: u32 = 0x4767_0004;
pub const T_LSB: u32 = 0x4767_0005;
pub const T_CMDLINE: u32 = 0x4767_0006;
pub const T_ENVIRON: u32 = 0x4767_0007;
pub const T_AUXV: u32 = 0x4767_0008;
pub const T_MAPS: u32 = 0x4767_0009;
pub const T_DSODEBUG: u32 = 0x4767_000A;
pub const T_LIMITS: u32 = 0x4d7a_0003;
pub const T_SOFTERR: u32 = 0x4d7a_0004;
pub const CTX_SIZE: usize = 1232;

pub fn type_name(t: u32) -> &'static str {
    match t {
        0 => "unused",
        T_THREADS => "threads",
        T_MODULES => "modules",
        T_MEMLIST => "memlist",
        T_EXCEPTION => "exception",
        T_SYSINFO => "sysinfo",
        T_HANDLES => "handles",
        T_MEMINFO => "meminfo",
        T_THREADNAMES => "threadnames",
        T_CPUINFO => "cpuinfo",
        T_STATUS => "status",
        T_LSB => "lsb",
        T_CMDLINE => "cmdline",
        T_ENVIRON => "environ",
        T_AUXV => "auxv",
        T_MAPS => "maps",
        T_DSODEBUG => "dsodebug",
        T_LIMITS => "limits",
        T_SOFTERR => "softerrors",
        _ => "other",
    }
}

#[derive(Clone, Debug)]
pub struct Obj {
    pub kind: String,
    pub off: u64,
    pub len: u64,
    pub owner: String,
}

pub struct Rd<'a> {
    pub b: &'a [u8],
}
impl<'a> Rd<'a> {
    pub fn u8(&self, at: usize) -> Option<u8> { self.b.get(at).copied() }
    pub fn u16(&self, at: usize) -> Option<u16> { self.b.get(at..at + 2).map(|s| u16::from_le_bytes(s.try_into().unwrap())) }
    pub fn u32(&self, at: usize) -> Option<u32> { self.b.get(at..at + 4).map(|s| u32::from_le_bytes(s.try_into().unwrap())) }
    pub fn u64(&self, at: usize) -> Option<u64> { self.b.get(at..at + 8).map(|s| u64::from_le_bytes(s.try_into().unwrap())) }
    pub fn bytes(&self, at: usize, n: usize) -> Option<&'a [u8]> { self.b.get(at..at.checked_add(n)?) }
    /// MINIDUMP_STRING at rva: (total length incl. the 4-byte header, text)
    pub fn string(&self, rva: usize) -> Option<(u64, String, bool)> {
        let n = self.u32(rva)? as usize;
        let raw = self.bytes(rva + 4, n)?;
        if n % 2 != 0 {
            return Some((4 + n as u64, String::new(), false));
        }
        let units: Vec<u16> = raw.chunks(2).map(|c| u16::from_le_bytes([c[0], c[1]])).collect();
        match String::from_utf16(&units) {
            Ok(s) => Some((4 + n as u64, s, true)),
            Err(_) => Some((4 + n as u64, String::from_utf16_lossy(&units), false)),
        }
    }
}

#[derive(Default)]
pub struct Parsed {
    pub header: Value,
    pub dir: Vec<(u32, u32, u32)>, // (type, size, rva)
    pub objs: Vec<Obj>,
    pub errors: Vec<String>,
    pub streams: Map<String, Value>,
    /// per directory index: largest end offset of anything the stream references (incl. its own body)
    pub ref_end: Vec<u64>,
    pub complete: bool,
}

pub fn hexs(b: &[u8]) -> String {
    b.iter().map(|x| format!("{x:02x}")).collect()
}

/// CONTEXT_AMD64 fields we compare (name, offset, size)
pub const CTX_FIELDS: &[(&str, usize, usize)] = &[
    ("context_flags", 0x30, 4), ("mx_csr", 0x34, 4), ("cs", 0x38, 2), ("ds", 0x3a, 2), ("es", 0x3c, 2), ("fs", 0x3e, 2), ("gs", 0x40, 2),
    ("ss", 0x42, 2), ("eflags", 0x44, 4), ("dr0", 0x48, 8), ("dr1", 0x50, 8), ("dr2", 0x58, 8), ("dr3", 0x60, 8), ("dr6", 0x68, 8),
    ("dr7", 0x70, 8), ("rax", 0x78, 8), ("rcx", 0x80, 8), ("rdx", 0x88, 8), ("rbx", 0x90, 8), ("rsp", 0x98, 8), ("rbp", 0xa0, 8),
    ("rsi", 0xa8, 8), ("rdi", 0xb0, 8), ("r8", 0xb8, 8), ("r9", 0xc0, 8), ("r10", 0xc8, 8), ("r11", 0xd0, 8), ("r12", 0xd8, 8),
    ("r13", 0xe0, 8), ("r14", 0xe8, 8), ("r15", 0xf0, 8), ("rip", 0xf8, 8),
    // XMM_SAVE_AREA32 at 0x100
    ("fp_control_word", 0x100, 2), ("fp_status_word", 0x102, 2), ("fp_tag_word", 0x104, 1), ("fp_error_opcode", 0x106, 2),
    ("fp_error_offset", 0x108, 4), ("fp_error_selector", 0x10c, 2), ("fp_data_offset", 0x110, 4), ("fp_data_selector", 0x114, 2),
    ("fp_mx_csr", 0x118, 4), ("fp_mx_csr_mask", 0x11c, 4),
];

pub fn decode_context(b: &[u8]) -> Value {
    let mut m = Map::new();
    for (name, off, size) in CTX_FIELDS {
        if off + size <= b.len() {
            let mut v = [0u8; 8];
            v[..*size].copy_from_slice(&b[*off..off + size]);
            m.insert(name.to_string(), json!(format!("{:x}", u64::from_le_bytes(v))));
        }
    }
    if b.len() >= 0x1a0 + 256 {
        m.insert("st".into(), json!(hexs(&b[0x120..0x1a0])));
        m.insert("xmm".into(), json!(hexs(&b[0x1a0..0x2a0])));
    }
    Value::Object(m)
}

pub fn parse(img: &[u8]) -> Parsed {
    let r = Rd { b: img };
    let mut p = Parsed::default();
    let (Some(sig), Some(ver), Some(count), Some(dir_rva)) = (r.u32(0), r.u32(4), r.u32(8), r.u32(12)) else {
        p.errors.push("header truncated".into());
        return p;
    };
    p.header = json!({"sig_ok": sig == SIG, "version": ver & 0xffff, "stream_count": count, "dir_rva": dir_rva,
                      "checksum": r.u32(16), "time": r.u32(20), "flags_lo": r.u64(24).map(|f| f & 0xffff_ffff)});
    p.objs.push(Obj { kind: "header".into(), off: 0, len: 32, owner: "".into() });
    if count > 10_000 {
        p.errors.push(format!("absurd stream count {count}"));
        return p;
    }
    p.objs.push(Obj { kind: "directory".into(), off: dir_rva as u64, len: 12 * count as u64, owner: "".into() });
    p.complete = true;
    for i in 0..count as usize {
        let at = dir_rva as usize + 12 * i;
        match (r.u32(at), r.u32(at + 4), r.u32(at + 8)) {
            (Some(t), Some(s), Some(rva)) => p.dir.push((t, s, rva)),
            _ => {
                p.errors.push(format!("directory entry {i} truncated"));
                p.complete = false;
                return p;
            }
        }
    }
    for (i, (t, size, rva)) in p.dir.clone().into_iter().enumerate() {
        let mut ref_end = rva as u64 + size as u64;
        if t == 0 {
            p.ref_end.push(0);
            continue;
        }
        let name = type_name(t);
        p.objs.push(Obj { kind: format!("s:{name}"), off: rva as u64, len: size as u64, owner: format!("dir{i}") });
        if rva as usize + size as usize > img.len() {
            p.errors.push(format!("stream {name} [{rva},+{size}) beyond image end {}", img.len()));
            p.ref_end.push(ref_end);
            continue;
        }
        let note = |o: Obj, ref_end: &mut u64| {
            *ref_end = (*ref_end).max(o.off + o.len);
            o
        };
        let base = rva as usize;
        let mut st = Map::new();
        st.insert("rva".into(), json!(rva));
        st.insert("size".into(), json!(size));
        let mut errs: Vec<String> = Vec::new();
        match t {
            T_THREADS => {
                let n = r.u32(base).unwrap_or(0) as usize;
                st.insert("count".into(), json!(n));
                st.insert("size_ok".into(), json!(size as usize == 4 + 48 * n));
                let mut ths = Vec::new();
                for k in 0..n {
                    let a = base + 4 + 48 * k;
                    let (Some(tid), Some(sstart), Some(ssize), Some(srva), Some(csize), Some(crva)) =
                        (r.u32(a), r.u64(a + 24), r.u32(a + 32), r.u32(a + 36), r.u32(a + 40), r.u32(a + 44)) else {
                        errs.push(format!("thread {k} truncated"));
                        break;
                    };
                    let mut th = json!({"tid": tid, "suspend": r.u32(a + 4), "prio_class": r.u32(a + 8), "prio": r.u32(a + 12), "teb": r.u64(a + 16),
                                        "stack_start": sstart, "stack_size": ssize, "stack_rva": srva, "ctx_size": csize, "ctx_rva": crva});
                    if ssize > 0 {
                        p.objs.push(note(Obj { kind: "stack".into(), off: srva as u64, len: ssize as u64, owner: format!("t{tid}") }, &mut ref_end));
                    }
                    p.objs.push(note(Obj { kind: "ctx".into(), off: crva as u64, len: csize as u64, owner: format!("t{tid}") }, &mut ref_end));
                    if let Some(cb) = r.bytes(crva as usize, csize as usize) {
                        th["ctx"] = decode_context(cb);
                    } else {
                        errs.push(format!("thread {tid} context [{crva},+{csize}) outside image"));
                    }
                    if ssize > 0 && r.bytes(srva as usize, ssize as usize).is_none() {
                        errs.push(format!("thread {tid} stack [{srva},+{ssize}) outside image"));
                    }
                    ths.push(th);
                }
                st.insert("threads".into(), json!(ths));
            }
            T_MODULES => {
                let n = r.u32(base).unwrap_or(0) as usize;
                st.insert("count".into(), json!(n));
                st.insert("size_ok".into(), json!(size as usize == 4 + 108 * n));
                let mut ms = Vec::new();
                for k in 0..n {
                    let a = base + 4 + 108 * k;
                    let (Some(b0), Some(sz), Some(nrva), Some(cvs), Some(cvr)) = (r.u64(a), r.u32(a + 8), r.u32(a + 20), r.u32(a + 76), r.u32(a + 80)) else {
                        errs.push(format!("module {k} truncated"));
                        break;
                    };
                    let mut m = json!({"base": b0, "size": sz, "name_rva": nrva, "cv_size": cvs, "cv_rva": cvr,
                                       "vi_sig": r.u32(a + 24), "vi_struct": r.u32(a + 28), "file_hi": r.u32(a + 32), "file_lo": r.u32(a + 36),
                                       "prod_hi": r.u32(a + 40), "prod_lo": r.u32(a + 44), "misc_size": r.u32(a + 84), "misc_rva": r.u32(a + 88)});
                    match r.string(nrva as usize) {
                        Some((len, s, ok)) => {
                            p.objs.push(note(Obj { kind: "modname".into(), off: nrva as u64, len, owner: format!("m{k}") }, &mut ref_end));
                            m["name"] = json!(s);
                            m["name_ok"] = json!(ok);
                        }
                        None => errs.push(format!("module {k} name at {nrva} outside image")),
                    }
                    if cvs > 0 {
                        p.objs.push(note(Obj { kind: "cv".into(), off: cvr as u64, len: cvs as u64, owner: format!("m{k}") }, &mut ref_end));
                        match r.bytes(cvr as usize, cvs as usize) {
                            Some(cv) if cv.len() >= 4 => {
                                m["cv_sig"] = json!(u32::from_le_bytes(cv[..4].try_into().unwrap()));
                                m["cv_id"] = json!(hexs(&cv[4..]));
                            }
                            Some(_) => errs.push(format!("module {k} cv record too short")),
                            None => errs.push(format!("module {k} cv [{cvr},+{cvs}) outside image")),
                        }
                    }
                    ms.push(m);
                }
                st.insert("modules".into(), json!(ms));
            }
            T_MEMLIST => {
                let n = r.u32(base).unwrap_or(0) as usize;
                st.insert("count".into(), json!(n));
                st.insert("size_ok".into(), json!(size as usize == 4 + 16 * n));
                let mut ds = Vec::new();
                for k in 0..n {
                    let a = base + 4 + 16 * k;
                    let (Some(s0), Some(sz), Some(rv)) = (r.u64(a), r.u32(a + 8), r.u32(a + 12)) else {
                        errs.push(format!("memory descriptor {k} truncated"));
                        break;
                    };
                    p.objs.push(note(Obj { kind: "mem".into(), off: rv as u64, len: sz as u64, owner: format!("d{k}") }, &mut ref_end));
                    if r.bytes(rv as usize, sz as usize).is_none() {
                        errs.push(format!("memory descriptor {k} blob [{rv},+{sz}) outside image"));
                    }
                    ds.push(json!({"start": s0, "size": sz, "rva": rv}));
                }
                st.insert("regions".into(), json!(ds));
            }
            T_EXCEPTION => {
                st.insert("size_ok".into(), json!(size == 168));
                let crva = r.u32(base + 164).unwrap_or(0);
                let csize = r.u32(base + 160).unwrap_or(0);
                st.insert("tid".into(), json!(r.u32(base)));
                st.insert("code".into(), json!(r.u32(base + 8)));
                st.insert("flags".into(), json!(r.u32(base + 12)));
                st.insert("record".into(), json!(r.u64(base + 16)));
                st.insert("address".into(), json!(r.u64(base + 24).map(|v| format!("{v:x}"))));
                st.insert("nparams".into(), json!(r.u32(base + 32)));
                st.insert("ctx_size".into(), json!(csize));
                st.insert("ctx_rva".into(), json!(crva));
                if csize > 0 {
                    p.objs.push(note(Obj { kind: "ctx".into(), off: crva as u64, len: csize as u64, owner: "exception".into() }, &mut ref_end));
                    match r.bytes(crva as usize, csize as usize) {
                        Some(cb) => {
                            st.insert("ctx".into(), decode_context(cb));
                        }
                        None => errs.push(format!("exception context [{crva},+{csize}) outside image")),
                    }
                }
            }
            T_SYSINFO => {
                st.insert("size_ok".into(), json!(size == 56));
                st.insert("arch".into(), json!(r.u16(base)));
                st.insert("level".into(), json!(r.u16(base + 2)));
                st.insert("revision".into(), json!(r.u16(base + 4)));
                st.insert("nproc".into(), json!(r.u8(base + 6)));
                st.insert("platform".into(), json!(r.u32(base + 20)));
                let csd = r.u32(base + 24).unwrap_or(0);
                st.insert("csd_rva".into(), json!(csd));
                st.insert("vendor".into(), json!(r.bytes(base + 32, 12).map(|b| String::from_utf8_lossy(b).into_owned())));
                match r.string(csd as usize) {
                    Some((len, s, ok)) => {
                        p.objs.push(note(Obj { kind: "csd".into(), off: csd as u64, len, owner: "sysinfo".into() }, &mut ref_end));
                        st.insert("csd".into(), json!(s));
                        st.insert("csd_ok".into(), json!(ok));
                    }
                    None => errs.push(format!("csd string at {csd} outside image")),
                }
            }
            T_MEMINFO => {
                let (hs, es, n) = (r.u32(base).unwrap_or(0), r.u32(base + 4).unwrap_or(0), r.u64(base + 8).unwrap_or(0));
                st.insert("count".into(), json!(n));
                st.insert("size_ok".into(), json!(hs == 16 && es == 48 && size as u64 == 16 + 48 * n));
                let mut es_ = Vec::new();
                for k in 0..(n as usize).min(100_000) {
                    let a = base + 16 + 48 * k;
                    if a + 48 > img.len() {
                        errs.push(format!("memory info {k} truncated"));
                        break;
                    }
                    es_.push(json!({"base": r.u64(a), "alloc_base": r.u64(a + 8), "alloc_prot": r.u32(a + 16), "size": r.u64(a + 24),
                                    "state": r.u32(a + 32), "prot": r.u32(a + 36), "type": r.u32(a + 40)}));
                }
                st.insert("entries".into(), json!(es_));
            }
            T_HANDLES => {
                let (hs, ds, n) = (r.u32(base).unwrap_or(0), r.u32(base + 4).unwrap_or(0), r.u32(base + 8).unwrap_or(0));
                st.insert("count".into(), json!(n));
                st.insert("size_ok".into(), json!(hs == 16 && ds == 32 && size as u64 == 16 + 32 * n as u64));
                let mut hsv = Vec::new();
                for k in 0..n as usize {
                    let a = base + 16 + 32 * k;
                    let (Some(h), Some(tn), Some(on), Some(attr)) = (r.u64(a), r.u32(a + 8), r.u32(a + 12), r.u32(a + 16)) else {
                        errs.push(format!("handle {k} truncated"));
                        break;
                    };
                    let mut hv = json!({"handle": h, "type_name_rva": tn, "object_name_rva": on, "attributes": attr});
                    if on != 0 {
                        match r.string(on as usize) {
                            Some((len, s, ok)) => {
                                p.objs.push(note(Obj { kind: "handlename".into(), off: on as u64, len, owner: format!("h{h}") }, &mut ref_end));
                                hv["name"] = json!(s);
                                hv["name_ok"] = json!(ok);
                            }
                            None => errs.push(format!("handle {h} name at {on} outside image")),
                        }
                    }
                    hsv.push(hv);
                }
                st.insert("handles".into(), json!(hsv));
            }
            T_THREADNAMES => {
                let n = r.u32(base).unwrap_or(0) as usize;
                st.insert("count".into(), json!(n));
                st.insert("size_ok".into(), json!(size as usize == 4 + 12 * n));
                let mut ns = Vec::new();
                for k in 0..n {
                    let a = base + 4 + 12 * k;
                    let (Some(tid), Some(nr)) = (r.u32(a), r.u64(a + 4)) else {
                        errs.push(format!("thread name {k} truncated"));
                        break;
                    };
                    let mut nv = json!({"tid": tid, "rva": nr, "slot": k});
                    match r.string(nr as usize) {
                        Some((len, s, ok)) if nr != 0 => {
                            p.objs.push(note(Obj { kind: "threadname".into(), off: nr, len, owner: format!("n{k}") }, &mut ref_end));
                            nv["name"] = json!(s);
                            nv["name_hex"] = json!(hexs(s.as_bytes()));
                            nv["name_ok"] = json!(ok);
                        }
                        _ => {
                            nv["name_ok"] = json!(false);
                            errs.push(format!("thread name entry {k} (tid {tid}) rva {nr} does not designate a string inside the image"));
                        }
                    }
                    ns.push(nv);
                }
                st.insert("names".into(), json!(ns));
            }
            T_DSODEBUG => {
                let (map, n) = (r.u32(base + 4).unwrap_or(0), r.u32(base + 8).unwrap_or(0));
                st.insert("version".into(), json!(r.u32(base)));
                st.insert("map_rva".into(), json!(map));
                st.insert("count".into(), json!(n));
                st.insert("brk".into(), json!(r.u64(base + 12)));
                st.insert("ldbase".into(), json!(r.u64(base + 20)));
                st.insert("dynamic".into(), json!(r.u64(base + 28)));
                st.insert("dynamic_len".into(), json!(size as i64 - 36));
                st.insert("dynamic_hex".into(), json!(r.bytes(base + 36, (size as usize).saturating_sub(36)).map(hexs)));
                let mut ls = Vec::new();
                if n > 0 {
                    p.objs.push(note(Obj { kind: "linkmaps".into(), off: map as u64, len: 20 * n as u64, owner: "dso".into() }, &mut ref_end));
                    for k in 0..n as usize {
                        let a = map as usize + 20 * k;
                        let (Some(addr), Some(nr), Some(ld)) = (r.u64(a), r.u32(a + 8), r.u64(a + 12)) else {
                            errs.push(format!("link map {k} truncated"));
                            break;
                        };
                        let mut lv = json!({"addr": addr, "name_rva": nr, "ld": ld});
                        match r.string(nr as usize) {
                            Some((len, s, ok)) => {
                                p.objs.push(note(Obj { kind: "dsoname".into(), off: nr as u64, len, owner: format!("l{k}") }, &mut ref_end));
                                lv["name"] = json!(s);
                                lv["name_ok"] = json!(ok);
                            }
                            None => errs.push(format!("link map {k} name at {nr} outside image")),
                        }
                        ls.push(lv);
                    }
                }
                st.insert("link_maps".into(), json!(ls));
            }
            T_CPUINFO | T_STATUS | T_LSB | T_CMDLINE | T_ENVIRON | T_AUXV | T_MAPS | T_LIMITS | T_SOFTERR => {
                // raw byte streams; content is compared by the caller
            }
            _ => errs.push(format!("unexpected stream type {t:#x}")),
        }
        for e in errs {
            p.errors.push(format!("{name}: {e}"));
        }
        p.ref_end.push(ref_end);
        p.streams.insert(name.to_string(), Value::Object(st));
    }
    p
}

impl Parsed {
    pub fn stream_bytes<'a>(&self, img: &'a [u8], t: u32) -> Option<&'a [u8]> {
        self.dir.iter().find(|d| d.0 == t).and_then(|d| img.get(d.2 as usize..d.2 as usize + d.1 as usize))
    }
    /// Objects sorted by offset with the two intended aliases collapsed (identical extent and one of
    /// (stack, mem) / (ctx, ctx)); returned as JSON records for the structural check.
    pub fn objects_json(&self) -> Vec<Value> {
        let mut o = self.objs.clone();
        o.retain(|x| x.len > 0);
        o.sort_by(|a, b| (a.off, a.len, a.kind.clone()).cmp(&(b.off, b.len, b.kind.clone())));
        let mut out: Vec<Value> = Vec::new();
        let mut i = 0;
        while i < o.len() {
            let mut j = i + 1;
            let mut kinds = vec![o[i].kind.clone()];
            let mut owners = vec![o[i].owner.clone()];
            while j < o.len() && o[j].off == o[i].off && o[j].len == o[i].len {
                kinds.push(o[j].kind.clone());
                owners.push(o[j].owner.clone());
                j += 1;
            }
            out.push(json!({"off": o[i].off, "len": o[i].len, "kinds": kinds, "owners": owners}));
            i = j;
        }
        out
    }
}
