//! C03, the attach race: `PtraceDumper::suspend_thread` / `resume_thread` cycles on one target thread
//! while another thread of the driver floods that target thread with a queued (realtime) signal.
//! Every signal sent must be delivered to the target's handler exactly once.
use crate::{target::{self, TargetProc}, trace::Trace};
use minidump_writer::ptrace_dumper::PtraceDumper;
use serde_json::{json, Value};
use std::sync::atomic::{AtomicBool, AtomicU64, Ordering};
use std::sync::{Arc, Mutex};
use std::time::{Duration, Instant};

static COUNTS: Mutex<Option<[u64; 6]>> = Mutex::new(None); // attach_ok, wait_stop, wait_other, wait_err, cont, detach

fn hook(point: &'static str, args: &[(&'static str, i64)], _b: Option<&[u8]>) {
    let mut g = COUNTS.lock().unwrap_or_else(|e| e.into_inner());
    let Some(c) = g.as_mut() else { return };
    match point {
        "attach:ok" => c[0] += 1,
        "wait:status" => {
            if args.iter().any(|(k, v)| *k == "stopsig" && *v == libc::SIGSTOP as i64) { c[1] += 1 } else { c[2] += 1 }
        }
        "wait:err" => c[3] += 1,
        "cont:before" => c[4] += 1,
        "detach:before" => c[5] += 1,
        _ => {}
    }
}

pub fn run(cycles: usize, seed: u64, workdir: &str, tr: &mut Trace) {
    let cfg = json!({"shared": true, "threads": [{"mode": "heartbeat"}, {"mode": "heartbeat"}]});
    let t = match TargetProc::spawn(&cfg, workdir, "flood") {
        Ok(t) => t,
        Err(e) => {
            tr.emit(json!({"ev":"flood","error":e}));
            return;
        }
    };
    let pid = t.pid;
    let victim = t.report["threads"][0]["tid"].as_i64().unwrap_or(0) as i32;
    let sig = libc::SIGRTMIN() + 1;
    *COUNTS.lock().unwrap() = Some([0; 6]);
    minidump_writer::verif_hooks::set_hook(Some(Box::new(hook)));
    let stop = Arc::new(AtomicBool::new(false));
    let sent = Arc::new(AtomicU64::new(0));
    let (stop2, sent2) = (stop.clone(), sent.clone());
    // pin the two driver threads and keep bursts short so that the signal queue never fills
    let sender = std::thread::spawn(move || {
        let mut k = seed;
        while !stop2.load(Ordering::Relaxed) {
            let r = unsafe { libc::syscall(libc::SYS_tgkill, pid, victim, sig) };
            if r == 0 {
                sent2.fetch_add(1, Ordering::SeqCst);
            }
            k = k.wrapping_mul(6364136223846793005).wrapping_add(1442695040888963407);
            let spin = (k >> 60) as u32;
            for _ in 0..spin * 20 {
                std::hint::spin_loop();
            }
            if (k >> 33) % 64 == 0 {
                std::thread::sleep(Duration::from_micros(50));
            }
        }
    });
    let mut errs: std::collections::BTreeMap<String, u64> = Default::default();
    let t0 = Instant::now();
    let mut done = 0;
    for _ in 0..cycles {
        match PtraceDumper::suspend_thread(victim) {
            Ok(()) => {
                if let Err(e) = PtraceDumper::resume_thread(victim) {
                    *errs.entry(format!("resume: {e}")).or_default() += 1;
                }
            }
            Err(e) => {
                *errs.entry(format!("{e}").chars().take(60).collect()).or_default() += 1;
            }
        }
        // what Drop(PtraceDumper) does after every dump: let the process continue
        unsafe { libc::kill(pid, libc::SIGCONT) };
        done += 1;
        if t0.elapsed() > Duration::from_secs(40) {
            break;
        }
    }
    stop.store(true, Ordering::SeqCst);
    let _ = sender.join();
    minidump_writer::verif_hooks::set_hook(None);
    // quiescence: nothing pending any more
    let q0 = Instant::now();
    loop {
        let s = target::task_status(pid, victim);
        let pend = s["sigpnd"].as_str().map(|p| p.trim_start_matches('0') != "").unwrap_or(false);
        if !pend || q0.elapsed() > Duration::from_secs(3) {
            break;
        }
        std::thread::sleep(Duration::from_millis(2));
    }
    std::thread::sleep(Duration::from_millis(30));
    let c = t.counters(2);
    let s = target::task_status(pid, victim);
    let counts = COUNTS.lock().unwrap().take().unwrap_or([0; 6]);
    let hb0 = c[0][0];
    std::thread::sleep(Duration::from_millis(10));
    let mut hb1 = t.counters(2)[0][0];
    // (on a busy machine the thread may just be waiting for a CPU: up to a second before it counts as not running)
    for _ in 0..100 {
        if hb1 > hb0 {
            break;
        }
        std::thread::sleep(Duration::from_millis(10));
        hb1 = t.counters(2)[0][0];
    }
    let ev: Value = json!({"ev":"flood","cycles":done,"sent":sent.load(Ordering::SeqCst),"delivered":c[0][2],
        "attachOk":counts[0],"waitStop":counts[1],"waitOther":counts[2],"waitErr":counts[3],"reinjected":counts[4],"detach":counts[5],
        "errors": errs, "state": s["state"], "tracer": s["tracer"], "hbAdvancing": hb1 > hb0, "pendingAtEnd": s["sigpnd"]});
    tr.emit(ev);
}
